//! xoshiro256** PRNG, hand written (no third-party crates).

#[derive(Clone, Debug)]
pub struct Rng {
    s: [u64; 4],
}

fn splitmix(x: &mut u64) -> u64 {
    *x = x.wrapping_add(0x9E37_79B9_7F4A_7C15);
    let mut z = *x;
    z = (z ^ (z >> 30)).wrapping_mul(0xBF58_476D_1CE4_E5B9);
    z = (z ^ (z >> 27)).wrapping_mul(0x94D0_49BB_1331_11EB);
    z ^ (z >> 31)
}

pub fn hash_str(s: &str) -> u64 {
    // FNV-1a
    let mut h: u64 = 0xcbf29ce484222325;
    for b in s.as_bytes() {
        h ^= *b as u64;
        h = h.wrapping_mul(0x100000001b3);
    }
    h
}

impl Rng {
    pub fn new(seed: u64) -> Rng {
        let mut x = seed;
        let s = [
            splitmix(&mut x),
            splitmix(&mut x),
            splitmix(&mut x),
            splitmix(&mut x),
        ];
        Rng { s }
    }

    /// PRNG stream for one case: (VERIF_SEED, property, stream, case index)
    pub fn for_case(seed: u64, property: &str, stream: u64, case: u64) -> Rng {
        let mut x = seed ^ 0xA5A5_5A5A_1234_5678;
        let a = splitmix(&mut x);
        let mut y = a ^ hash_str(property);
        let b = splitmix(&mut y);
        let mut z = b ^ stream.wrapping_mul(0x9E37_79B9_7F4A_7C15);
        let c = splitmix(&mut z);
        let mut w = c ^ case.wrapping_mul(0xD6E8_FEB8_6659_FD93);
        let d = splitmix(&mut w);
        Rng::new(d)
    }

    pub fn next_u64(&mut self) -> u64 {
        let result = self.s[1].wrapping_mul(5).rotate_left(7).wrapping_mul(9);
        let t = self.s[1] << 17;
        self.s[2] ^= self.s[0];
        self.s[3] ^= self.s[1];
        self.s[1] ^= self.s[2];
        self.s[0] ^= self.s[3];
        self.s[2] ^= t;
        self.s[3] = self.s[3].rotate_left(45);
        result
    }

    /// uniform in 0..n (n > 0)
    pub fn below(&mut self, n: usize) -> usize {
        if n <= 1 {
            return 0;
        }
        (self.next_u64() % (n as u64)) as usize
    }

    /// inclusive range
    pub fn range(&mut self, lo: usize, hi: usize) -> usize {
        if hi <= lo {
            return lo;
        }
        lo + self.below(hi - lo + 1)
    }

    /// true with probability num/den
    pub fn chance(&mut self, num: usize, den: usize) -> bool {
        self.below(den) < num
    }

    pub fn bool(&mut self) -> bool {
        self.next_u64() & 1 == 1
    }

    pub fn pick<'a, T>(&mut self, v: &'a [T]) -> &'a T {
        &v[self.below(v.len())]
    }

    pub fn pick_weighted(&mut self, weights: &[usize]) -> usize {
        let total: usize = weights.iter().sum();
        if total == 0 {
            return 0;
        }
        let mut r = self.below(total);
        for (i, w) in weights.iter().enumerate() {
            if r < *w {
                return i;
            }
            r -= *w;
        }
        weights.len() - 1
    }

    pub fn shuffle<T>(&mut self, v: &mut [T]) {
        let n = v.len();
        for i in (1..n).rev() {
            let j = self.below(i + 1);
            v.swap(i, j);
        }
    }
}
