//! Minimal JSON value, writer and parser (no third-party crates).

use std::collections::BTreeMap;

#[derive(Clone, Debug, PartialEq)]
pub enum J {
    Null,
    Bool(bool),
    Int(i64),
    Num(f64),
    Str(String),
    Arr(Vec<J>),
    Obj(Vec<(String, J)>),
}

impl J {
    pub fn obj() -> J {
        J::Obj(Vec::new())
    }
    pub fn s<S: Into<String>>(s: S) -> J {
        J::Str(s.into())
    }
    pub fn i<N: TryInto<i64>>(n: N) -> J {
        J::Int(n.try_into().unwrap_or(i64::MAX))
    }
    pub fn set<S: Into<String>>(mut self, k: S, v: J) -> J {
        if let J::Obj(ref mut o) = self {
            let k = k.into();
            if let Some(e) = o.iter_mut().find(|(kk, _)| *kk == k) {
                e.1 = v;
            } else {
                o.push((k, v));
            }
        }
        self
    }
    pub fn put<S: Into<String>>(&mut self, k: S, v: J) {
        if let J::Obj(ref mut o) = self {
            let k = k.into();
            if let Some(e) = o.iter_mut().find(|(kk, _)| *kk == k) {
                e.1 = v;
            } else {
                o.push((k, v));
            }
        }
    }
    pub fn get(&self, k: &str) -> Option<&J> {
        if let J::Obj(o) = self {
            o.iter().find(|(kk, _)| kk == k).map(|(_, v)| v)
        } else {
            None
        }
    }
    pub fn as_str(&self) -> Option<&str> {
        if let J::Str(s) = self {
            Some(s)
        } else {
            None
        }
    }
    pub fn as_i64(&self) -> Option<i64> {
        match self {
            J::Int(i) => Some(*i),
            J::Num(f) => Some(*f as i64),
            _ => None,
        }
    }
    pub fn as_arr(&self) -> Option<&Vec<J>> {
        if let J::Arr(a) = self {
            Some(a)
        } else {
            None
        }
    }
    pub fn from_counts(m: &BTreeMap<String, u64>) -> J {
        J::Obj(m.iter().map(|(k, v)| (k.clone(), J::i(*v))).collect())
    }

    pub fn to_string(&self) -> String {
        let mut s = String::new();
        self.write(&mut s, 0, false);
        s
    }
    pub fn to_pretty(&self) -> String {
        let mut s = String::new();
        self.write(&mut s, 0, true);
        s.push('\n');
        s
    }

    fn write(&self, out: &mut String, ind: usize, pretty: bool) {
        match self {
            J::Null => out.push_str("null"),
            J::Bool(b) => out.push_str(if *b { "true" } else { "false" }),
            J::Int(i) => out.push_str(&i.to_string()),
            J::Num(f) => {
                if f.is_finite() {
                    out.push_str(&format!("{:.3}", f));
                } else {
                    out.push_str("0")
                }
            }
            J::Str(s) => write_str(out, s),
            J::Arr(a) => {
                if a.is_empty() {
                    out.push_str("[]");
                    return;
                }
                out.push('[');
                for (i, v) in a.iter().enumerate() {
                    if i > 0 {
                        out.push(',');
                    }
                    if pretty {
                        out.push('\n');
                        out.push_str(&" ".repeat(ind + 1));
                    }
                    v.write(out, ind + 1, pretty);
                }
                if pretty {
                    out.push('\n');
                    out.push_str(&" ".repeat(ind));
                }
                out.push(']');
            }
            J::Obj(o) => {
                if o.is_empty() {
                    out.push_str("{}");
                    return;
                }
                out.push('{');
                for (i, (k, v)) in o.iter().enumerate() {
                    if i > 0 {
                        out.push(',');
                    }
                    if pretty {
                        out.push('\n');
                        out.push_str(&" ".repeat(ind + 1));
                    }
                    write_str(out, k);
                    out.push(':');
                    if pretty {
                        out.push(' ');
                    }
                    v.write(out, ind + 1, pretty);
                }
                if pretty {
                    out.push('\n');
                    out.push_str(&" ".repeat(ind));
                }
                out.push('}');
            }
        }
    }
}

fn write_str(out: &mut String, s: &str) {
    out.push('"');
    for c in s.chars() {
        match c {
            '"' => out.push_str("\\\""),
            '\\' => out.push_str("\\\\"),
            '\n' => out.push_str("\\n"),
            '\r' => out.push_str("\\r"),
            '\t' => out.push_str("\\t"),
            c if (c as u32) < 0x20 || c == '\u{7f}' || c == '\u{2028}' || c == '\u{2029}' => {
                out.push_str(&format!("\\u{:04x}", c as u32))
            }
            c => out.push(c),
        }
    }
    out.push('"');
}

pub fn parse(text: &str) -> Result<J, String> {
    let chars: Vec<char> = text.chars().collect();
    let mut p = P { c: &chars, i: 0 };
    p.ws();
    let v = p.value()?;
    p.ws();
    if p.i != p.c.len() {
        return Err(format!("trailing data at {}", p.i));
    }
    Ok(v)
}

struct P<'a> {
    c: &'a [char],
    i: usize,
}

impl<'a> P<'a> {
    fn ws(&mut self) {
        while self.i < self.c.len() && self.c[self.i].is_whitespace() {
            self.i += 1;
        }
    }
    fn peek(&self) -> Option<char> {
        self.c.get(self.i).copied()
    }
    fn expect(&mut self, ch: char) -> Result<(), String> {
        if self.peek() == Some(ch) {
            self.i += 1;
            Ok(())
        } else {
            Err(format!("expected {:?} at {}", ch, self.i))
        }
    }
    fn lit(&mut self, s: &str, v: J) -> Result<J, String> {
        for ch in s.chars() {
            self.expect(ch)?;
        }
        Ok(v)
    }
    fn value(&mut self) -> Result<J, String> {
        match self.peek() {
            None => Err("eof".into()),
            Some('n') => self.lit("null", J::Null),
            Some('t') => self.lit("true", J::Bool(true)),
            Some('f') => self.lit("false", J::Bool(false)),
            Some('"') => Ok(J::Str(self.string()?)),
            Some('[') => {
                self.i += 1;
                let mut a = Vec::new();
                self.ws();
                if self.peek() == Some(']') {
                    self.i += 1;
                    return Ok(J::Arr(a));
                }
                loop {
                    self.ws();
                    a.push(self.value()?);
                    self.ws();
                    match self.peek() {
                        Some(',') => self.i += 1,
                        Some(']') => {
                            self.i += 1;
                            return Ok(J::Arr(a));
                        }
                        _ => return Err(format!("bad array at {}", self.i)),
                    }
                }
            }
            Some('{') => {
                self.i += 1;
                let mut o = Vec::new();
                self.ws();
                if self.peek() == Some('}') {
                    self.i += 1;
                    return Ok(J::Obj(o));
                }
                loop {
                    self.ws();
                    let k = self.string()?;
                    self.ws();
                    self.expect(':')?;
                    self.ws();
                    let v = self.value()?;
                    o.push((k, v));
                    self.ws();
                    match self.peek() {
                        Some(',') => self.i += 1,
                        Some('}') => {
                            self.i += 1;
                            return Ok(J::Obj(o));
                        }
                        _ => return Err(format!("bad object at {}", self.i)),
                    }
                }
            }
            Some(_) => {
                let st = self.i;
                while self.i < self.c.len()
                    && (self.c[self.i].is_ascii_digit()
                        || matches!(self.c[self.i], '-' | '+' | '.' | 'e' | 'E'))
                {
                    self.i += 1;
                }
                let s: String = self.c[st..self.i].iter().collect();
                if let Ok(i) = s.parse::<i64>() {
                    Ok(J::Int(i))
                } else if let Ok(f) = s.parse::<f64>() {
                    Ok(J::Num(f))
                } else {
                    Err(format!("bad number {:?} at {}", s, st))
                }
            }
        }
    }
    fn string(&mut self) -> Result<String, String> {
        self.expect('"')?;
        let mut s = String::new();
        loop {
            let ch = self.peek().ok_or("eof in string")?;
            self.i += 1;
            match ch {
                '"' => return Ok(s),
                '\\' => {
                    let e = self.peek().ok_or("eof in escape")?;
                    self.i += 1;
                    match e {
                        'n' => s.push('\n'),
                        'r' => s.push('\r'),
                        't' => s.push('\t'),
                        'b' => s.push('\u{8}'),
                        'f' => s.push('\u{c}'),
                        'u' => {
                            let mut v = 0u32;
                            for _ in 0..4 {
                                let d = self.peek().ok_or("eof in \\u")?;
                                self.i += 1;
                                v = v * 16 + d.to_digit(16).ok_or("bad hex")?;
                            }
                            s.push(char::from_u32(v).unwrap_or('\u{fffd}'));
                        }
                        other => s.push(other),
                    }
                }
                c => s.push(c),
            }
        }
    }
}
