//! Realise an abstract document in a Xot through the creation API, in a chosen order.

use crate::adoc::{AKind, ANode};
use crate::snap::HTree;
use xot::{Node, Xot};

#[derive(Clone, Copy, Debug, PartialEq, Eq)]
pub enum Route {
    /// parent first, children appended left to right
    TopDown,
    /// children built completely before being appended to their parent
    BottomUp,
    /// children added right to left with prepend
    Prepend,
    /// children added right to left with insert_before on the previously added sibling
    InsertBefore,
    /// like BottomUp, but an element's declarations and attributes are attached only after its children
    AttrsLast,
    /// declarations first, then the children (appended), then the attributes
    DeclsChildrenAttrs,
    /// attributes first, then the declarations, then the children
    AttrsDeclsChildren,
    /// like BottomUp, but a text node in front of a non-text sibling is built in two pieces: the first is appended,
    /// then the sibling, then the second piece is put in with insert_before(sibling, piece) and consolidation has to
    /// merge it into the first; a text node behind a non-text sibling likewise with insert_after
    TextPieces,
    /// like BottomUp, but one non-text child per element is first put in the wrong place - in the middle of an earlier
    /// text sibling, which is appended in two halves around it - and moved to its real place once its siblings exist,
    /// with insert_after, insert_before or append used as a move; the seam it leaves has to close and the node has to
    /// arrive where the call says
    Displaced,
}

pub const ROUTES: [Route; 9] = [Route::TopDown, Route::BottomUp, Route::Prepend, Route::InsertBefore, Route::AttrsLast, Route::DeclsChildrenAttrs, Route::AttrsDeclsChildren, Route::TextPieces, Route::Displaced];

#[derive(Clone, Copy, Debug, PartialEq, Eq)]
pub enum AttrStyle {
    /// namespaces_mut / attributes_mut insert
    Map,
    /// new_namespace_node / new_attribute_node + append_*_node
    Node,
    /// any_append of freshly created nodes
    Any,
    /// the set_namespace / set_attribute shorthands
    Set,
    /// append_namespace(&CreateNamespace), every other prefix declared first with a provisional URI and then again with
    /// the final one (an update in place); attributes as nodes, every other one first with a provisional value
    Redeclare,
    /// map-style in two passes: every entry is inserted once (every other one with a provisional value), then the
    /// provisional ones are inserted again with their final value - an update of a key that is not the last one
    Reinsert,
}

pub const STYLES: [AttrStyle; 6] = [AttrStyle::Map, AttrStyle::Node, AttrStyle::Any, AttrStyle::Set, AttrStyle::Redeclare, AttrStyle::Reinsert];

/// One leaf in four (decided by its content) is created with provisional content and then given its real content
/// through the single-node mutators (text_mut().set / get_mut, comment_mut().set, processing_instruction_mut().set_data /
/// set_target, element_mut().set_name): "create it now, fill it in later" has to give the same node.
pub fn new_leaf(xot: &mut Xot, a: &ANode) -> Node {
    let key = a.text.len() + a.name.local.len() + a.data.as_ref().map_or(0, |d| d.len()) + a.children.len() + a.attrs.len();
    if key % 4 == 1 {
        match a.kind {
            AKind::Text => {
                let n = xot.new_text("zz-draft");
                if key % 8 == 1 {
                    xot.text_mut(n).unwrap().set(a.text.clone());
                } else if key % 16 == 5 {
                    if let xot::Value::Text(t) = xot.value_mut(n) {
                        t.set(a.text.clone());
                    }
                } else {
                    let s = xot.text_mut(n).unwrap().get_mut();
                    s.clear();
                    s.push_str(&a.text);
                }
                return n;
            }
            AKind::Comment if !a.text.contains("--") => {
                let n = xot.new_comment("zz-draft");
                if xot.comment_mut(n).unwrap().set(a.text.clone()).is_ok() {
                    return n;
                }
                let _ = xot.remove(n);
            }
            AKind::Pi => {
                let ns = xot.add_namespace(&a.name.ns);
                let name = xot.add_name_ns(&a.name.local, ns);
                let draft = xot.add_name("zz-draft");
                let n = if key % 8 == 1 { xot.new_processing_instruction(name, None) } else { xot.new_processing_instruction(draft, Some("zz draft ")) };
                let pi = xot.processing_instruction_mut(n).unwrap();
                pi.set_data(a.data.clone());
                let _ = pi.set_target::<String>(name);
                return n;
            }
            AKind::Elem => {
                let ns = xot.add_namespace(&a.name.ns);
                let name = xot.add_name_ns(&a.name.local, ns);
                let draft = xot.add_name("zz-draft");
                let n = xot.new_element(draft);
                xot.element_mut(n).unwrap().set_name(name);
                return n;
            }
            _ => {}
        }
    }
    if a.kind == AKind::Elem && key % 4 == 3 && !a.name.local.contains(':') {
        // the name comes from a qualified-name string and a lookup closure, as when building from prefixed input: the
        // unprefixed spelling with a closure that reports the element's namespace as the default namespace (None for
        // every other prefix), or a prefixed spelling with a closure that knows that one prefix
        let ns = xot.add_namespace(&a.name.ns);
        let made = if key % 8 == 3 {
            xot::xmlname::CreateName::parse_full_name(xot, &a.name.local, |p| if p.is_empty() { Some(ns) } else { None })
        } else {
            xot::xmlname::CreateName::parse_full_name(xot, &format!("zzq:{}", a.name.local), |p| if p == "zzq" { Some(ns) } else { None })
        };
        if let Ok(cn) = made {
            return xot.new_element(cn);
        }
    }
    match a.kind {
        AKind::Doc => xot.new_document(),
        AKind::Elem => {
            let ns = xot.add_namespace(&a.name.ns);
            let name = xot.add_name_ns(&a.name.local, ns);
            xot.new_element(name)
        }
        AKind::Text => xot.new_text(&a.text),
        AKind::Comment => xot.new_comment(&a.text),
        AKind::Pi => {
            let ns = xot.add_namespace(&a.name.ns);
            let name = xot.add_name_ns(&a.name.local, ns);
            xot.new_processing_instruction(name, a.data.as_deref())
        }
    }
}

fn add_abnormal(xot: &mut Xot, e: Node, a: &ANode, style: AttrStyle, h: &mut HTree) -> Result<(), String> {
    add_abnormal_part(xot, e, a, style, h, true, true)
}

fn add_abnormal_part(xot: &mut Xot, e: Node, a: &ANode, style: AttrStyle, h: &mut HTree, decls: bool, attrs: bool) -> Result<(), String> {
    let no_decls: Vec<(String, String)> = Vec::new();
    let no_attrs: Vec<(crate::adoc::QName, String)> = Vec::new();
    let mut redo_ns: Vec<(xot::PrefixId, xot::NamespaceId)> = Vec::new();
    let mut redo_attrs: Vec<(xot::NameId, String)> = Vec::new();
    for (p, u) in if decls { &a.decls } else { &no_decls } {
        let pid = xot.add_prefix(p);
        let nid = xot.add_namespace(u);
        match style {
            AttrStyle::Map => {
                xot.namespaces_mut(e).insert(pid, nid);
            }
            AttrStyle::Set => {
                xot.set_namespace(e, pid, nid);
            }
            AttrStyle::Reinsert => {
                if (p.len() + u.len()) % 2 == 0 {
                    let draft = xot.add_namespace("urn:zz:provisional");
                    xot.namespaces_mut(e).insert(pid, draft);
                    redo_ns.push((pid, nid));
                } else {
                    xot.namespaces_mut(e).insert(pid, nid);
                }
            }
            AttrStyle::Redeclare => {
                if (p.len() + u.len()) % 2 == 0 {
                    let draft = xot::xmlname::CreateNamespace::new(xot, p, "urn:zz:provisional");
                    xot.append_namespace(e, &draft)
                        .map_err(|er| format!("append_namespace (provisional) failed: {:?}", er))?;
                }
                let cn = xot::xmlname::CreateNamespace::new(xot, p, u);
                xot.append_namespace(e, &cn)
                    .map_err(|er| format!("append_namespace failed: {:?}", er))?;
            }
            AttrStyle::Node => {
                let n = xot.new_namespace_node(pid, nid);
                xot.append_namespace_node(e, n)
                    .map_err(|er| format!("append_namespace_node failed: {:?}", er))?;
            }
            AttrStyle::Any => {
                let n = xot.new_namespace_node(pid, nid);
                xot.any_append(e, n)
                    .map_err(|er| format!("any_append(namespace) failed: {:?}", er))?;
            }
        }
    }
    for (q, v) in if attrs { &a.attrs } else { &no_attrs } {
        let nid = xot.add_namespace(&q.ns);
        let name = xot.add_name_ns(&q.local, nid);
        match style {
            AttrStyle::Map => {
                xot.attributes_mut(e).insert(name, v.clone());
            }
            AttrStyle::Set => {
                xot.set_attribute(e, name, v.clone());
            }
            AttrStyle::Reinsert => {
                if (q.local.len() + v.len()) % 2 == 0 {
                    xot.set_attribute(e, name, "provisional");
                    redo_attrs.push((name, v.clone()));
                } else {
                    xot.attributes_mut(e).insert(name, v.clone());
                }
            }
            AttrStyle::Redeclare => {
                if (q.local.len() + v.len()) % 2 == 0 {
                    let n0 = xot.new_attribute_node(name, "provisional".to_string());
                    xot.append_attribute_node(e, n0)
                        .map_err(|er| format!("append_attribute_node (provisional) failed: {:?}", er))?;
                }
                let n = xot.new_attribute_node(name, v.clone());
                xot.append_attribute_node(e, n)
                    .map_err(|er| format!("append_attribute_node failed: {:?}", er))?;
            }
            AttrStyle::Node => {
                let n = xot.new_attribute_node(name, v.clone());
                xot.append_attribute_node(e, n)
                    .map_err(|er| format!("append_attribute_node failed: {:?}", er))?;
            }
            AttrStyle::Any => {
                let n = xot.new_attribute_node(name, v.clone());
                xot.any_append(e, n)
                    .map_err(|er| format!("any_append(attribute) failed: {:?}", er))?;
            }
        }
    }
    // second pass of the Reinsert style
    for (pid, nid) in redo_ns {
        xot.namespaces_mut(e).insert(pid, nid);
    }
    for (name, v) in redo_attrs {
        xot.attributes_mut(e).insert(name, v);
    }
    h.nss = xot.namespaces(e).nodes().collect();
    h.attrs = xot.attributes(e).nodes().collect();
    Ok(())
}

/// Register junk prefixes, namespaces and names first ("a Xot that has been in use"): id tables that have
/// passed 16 / 64 / 128 / 256 entries before the tree's own names arrive. Decided by the tree's hash so that a
/// case stays reproducible; one tree in six.
pub fn age_xot(xot: &mut Xot, a: &ANode) -> usize {
    let h = a.structural_hash();
    if h % 6 != 0 {
        return 0;
    }
    let table: &[usize] = if crate::engine::legs_mode() { &[14, 16, 62, 63] } else { &[14, 15, 16, 17, 30, 61, 62, 63, 64, 65, 126, 127, 128, 200, 254, 255, 256, 300] };
    let k = table[((h / 6) % table.len() as u64) as usize];
    for i in 0..k {
        let p = format!("zj{}", i);
        xot.add_prefix(&p);
        let ns = xot.add_namespace(&format!("urn:zj:{}", i));
        xot.add_name_ns(&p, ns);
        xot.add_name(&p);
    }
    k
}

/// Arrange the name table so that two attribute names of one element of `a` get ids that differ by exactly `m`
/// (256 or 65 536): every other name of the tree is registered first, then the first attribute name, then m - 1
/// junk names, then the second attribute name. Anything keyed by a truncated name id then confuses the two.
pub fn collide_attr_ids(xot: &mut Xot, a: &ANode, m: usize) -> bool {
    let mut pair: Option<(crate::adoc::QName, crate::adoc::QName)> = None;
    let mut names: Vec<crate::adoc::QName> = Vec::new();
    a.walk(&mut |n| {
        if n.kind == AKind::Elem || n.kind == AKind::Pi {
            names.push(n.name.clone());
        }
        for (q, _) in &n.attrs {
            names.push(q.clone());
        }
        if pair.is_none() && n.kind == AKind::Elem && n.attrs.len() >= 2 {
            pair = Some((n.attrs[0].0.clone(), n.attrs[1].0.clone()));
        }
    });
    let (first, second) = match pair {
        Some(p) => p,
        None => return false,
    };
    let mut reg = |xot: &mut Xot, q: &crate::adoc::QName| {
        let ns = xot.add_namespace(&q.ns);
        xot.add_name_ns(&q.local, ns)
    };
    for q in names.iter().filter(|q| **q != first && **q != second) {
        reg(xot, q);
    }
    reg(xot, &first);
    for i in 0..m - 1 {
        xot.add_name(&format!("zc{}", i));
    }
    reg(xot, &second);
    true
}

/// one tree in 250: attribute name ids that collide modulo 256 or 65 536
pub fn maybe_collide(xot: &mut Xot, a: &ANode) -> bool {
    let h = a.structural_hash();
    if crate::engine::legs_mode() || h % 250 != 7 {
        return false;
    }
    collide_attr_ids(xot, a, if (h / 250) % 5 != 0 { 256 } else { 65_536 })
}

/// "A tree that has been worked on": detach up to three nodes and put each back exactly where it was, and wrap /
/// unwrap one node in a scratch element. The abstract tree and every handle stay the same; the arena layout, the
/// sibling links and the free list do not. One tree in five (decided by the tree's hash).
pub fn shake(xot: &mut Xot, a: &ANode, h: &HTree) -> Result<usize, String> {
    let hash = a.structural_hash();
    if hash % 5 != 3 {
        return Ok(0);
    }
    let nodes: Vec<Node> = h.flat().into_iter().skip(1).collect();
    if nodes.is_empty() {
        return Ok(0);
    }
    let consolidation = xot.verif_text_consolidation();
    let mut done = 0;
    for k in 0..3u64 {
        let n = nodes[((hash / 7 + k * 2_654_435_761) % nodes.len() as u64) as usize];
        let parent = match xot.parent(n) {
            Some(p) => p,
            None => continue,
        };
        let prev_text = xot.previous_sibling(n).map_or(false, |s| xot.is_text(s));
        let next_text = xot.next_sibling(n).map_or(false, |s| xot.is_text(s));
        // putting it back must not merge anything
        if consolidation && ((prev_text && next_text) || (xot.is_text(n) && (prev_text || next_text))) {
            continue;
        }
        let next = xot.next_sibling(n);
        if k == 2 && !xot.is_text(n) && xot.is_element(parent) {
            let name = xot.add_name("zz-scratch-wrapper");
            let w = xot.element_wrap(n, name).map_err(|e| format!("shake: element_wrap failed: {:?}", e))?;
            xot.element_unwrap(w).map_err(|e| format!("shake: element_unwrap failed: {:?}", e))?;
        } else {
            xot.detach(n).map_err(|e| format!("shake: detach failed: {:?}", e))?;
            match next {
                Some(s) => xot.insert_before(s, n).map_err(|e| format!("shake: insert_before failed: {:?}", e))?,
                None => xot.append(parent, n).map_err(|e| format!("shake: append failed: {:?}", e))?,
            }
        }
        done += 1;
    }
    Ok(done)
}

/// Build `a` (document, element or leaf) as a new parentless tree.
pub fn build(xot: &mut Xot, a: &ANode, route: Route, style: AttrStyle) -> Result<HTree, String> {
    if !maybe_collide(xot, a) {
        age_xot(xot, a);
    }
    let before: Option<std::collections::HashSet<Node>> = if style == AttrStyle::Redeclare { Some(xot.verif_live_nodes().into_iter().collect()) } else { None };
    let h = build_rec(xot, a, route, style)?;
    if let Some(before) = before {
        // housekeeping: the Redeclare style leaves nodes behind that are not part of the tree (the attribute nodes whose
        // value was copied into an existing entry, and the node append_namespace creates internally for a prefix that
        // already exists); the monitors are to see the tree and nothing else
        let keep: std::collections::HashSet<Node> = h.flat_all().into_iter().collect();
        for n in xot.verif_live_nodes() {
            if !before.contains(&n) && !keep.contains(&n) && !xot.is_removed(n) && xot.parent(n).is_none() {
                let _ = xot.remove(n);
            }
        }
    }
    shake(xot, a, &h)?;
    Ok(h)
}

fn build_rec(xot: &mut Xot, a: &ANode, route: Route, style: AttrStyle) -> Result<HTree, String> {
    let node = new_leaf(xot, a);
    let mut h = HTree {
        node,
        nss: Vec::new(),
        attrs: Vec::new(),
        children: Vec::new(),
    };
    let late = matches!(route, Route::AttrsLast | Route::DeclsChildrenAttrs | Route::AttrsDeclsChildren);
    if a.kind == AKind::Elem && !late {
        add_abnormal(xot, node, a, style, &mut h)?;
    }
    if a.kind == AKind::Elem && route == Route::AttrsDeclsChildren {
        add_abnormal_part(xot, node, a, style, &mut h, false, true)?;
        add_abnormal_part(xot, node, a, style, &mut h, true, false)?;
    }
    if a.kind == AKind::Elem && route == Route::DeclsChildrenAttrs {
        add_abnormal_part(xot, node, a, style, &mut h, true, false)?;
    }
    match route {
        Route::TextPieces => {
            let merge = xot.verif_text_consolidation();
            let mut pending_before: Option<String> = None; // second piece to put in front of the next non-text node
            let n = a.children.len();
            for (i, c) in a.children.iter().enumerate() {
                let chars: Vec<char> = c.text.chars().collect();
                let next_non_text = i + 1 < n && a.children[i + 1].kind != AKind::Text;
                let prev_non_text = i > 0 && a.children[i - 1].kind != AKind::Text;
                if merge && c.kind == AKind::Text && chars.len() >= 2 && next_non_text {
                    let k = 1 + (chars.len() - 1) / 2;
                    let first: String = chars[..k].iter().collect();
                    let t = xot.new_text(&first);
                    xot.append(node, t).map_err(|e| format!("append failed: {:?}", e))?;
                    pending_before = Some(chars[k..].iter().collect());
                    continue;
                }
                if merge && c.kind == AKind::Text && chars.len() >= 2 && prev_non_text && pending_before.is_none() {
                    // second piece first, then the first piece right behind the previous sibling
                    let k = chars.len() / 2;
                    let second: String = chars[k..].iter().collect();
                    let first: String = chars[..k.max(1)].iter().collect();
                    let second = if k == 0 { String::new() } else { second };
                    let prev = xot.last_child(node).ok_or("no previous sibling")?;
                    if k > 0 {
                        let t2 = xot.new_text(&second);
                        xot.append(node, t2).map_err(|e| format!("append failed: {:?}", e))?;
                    }
                    let t1 = xot.new_text(&first);
                    xot.insert_after(prev, t1).map_err(|e| format!("insert_after failed: {:?}", e))?;
                    continue;
                }
                if merge && c.kind == AKind::Text && chars.len() >= 2 && pending_before.is_none() && i % 2 == 0 {
                    // two pieces around a temporary element, which then leaves (promoted to its own document, detached,
                    // removed, or moved to another parent): the seam it leaves has to close
                    let k = chars.len() / 2;
                    let first: String = chars[..k].iter().collect();
                    let second: String = chars[k..].iter().collect();
                    let t1 = xot.new_text(&first);
                    xot.append(node, t1).map_err(|e| format!("append failed: {:?}", e))?;
                    let tmp_name = xot.add_name("zz-temporary");
                    let tmp = xot.new_element(tmp_name);
                    xot.append(node, tmp).map_err(|e| format!("append failed: {:?}", e))?;
                    let t2 = xot.new_text(&second);
                    xot.append(node, t2).map_err(|e| format!("append failed: {:?}", e))?;
                    match (chars.len() + i) % 4 {
                        0 => {
                            let d = xot.new_document_with_element(tmp).map_err(|e| format!("new_document_with_element failed: {:?}", e))?;
                            xot.remove(d).map_err(|e| format!("remove failed: {:?}", e))?;
                        }
                        1 => {
                            xot.detach(tmp).map_err(|e| format!("detach failed: {:?}", e))?;
                            xot.remove(tmp).map_err(|e| format!("remove failed: {:?}", e))?;
                        }
                        2 => xot.remove(tmp).map_err(|e| format!("remove failed: {:?}", e))?,
                        _ => {
                            let other = xot.new_element(tmp_name);
                            xot.append(other, tmp).map_err(|e| format!("append failed: {:?}", e))?;
                            xot.remove(other).map_err(|e| format!("remove failed: {:?}", e))?;
                        }
                    }
                    continue;
                }
                let hc = build_rec(xot, c, route, style)?;
                xot.append(node, hc.node).map_err(|e| format!("append failed: {:?}", e))?;
                if merge && c.kind == AKind::Text && (chars.len() + i) % 3 == 0 {
                    // an EMPTY piece behind a text node: it has to vanish into its neighbour like any other piece
                    if i % 2 == 0 {
                        let t0 = xot.new_text("");
                        xot.append(node, t0).map_err(|e| format!("append failed: {:?}", e))?;
                    } else {
                        xot.append_text(node, "").map_err(|e| format!("append_text failed: {:?}", e))?;
                    }
                }
                if let Some(piece) = pending_before.take() {
                    let t = xot.new_text(&piece);
                    xot.insert_before(hc.node, t).map_err(|e| format!("insert_before failed: {:?}", e))?;
                }
                if c.kind != AKind::Text {
                    h.children.push(hc);
                }
            }
            // the text nodes were built in pieces: their handles are whatever the tree holds now, position by position
            let real: Vec<Node> = xot.children(node).collect();
            if real.len() != a.children.len() {
                return Err(format!("text pieces were not merged: {} children for {} abstract children", real.len(), a.children.len()));
            }
            let mut built = std::mem::take(&mut h.children).into_iter();
            for (c, r) in a.children.iter().zip(real.iter()) {
                if c.kind == AKind::Text {
                    h.children.push(HTree { node: *r, nss: Vec::new(), attrs: Vec::new(), children: Vec::new() });
                } else {
                    match built.next() {
                        Some(hc) if hc.node == *r => h.children.push(hc),
                        _ => return Err("text pieces: a non-text child is not where it was appended".to_string()),
                    }
                }
            }
        }
        Route::Displaced => {
            let merge = xot.verif_text_consolidation();
            let n = a.children.len();
            // j: a text child of two or more characters; i: a later non-text child with at least one sibling between
            let mut plan: Option<(usize, usize)> = None;
            if merge {
                'find: for j in 0..n {
                    if a.children[j].kind == AKind::Text && a.children[j].text.chars().count() >= 2 {
                        for i in j + 2..n {
                            if a.children[i].kind != AKind::Text && a.children[i - 1].kind != AKind::Text {
                                plan = Some((j, i));
                                break 'find;
                            }
                        }
                    }
                }
            }
            let mut moved: Option<HTree> = None;
            let mut built: Vec<Option<HTree>> = Vec::new();
            for (k, c) in a.children.iter().enumerate() {
                match plan {
                    Some((j, i)) if k == j => {
                        let chars: Vec<char> = c.text.chars().collect();
                        let cut = chars.len() / 2;
                        let first: String = chars[..cut].iter().collect();
                        let second: String = chars[cut..].iter().collect();
                        let t1 = xot.new_text(&first);
                        xot.append(node, t1).map_err(|e| format!("append failed: {:?}", e))?;
                        let hi = build_rec(xot, &a.children[i], route, style)?;
                        xot.append(node, hi.node).map_err(|e| format!("append failed: {:?}", e))?;
                        let t2 = xot.new_text(&second);
                        xot.append(node, t2).map_err(|e| format!("append failed: {:?}", e))?;
                        moved = Some(hi);
                        built.push(None);
                    }
                    Some((_, i)) if k == i => built.push(None),
                    _ => {
                        let hc = build_rec(xot, c, route, style)?;
                        xot.append(node, hc.node).map_err(|e| format!("append failed: {:?}", e))?;
                        built.push(if c.kind == AKind::Text { None } else { Some(hc) });
                    }
                }
            }
            if let (Some((_, i)), Some(hi)) = (plan, moved) {
                let before = built[i - 1].as_ref().map(|h| h.node).ok_or("displaced: no reference node")?;
                let after = if i + 1 < n { built[i + 1].as_ref().map(|h| h.node) } else { None };
                match (a.children[i].name.local.len() + n) % 3 {
                    0 => xot.insert_after(before, hi.node).map_err(|e| format!("insert_after (move) failed: {:?}", e))?,
                    1 if after.is_some() => xot.insert_before(after.unwrap(), hi.node).map_err(|e| format!("insert_before (move) failed: {:?}", e))?,
                    1 | 2 if i + 1 == n => xot.append(node, hi.node).map_err(|e| format!("append (move) failed: {:?}", e))?,
                    _ => xot.insert_after(before, hi.node).map_err(|e| format!("insert_after (move) failed: {:?}", e))?,
                }
                built[i] = Some(hi);
            }
            let real: Vec<Node> = xot.children(node).collect();
            if real.len() != n {
                return Err(format!("displaced: {} children for {} abstract children", real.len(), n));
            }
            for ((c, r), b) in a.children.iter().zip(real.iter()).zip(built.into_iter()) {
                if c.kind == AKind::Text {
                    h.children.push(HTree { node: *r, nss: Vec::new(), attrs: Vec::new(), children: Vec::new() });
                } else {
                    match b {
                        Some(hc) if hc.node == *r => h.children.push(hc),
                        _ => return Err("displaced: a child is not where the calls put it".to_string()),
                    }
                }
            }
        }
        Route::AttrsDeclsChildren => {
            for c in &a.children {
                let hc = build_rec(xot, c, route, style)?;
                xot.append(node, hc.node)
                    .map_err(|e| format!("append failed: {:?}", e))?;
                h.children.push(hc);
            }
        }
        Route::AttrsLast | Route::DeclsChildrenAttrs => {
            for c in &a.children {
                let hc = build_rec(xot, c, route, style)?;
                xot.append(node, hc.node)
                    .map_err(|e| format!("append failed: {:?}", e))?;
                h.children.push(hc);
            }
            if a.kind == AKind::Elem {
                add_abnormal_part(xot, node, a, style, &mut h, route == Route::AttrsLast, true)?;
            }
        }
        Route::TopDown => {
            for c in &a.children {
                // link the bare child first, then fill it in
                let hc = build_attached(xot, node, c, route, style)?;
                h.children.push(hc);
            }
        }
        Route::BottomUp => {
            for c in &a.children {
                let hc = build_rec(xot, c, route, style)?;
                xot.append(node, hc.node)
                    .map_err(|e| format!("append failed: {:?}", e))?;
                h.children.push(hc);
            }
        }
        Route::Prepend => {
            for c in a.children.iter().rev() {
                let hc = build_rec(xot, c, route, style)?;
                xot.prepend(node, hc.node)
                    .map_err(|e| format!("prepend failed: {:?}", e))?;
                h.children.insert(0, hc);
            }
        }
        Route::InsertBefore => {
            let mut prev: Option<Node> = None;
            for c in a.children.iter().rev() {
                let hc = build_rec(xot, c, route, style)?;
                match prev {
                    None => xot
                        .append(node, hc.node)
                        .map_err(|e| format!("append failed: {:?}", e))?,
                    Some(p) => xot
                        .insert_before(p, hc.node)
                        .map_err(|e| format!("insert_before failed: {:?}", e))?,
                }
                prev = Some(hc.node);
                h.children.insert(0, hc);
            }
        }
    }
    Ok(h)
}

fn build_attached(xot: &mut Xot, parent: Node, a: &ANode, route: Route, style: AttrStyle) -> Result<HTree, String> {
    let node = new_leaf(xot, a);
    xot.append(parent, node)
        .map_err(|e| format!("append failed: {:?}", e))?;
    let mut h = HTree {
        node,
        nss: Vec::new(),
        attrs: Vec::new(),
        children: Vec::new(),
    };
    if a.kind == AKind::Elem {
        add_abnormal(xot, node, a, style, &mut h)?;
    }
    for c in &a.children {
        let hc = build_attached(xot, node, c, route, style)?;
        h.children.push(hc);
    }
    Ok(h)
}
