//! Lexical renderer (DESIGN §3.3): spells an abstract document out as XML text, drawing every
//! spelling choice from a `Choices` source (random or enumerating), and records the byte offset of
//! everything it writes. By construction the rendering denotes exactly the abstract document.

use crate::adoc::*;
use crate::gen::Scope;
use crate::rng::Rng;

pub trait Choices {
    /// pick a number in 0..n
    fn pick(&mut self, n: usize) -> usize;
    /// weight hint: true with probability ~ num/den (enumerators treat it as a binary choice)
    fn chance(&mut self, num: usize, den: usize) -> bool;
}

pub struct RandomChoices<'a>(pub &'a mut Rng);

impl<'a> Choices for RandomChoices<'a> {
    fn pick(&mut self, n: usize) -> usize {
        self.0.below(n)
    }
    fn chance(&mut self, num: usize, den: usize) -> bool {
        self.0.chance(num, den)
    }
}

/// enumerates all choice sequences (depth-first odometer)
#[derive(Default)]
pub struct Odometer {
    script: Vec<(usize, usize)>,
    pos: usize,
    pub overflow: bool,
}

impl Odometer {
    pub fn new() -> Odometer {
        Odometer::default()
    }
    /// move to the next choice sequence; false when the space is exhausted
    pub fn advance(&mut self) -> bool {
        self.script.truncate(self.pos);
        while let Some((n, c)) = self.script.pop() {
            if c + 1 < n {
                self.script.push((n, c + 1));
                self.pos = 0;
                return true;
            }
        }
        self.pos = 0;
        false
    }
    pub fn len(&self) -> usize {
        self.script.len()
    }
}

impl Choices for Odometer {
    fn pick(&mut self, n: usize) -> usize {
        if n <= 1 {
            return 0;
        }
        if self.pos < self.script.len() {
            let (m, c) = self.script[self.pos];
            self.pos += 1;
            if m == n {
                return c;
            }
            // shape changed (should not happen: rendering is deterministic in its choices)
            self.overflow = true;
            return c.min(n - 1);
        }
        self.script.push((n, 0));
        self.pos += 1;
        0
    }
    fn chance(&mut self, _num: usize, _den: usize) -> bool {
        self.pick(2) == 1
    }
}

#[derive(Clone, Debug, PartialEq, Eq)]
pub enum SpanKind {
    ElemStart,
    ElemEnd,
    AttrName(QName),
    AttrValue(QName),
    Text,
    Comment,
    PiTarget,
    PiContent,
}

#[derive(Clone, Debug)]
pub struct SpanRec {
    /// child indexes from the document node down to the node
    pub path: Vec<usize>,
    pub kind: SpanKind,
    pub start: usize,
    pub end: usize,
    /// text runs only: the start / end that also counts an EMPTY CDATA section at the edge of the run as a part
    /// (the statement's "first to last merged text or CDATA part" allows either reading)
    pub alt_start: Option<usize>,
    pub alt_end: Option<usize>,
}

#[derive(Clone, Debug, Default)]
pub struct RenderOpts {
    /// element content at top level (no XML declaration, no BOM, no inter-item white space)
    pub fragment: bool,
    pub allow_decl: bool,
    pub allow_bom: bool,
    /// only the minimal spelling (no references where a literal works, no CDATA)
    pub plain: bool,
    /// restrict per-character choices so that enumeration stays small
    pub enumerating: bool,
    /// declared encoding label to put into the XML declaration (forces a declaration)
    pub encoding_label: Option<String>,
}

#[derive(Clone, Debug)]
pub struct Rendered {
    pub text: String,
    pub spans: Vec<SpanRec>,
    pub features: Vec<&'static str>,
}

struct Out<'c> {
    s: String,
    ch: &'c mut dyn Choices,
    /// last literal char written was a CR that stands for a complete line end on its own
    last_literal_cr: bool,
    /// number of consecutive ']' just written literally in the current char-data run
    brackets: usize,
    features: Vec<&'static str>,
    spans: Vec<SpanRec>,
    opts: RenderOpts,
}

impl<'c> Out<'c> {
    fn feat(&mut self, f: &'static str) {
        if !self.features.contains(&f) {
            self.features.push(f);
        }
    }
    fn raw(&mut self, t: &str) {
        self.s.push_str(t);
        self.last_literal_cr = false;
        self.brackets = 0;
    }
    fn pos(&self) -> usize {
        self.s.len()
    }
    fn ws(&mut self, required: bool) {
        let opts: &[&str] = if self.opts.plain {
            if required { &[" "] } else { &[""] }
        } else if required {
            &[" ", "  ", "\n", "\t", "\r\n", " \n "]
        } else {
            &["", "", " ", "\n"]
        };
        let k = self.ch.pick(opts.len());
        if k > 0 {
            self.feat("in-tag-whitespace-variants");
        }
        self.raw(opts[k]);
    }
    fn numeric_ref(&mut self, c: char) {
        let v = c as u32;
        let k = if self.opts.enumerating { self.ch.pick(2) } else { self.ch.pick(7) };
        let t = match k {
            0 => format!("&#{};", v),
            1 => format!("&#x{:X};", v),
            2 => format!("&#x{:x};", v),
            3 => format!("&#x{:04X};", v),
            4 => format!("&#{:05};", v),
            // long zero padding: more digits than any code point needs
            5 => format!("&#{:012};", v),
            _ => format!("&#x{:020x};", v),
        };
        if k >= 5 {
            self.feat("reference-with-long-zero-padding");
        }
        self.feat(if k == 0 || k == 4 || k == 5 { "decimal-reference" } else { "hex-reference" });
        self.raw(&t);
    }
    fn named_or_numeric(&mut self, c: char, name: &str) {
        if self.opts.plain || self.ch.pick(2) == 0 {
            self.feat("predefined-entity");
            self.raw(&format!("&{};", name));
        } else {
            self.numeric_ref(c);
        }
    }
    /// an abstract line feed in character data or CDATA (literal spellings)
    fn literal_lf(&mut self) {
        let k = if self.opts.plain { 0 } else { self.ch.pick(3) };
        match k {
            0 => {
                if self.last_literal_cr {
                    // CR LF would read as one line end: spell this one as CR LF pair instead
                    self.s.push_str("\r\n");
                    self.feat("crlf-line-end");
                } else {
                    self.s.push('\n');
                }
                self.last_literal_cr = false;
            }
            1 => {
                self.s.push('\r');
                self.last_literal_cr = true;
                self.feat("cr-line-end");
            }
            _ => {
                self.s.push_str("\r\n");
                self.last_literal_cr = false;
                self.feat("crlf-line-end");
            }
        }
        self.brackets = 0;
    }

    /// character data (outside CDATA)
    fn chardata(&mut self, text: &str) {
        for c in text.chars() {
            match c {
                '<' => self.named_or_numeric('<', "lt"),
                '&' => self.named_or_numeric('&', "amp"),
                '>' => {
                    if self.brackets >= 2 || self.opts.plain || self.ch.pick(2) == 0 {
                        self.named_or_numeric('>', "gt");
                    } else {
                        self.s.push('>');
                        self.last_literal_cr = false;
                        self.brackets = 0;
                    }
                }
                '\n' => {
                    if !self.opts.plain && self.ch.chance(1, 4) {
                        self.numeric_ref('\n');
                    } else {
                        self.literal_lf();
                    }
                }
                '\r' => self.numeric_ref('\r'),
                ']' => {
                    if !self.opts.plain && self.ch.chance(1, 6) {
                        self.numeric_ref(']');
                    } else {
                        self.s.push(']');
                        self.last_literal_cr = false;
                        self.brackets += 1;
                    }
                }
                '"' if !self.opts.plain && self.ch.chance(1, 3) => self.named_or_numeric('"', "quot"),
                '\'' if !self.opts.plain && self.ch.chance(1, 3) => self.named_or_numeric('\'', "apos"),
                c => {
                    if !self.opts.plain && !self.opts.enumerating && self.ch.chance(1, 8) {
                        self.numeric_ref(c);
                    } else {
                        self.s.push(c);
                        self.last_literal_cr = false;
                        self.brackets = 0;
                    }
                }
            }
        }
    }

    fn cdata(&mut self, text: &str) {
        self.raw("<![CDATA[");
        for c in text.chars() {
            if c == '\n' {
                self.literal_lf();
            } else {
                self.s.push(c);
                self.last_literal_cr = false;
            }
        }
        self.raw("]]>");
        self.feat("cdata-section");
    }

    /// a text node: one or more plain / CDATA parts; returns (start, end) of the run as SpanInfo defines it
    /// an empty CDATA section: a spelling of no characters at all
    fn maybe_empty_cdata(&mut self) -> Option<usize> {
        if self.opts.plain || self.opts.enumerating || !self.ch.chance(1, 12) {
            return None;
        }
        self.raw("<![CDATA[");
        let p = self.pos();
        self.raw("]]>");
        self.feat("empty-cdata-section");
        Some(p)
    }

    fn text_node(&mut self, text: &str) -> (usize, usize, Option<usize>, Option<usize>) {
        let chars: Vec<char> = text.chars().collect();
        let mut i = 0;
        let mut start: Option<usize> = None;
        let mut end = self.pos();
        let mut parts = 0;
        let mut alt_start: Option<usize> = None;
        let mut alt_end: Option<usize> = None;
        while i < chars.len() {
            if let Some(p) = self.maybe_empty_cdata() {
                if start.is_none() && alt_start.is_none() {
                    alt_start = Some(p);
                }
            }
            // part length
            let remaining = chars.len() - i;
            let len = if self.opts.plain { remaining } else if self.opts.enumerating {
                if self.ch.pick(2) == 0 { remaining } else { 1.max(remaining / 2) }
            } else {
                match self.ch.pick(4) {
                    0 => remaining,
                    1 => 1,
                    2 => 1 + self.ch.pick(remaining),
                    _ => 1.max(remaining / 2),
                }
            };
            let part: String = chars[i..i + len].iter().collect();
            let can_cdata = !part.contains("]]>") && !part.contains('\r');
            let use_cdata = !self.opts.plain && can_cdata && self.ch.chance(1, 3);
            if use_cdata {
                self.raw("<![CDATA[");
                let s0 = self.pos();
                for c in part.chars() {
                    if c == '\n' {
                        self.literal_lf();
                    } else {
                        self.s.push(c);
                        self.last_literal_cr = false;
                    }
                }
                let e0 = self.pos();
                self.raw("]]>");
                self.feat("cdata-section");
                if start.is_none() {
                    start = Some(s0);
                }
                end = e0;
            } else {
                let s0 = self.pos();
                self.chardata(&part);
                let e0 = self.pos();
                if start.is_none() {
                    start = Some(s0);
                }
                end = e0;
            }
            parts += 1;
            i += len;
        }
        if !chars.is_empty() {
            alt_end = self.maybe_empty_cdata();
        }
        if parts > 1 {
            self.feat("text-in-several-parts");
        }
        (start.unwrap_or(end), end, alt_start, alt_end)
    }

    /// attribute value between quotes; returns (start, end) of the text between the quotes
    fn att_value(&mut self, value: &str, xml_id: bool) -> (usize, usize) {
        let q = if !self.opts.plain && self.ch.pick(2) == 1 { '\'' } else { '"' };
        if q == '\'' {
            self.feat("single-quoted-attribute");
        }
        self.s.push(q);
        let start = self.pos();
        self.last_literal_cr = false;
        if xml_id && !self.opts.plain && self.ch.chance(1, 2) {
            let n = 1 + self.ch.pick(3);
            for _ in 0..n {
                self.s.push(' ');
            }
            self.feat("xml-id-extra-spaces");
        }
        for c in value.chars() {
            match c {
                ' ' => {
                    let k = if self.opts.plain { 0 } else { self.ch.pick(6) };
                    match k {
                        0 | 1 => {
                            self.s.push(' ');
                            self.last_literal_cr = false;
                        }
                        2 => {
                            self.s.push('\t');
                            self.last_literal_cr = false;
                            self.feat("literal-tab-lf-cr-in-attribute");
                        }
                        3 => {
                            if self.last_literal_cr {
                                self.s.push(' ');
                            } else {
                                self.s.push('\n');
                            }
                            self.last_literal_cr = false;
                            self.feat("literal-tab-lf-cr-in-attribute");
                        }
                        4 => {
                            self.s.push('\r');
                            self.last_literal_cr = true;
                            self.feat("literal-tab-lf-cr-in-attribute");
                        }
                        _ => {
                            self.s.push_str("\r\n");
                            self.last_literal_cr = false;
                            self.feat("literal-tab-lf-cr-in-attribute");
                        }
                    }
                    if xml_id && !self.opts.plain && self.ch.chance(1, 3) {
                        // one or three more spaces: the whole run collapses to a single one
                        self.s.push(' ');
                        if self.ch.chance(1, 2) {
                            self.s.push_str("  ");
                        }
                        self.last_literal_cr = false;
                        self.feat("xml-id-extra-spaces");
                    }
                }
                '\t' | '\n' | '\r' => {
                    self.numeric_ref(c);
                    self.feat("whitespace-reference-in-attribute");
                }
                '<' => self.named_or_numeric('<', "lt"),
                '&' => self.named_or_numeric('&', "amp"),
                '"' => {
                    if q == '"' || (!self.opts.plain && self.ch.chance(1, 3)) {
                        self.named_or_numeric('"', "quot");
                    } else {
                        self.s.push('"');
                        self.last_literal_cr = false;
                    }
                }
                '\'' => {
                    if q == '\'' || (!self.opts.plain && self.ch.chance(1, 3)) {
                        self.named_or_numeric('\'', "apos");
                    } else {
                        self.s.push('\'');
                        self.last_literal_cr = false;
                    }
                }
                c => {
                    if !self.opts.plain && !self.opts.enumerating && self.ch.chance(1, 8) {
                        self.numeric_ref(c);
                    } else {
                        self.s.push(c);
                        self.last_literal_cr = false;
                    }
                }
            }
        }
        if xml_id && !self.opts.plain && self.ch.chance(1, 2) {
            let n = 1 + self.ch.pick(3);
            for _ in 0..n {
                self.s.push(' ');
            }
            self.feat("xml-id-extra-spaces");
        }
        let end = self.pos();
        self.s.push(q);
        self.last_literal_cr = false;
        self.brackets = 0;
        (start, end)
    }
}

fn qname_text(prefix: &str, local: &str) -> String {
    if prefix.is_empty() {
        local.to_string()
    } else {
        format!("{}:{}", prefix, local)
    }
}

/// can the abstract document be spelled as XML at all (every namespaced name has a prefix, no
/// no-namespace element under a default binding, content expressible)?
pub fn renderable(doc: &ANode) -> bool {
    crate::gen::c01_domain(doc).is_ok() && !crate::gen::has_unns_under_default(doc)
}

pub fn render(doc: &ANode, ch: &mut dyn Choices, opts: &RenderOpts) -> Rendered {
    let mut out = Out {
        s: String::new(),
        ch,
        last_literal_cr: false,
        brackets: 0,
        features: Vec::new(),
        spans: Vec::new(),
        opts: opts.clone(),
    };
    if !opts.fragment {
        if opts.allow_bom && !opts.plain && out.ch.chance(1, 4) {
            out.raw("\u{feff}");
            out.feat("bom");
        }
        let want_decl = opts.encoding_label.is_some() || (opts.allow_decl && !opts.plain && out.ch.chance(1, 3));
        if want_decl {
            let q = if out.ch.pick(2) == 0 { '"' } else { '\'' };
            // white space inside the declaration: S after the target and between pseudo-attributes, S? around '='
            let (s1, eq, s2) = match out.ch.pick(7) {
                0..=2 => (" ", "=", " "),
                3 => ("\n", "=", "\n"),
                4 => (" ", " = ", "  "),
                5 => ("\t", "\t=\n", "\r\n"),
                _ => ("\r\n", "= ", "                                                                          \t"),
            };
            if s1 != " " {
                out.feat("declaration-target-followed-by-tab-or-line-break");
            }
            if eq != "=" {
                out.feat("declaration-whitespace-around-equals");
            }
            out.raw(&format!("<?xml{s1}version{eq}{q}1.0{q}"));
            let enc = match &opts.encoding_label {
                Some(l) => Some(l.clone()),
                None => match out.ch.pick(3) {
                    0 => None,
                    1 => Some("UTF-8".to_string()),
                    _ => Some("utf-8".to_string()),
                },
            };
            if let Some(e) = enc {
                out.raw(&format!("{s2}encoding{eq}{q}{e}{q}"));
            }
            match out.ch.pick(3) {
                0 => {}
                1 => out.raw(&format!("{s2}standalone{eq}{q}yes{q}")),
                _ => out.raw(&format!("{s2}standalone{eq}{q}no{q}")),
            }
            out.ws(false);
            out.raw("?>");
            out.feat("xml-declaration");
        }
    }
    let mut scope = Scope::new();
    let mut path = Vec::new();
    for (i, c) in doc.children.iter().enumerate() {
        if !opts.fragment {
            misc_ws(&mut out);
        }
        path.push(i);
        node(&mut out, c, &mut scope, &mut path);
        path.pop();
    }
    if !opts.fragment {
        misc_ws(&mut out);
    }
    Rendered {
        text: out.s,
        spans: out.spans,
        features: out.features,
    }
}

fn misc_ws(out: &mut Out) {
    if out.opts.plain {
        return;
    }
    let k = out.ch.pick(4);
    let t = ["", "", "\n", " \r\n\t"][k];
    if !t.is_empty() {
        out.feat("whitespace-around-root");
    }
    out.raw(t);
}

fn node(out: &mut Out, n: &ANode, scope: &mut Scope, path: &mut Vec<usize>) {
    match n.kind {
        AKind::Doc => {}
        AKind::Text => {
            let (s, e, alt_s, alt_e) = out.text_node(&n.text);
            out.spans.push(SpanRec { path: path.clone(), kind: SpanKind::Text, start: s, end: e, alt_start: alt_s, alt_end: alt_e });
        }
        AKind::Comment => {
            out.raw("<!--");
            let s = out.pos();
            out.raw(&n.text);
            let e = out.pos();
            out.raw("-->");
            out.spans.push(SpanRec { path: path.clone(), kind: SpanKind::Comment, start: s, end: e, alt_start: None, alt_end: None });
        }
        AKind::Pi => {
            out.raw("<?");
            let s = out.pos();
            out.raw(&n.name.local);
            let e = out.pos();
            out.spans.push(SpanRec { path: path.clone(), kind: SpanKind::PiTarget, start: s, end: e, alt_start: None, alt_end: None });
            if let Some(d) = &n.data {
                out.ws(true);
                let s = out.pos();
                out.raw(d);
                let e = out.pos();
                out.spans.push(SpanRec { path: path.clone(), kind: SpanKind::PiContent, start: s, end: e, alt_start: None, alt_end: None });
            } else if !out.opts.plain && out.ch.chance(1, 4) {
                out.raw(" ");
            }
            out.raw("?>");
        }
        AKind::Elem => element(out, n, scope, path),
    }
}

fn element(out: &mut Out, n: &ANode, scope: &mut Scope, path: &mut Vec<usize>) {
    let pushed = scope.push_all(&n.decls);
    // prefix choice for the element name
    let prefix = if n.name.ns.is_empty() {
        String::new()
    } else {
        let c = scope.prefixes_for(&n.name.ns, true);
        if c.len() > 1 {
            out.feat("several-usable-prefixes");
        }
        let k = out.ch.pick(c.len().max(1));
        c.get(k).cloned().unwrap_or_default()
    };
    let qn = qname_text(&prefix, &n.name.local);
    out.raw("<");
    let s = out.pos();
    out.raw(&qn);
    let e = out.pos();
    out.spans.push(SpanRec { path: path.clone(), kind: SpanKind::ElemStart, start: s, end: e, alt_start: None, alt_end: None });
    // interleave declarations and attributes, each list keeping its own order
    let mut di = 0;
    let mut ai = 0;
    while di < n.decls.len() || ai < n.attrs.len() {
        let take_decl = if di >= n.decls.len() {
            false
        } else if ai >= n.attrs.len() {
            true
        } else if out.opts.plain {
            true
        } else {
            let d = out.ch.pick(3) != 0;
            if !d {
                out.feat("xmlns-after-ordinary-attribute");
            }
            d
        };
        out.ws(true);
        if take_decl {
            let (p, u) = &n.decls[di];
            di += 1;
            if p.is_empty() {
                out.raw("xmlns");
                if u.is_empty() {
                    out.feat("xmlns-empty-undeclaration");
                }
            } else {
                out.raw(&format!("xmlns:{}", p));
            }
            out.ws(false);
            out.raw("=");
            out.ws(false);
            out.att_value(u, false);
        } else {
            let (q, v) = &n.attrs[ai];
            ai += 1;
            let ap = if q.ns.is_empty() {
                String::new()
            } else if q.ns == XML_NS {
                "xml".to_string()
            } else {
                let c = scope.prefixes_for(&q.ns, false);
                let k = out.ch.pick(c.len().max(1));
                c.get(k).cloned().unwrap_or_default()
            };
            let an = qname_text(&ap, &q.local);
            let s = out.pos();
            out.raw(&an);
            let e = out.pos();
            out.spans.push(SpanRec { path: path.clone(), kind: SpanKind::AttrName(q.clone()), start: s, end: e, alt_start: None, alt_end: None });
            out.ws(false);
            out.raw("=");
            out.ws(false);
            let is_id = q.ns == XML_NS && q.local == "id";
            let (s, e) = out.att_value(v, is_id);
            out.spans.push(SpanRec { path: path.clone(), kind: SpanKind::AttrValue(q.clone()), start: s, end: e, alt_start: None, alt_end: None });
        }
    }
    out.ws(false);
    if n.children.is_empty() && (out.opts.plain || out.ch.pick(2) == 0) {
        let s = out.pos();
        out.raw("/>");
        let e = out.pos();
        out.spans.push(SpanRec { path: path.clone(), kind: SpanKind::ElemEnd, start: s, end: e, alt_start: None, alt_end: None });
    } else {
        if n.children.is_empty() {
            out.feat("empty-element-with-end-tag");
        }
        out.raw(">");
        for (i, c) in n.children.iter().enumerate() {
            path.push(i);
            node(out, c, scope, path);
            path.pop();
        }
        let s = out.pos();
        out.raw("</");
        out.raw(&qn);
        out.ws(false);
        out.raw(">");
        let e = out.pos();
        out.spans.push(SpanRec { path: path.clone(), kind: SpanKind::ElemEnd, start: s, end: e, alt_start: None, alt_end: None });
    }
    scope.pop_n(pushed);
}

// ---------------------------------------------------------------------------------------------
// byte encodings for parse_bytes

#[derive(Clone, Copy, Debug, PartialEq, Eq)]
pub enum Enc {
    Utf8,
    Utf8Bom,
    Utf16Le,
    Utf16Be,
    Latin1,
    Win1252,
}

impl Enc {
    pub fn label(self) -> Option<&'static str> {
        match self {
            Enc::Utf8 | Enc::Utf8Bom => None,
            Enc::Utf16Le | Enc::Utf16Be => Some("UTF-16"),
            Enc::Latin1 => Some("ISO-8859-1"),
            Enc::Win1252 => Some("windows-1252"),
        }
    }
    pub fn name(self) -> &'static str {
        match self {
            Enc::Utf8 => "utf-8",
            Enc::Utf8Bom => "utf-8-bom",
            Enc::Utf16Le => "utf-16le-bom",
            Enc::Utf16Be => "utf-16be-bom",
            Enc::Latin1 => "iso-8859-1",
            Enc::Win1252 => "windows-1252",
        }
    }
}

const WIN1252_HIGH: &[(u8, char)] = &[
    (0x80, '€'), (0x82, '‚'), (0x83, 'ƒ'), (0x84, '„'), (0x85, '…'), (0x86, '†'), (0x87, '‡'), (0x88, 'ˆ'),
    (0x89, '‰'), (0x8A, 'Š'), (0x8B, '‹'), (0x8C, 'Œ'), (0x8E, 'Ž'), (0x91, '‘'), (0x92, '’'), (0x93, '“'),
    (0x94, '”'), (0x95, '•'), (0x96, '–'), (0x97, '—'), (0x98, '˜'), (0x99, '™'), (0x9A, 'š'), (0x9B, '›'),
    (0x9C, 'œ'), (0x9E, 'ž'), (0x9F, 'Ÿ'),
];

/// encode the rendered text; None when the encoding cannot express it
pub fn encode(text: &str, enc: Enc) -> Option<Vec<u8>> {
    let body = text.strip_prefix('\u{feff}').unwrap_or(text);
    match enc {
        Enc::Utf8 => Some(body.as_bytes().to_vec()),
        Enc::Utf8Bom => {
            let mut v = vec![0xEF, 0xBB, 0xBF];
            v.extend_from_slice(body.as_bytes());
            Some(v)
        }
        Enc::Utf16Le => {
            let mut v = vec![0xFF, 0xFE];
            for u in body.encode_utf16() {
                v.extend_from_slice(&u.to_le_bytes());
            }
            Some(v)
        }
        Enc::Utf16Be => {
            let mut v = vec![0xFE, 0xFF];
            for u in body.encode_utf16() {
                v.extend_from_slice(&u.to_be_bytes());
            }
            Some(v)
        }
        Enc::Latin1 => {
            let mut v = Vec::new();
            for c in body.chars() {
                let u = c as u32;
                // only code points on which ISO-8859-1 and WHATWG windows-1252 agree
                if u < 0x80 || (0xA0..=0xFF).contains(&u) {
                    v.push(u as u8);
                } else {
                    return None;
                }
            }
            Some(v)
        }
        Enc::Win1252 => {
            let mut v = Vec::new();
            for c in body.chars() {
                let u = c as u32;
                if u < 0x80 || (0xA0..=0xFF).contains(&u) {
                    v.push(u as u8);
                } else if let Some((b, _)) = WIN1252_HIGH.iter().find(|(_, ch)| *ch == c) {
                    v.push(*b);
                } else {
                    return None;
                }
            }
            Some(v)
        }
    }
}
