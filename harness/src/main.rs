//! xvm - runtime monitors for the xot properties C01..C20.
#![allow(dead_code)]
//!
//! usage: xvm --property C05 --tier quick|thorough [--seed N] [--root /verif] [--replay file]

mod adoc;
mod build;
mod engine;
mod gen;
mod htmltok;
mod driver;
mod json;
mod model;
mod monitors;
mod render;
mod rng;
mod snap;
mod walker;
mod xmlread;

use engine::{Config, Tier};
use std::path::PathBuf;
use std::sync::Arc;

fn main() {
    let args: Vec<String> = std::env::args().collect();
    let mut property = String::new();
    let mut tier = match std::env::var("VERIF_TIER").ok().as_deref() {
        Some("thorough") => Tier::Thorough,
        _ => Tier::Quick,
    };
    let mut tier_explicit = false;
    let mut seed: u64 = std::env::var("VERIF_SEED")
        .ok()
        .and_then(|s| s.trim().parse::<i64>().ok())
        .map(|v| v as u64)
        .unwrap_or(0);
    let mut root = PathBuf::from("/verif");
    let mut replay: Option<String> = None;
    let mut i = 1;
    while i < args.len() {
        match args[i].as_str() {
            "--property" => {
                i += 1;
                property = args.get(i).cloned().unwrap_or_default();
            }
            "--tier" => {
                i += 1;
                tier = match args.get(i).map(|s| s.as_str()) {
                    Some("thorough") => Tier::Thorough,
                    _ => Tier::Quick,
                };
                tier_explicit = true;
            }
            "--seed" => {
                i += 1;
                seed = args.get(i).and_then(|s| s.parse::<i64>().ok()).map(|v| v as u64).unwrap_or(0);
            }
            "--root" => {
                i += 1;
                root = PathBuf::from(args.get(i).cloned().unwrap_or_default());
            }
            "--replay" => {
                i += 1;
                replay = args.get(i).cloned();
            }
            "--list" => {
                for m in monitors::all() {
                    println!("{}", m.id());
                }
                return;
            }
            other => {
                eprintln!("unknown argument {:?}", other);
                std::process::exit(2);
            }
        }
        i += 1;
    }
    let _ = tier_explicit;
    let budget: f64 = std::env::var("VERIF_BUDGET")
        .ok()
        .and_then(|s| s.parse::<f64>().ok())
        .filter(|b| *b > 0.0)
        .unwrap_or(1.0);
    let threads: usize = std::env::var("VERIF_THREADS")
        .ok()
        .and_then(|s| s.parse::<usize>().ok())
        .unwrap_or_else(|| std::thread::available_parallelism().map(|n| n.get()).unwrap_or(8).min(16));
    let mon = match monitors::all().into_iter().find(|m| m.id() == property) {
        Some(m) => m,
        None => {
            eprintln!("unknown property {:?}", property);
            std::process::exit(2);
        }
    };
    let cfg = Config {
        root,
        tier,
        seed,
        budget,
        threads,
        wall_ceiling_s: std::env::var("VERIF_WALL_S")
            .ok()
            .and_then(|s| s.parse::<u64>().ok())
            .unwrap_or(match tier {
                Tier::Quick => 150,
                Tier::Thorough => 1500,
            }),
        // the sanitizer legs raise this: under Miri a single case takes seconds to minutes
        hang_s: std::env::var("XVM_HANG_S").ok().and_then(|s| s.parse::<u64>().ok()).unwrap_or(20),
    };
    engine::install_panic_hook();
    let mon: Arc<dyn engine::Monitor> = Arc::from(mon);
    let code = match replay {
        Some(p) => engine::replay_file(&*mon, &cfg, &p),
        None => engine::run(mon, &cfg),
    };
    std::process::exit(code);
}
