//! Ordered-forest reference model (DESIGN §3.5, Appendix A): what the documentation and the property
//! statements say each manipulation call does. Plain Vec-of-children trees keyed by model ids.

use crate::adoc::{AKind, ANode, QName};
use xot::Node;

pub type Mid = usize;

#[derive(Clone, Copy, Debug, PartialEq, Eq, Hash, PartialOrd, Ord)]
pub enum MKind {
    Doc,
    Elem,
    Text,
    Comment,
    Pi,
    Attr,
    Ns,
}

impl MKind {
    pub fn ordinary(self) -> bool {
        !matches!(self, MKind::Attr | MKind::Ns)
    }
    pub fn short(self) -> &'static str {
        match self {
            MKind::Doc => "doc",
            MKind::Elem => "elem",
            MKind::Text => "text",
            MKind::Comment => "comment",
            MKind::Pi => "pi",
            MKind::Attr => "attr",
            MKind::Ns => "ns",
        }
    }
}

#[derive(Clone, Debug)]
pub struct MNode {
    pub kind: MKind,
    /// element name, attribute name, PI target
    pub name: QName,
    /// text / comment content, attribute value, namespace URI of a namespace node
    pub text: String,
    /// prefix of a namespace node
    pub prefix: String,
    /// PI data
    pub data: Option<String>,
    pub parent: Option<Mid>,
    pub nss: Vec<Mid>,
    pub attrs: Vec<Mid>,
    pub children: Vec<Mid>,
    pub live: bool,
    pub handle: Option<Node>,
}

#[derive(Clone, Debug)]
pub struct Merge {
    /// the run of text nodes that became adjacent, in order
    pub run: Vec<Mid>,
    /// the survivor chosen by the model
    pub survivor: Mid,
    /// another node that the specification also allows to be the survivor
    pub alt_survivor: Option<Mid>,
}

#[derive(Clone, Debug, Default)]
pub struct Model {
    pub nodes: Vec<MNode>,
    pub consolidation: bool,
    pub merges: Vec<Merge>,
}

impl Model {
    pub fn new() -> Model {
        Model {
            nodes: Vec::new(),
            consolidation: true,
            merges: Vec::new(),
        }
    }

    pub fn add(&mut self, kind: MKind) -> Mid {
        self.nodes.push(MNode {
            kind,
            name: QName::plain(""),
            text: String::new(),
            prefix: String::new(),
            data: None,
            parent: None,
            nss: Vec::new(),
            attrs: Vec::new(),
            children: Vec::new(),
            live: true,
            handle: None,
        });
        self.nodes.len() - 1
    }

    pub fn n(&self, m: Mid) -> &MNode {
        &self.nodes[m]
    }
    pub fn nm(&mut self, m: Mid) -> &mut MNode {
        &mut self.nodes[m]
    }
    pub fn kind(&self, m: Mid) -> MKind {
        self.nodes[m].kind
    }
    pub fn live_ids(&self) -> Vec<Mid> {
        (0..self.nodes.len()).filter(|m| self.nodes[*m].live).collect()
    }
    pub fn live_count(&self) -> usize {
        self.nodes.iter().filter(|n| n.live).count()
    }
    pub fn roots(&self) -> Vec<Mid> {
        (0..self.nodes.len())
            .filter(|m| self.nodes[*m].live && self.nodes[*m].parent.is_none())
            .collect()
    }
    pub fn root_of(&self, mut m: Mid) -> Mid {
        while let Some(p) = self.nodes[m].parent {
            m = p;
        }
        m
    }
    /// is `a` an ancestor of `b` or `b` itself
    pub fn is_ancestor_or_self(&self, a: Mid, b: Mid) -> bool {
        let mut cur = Some(b);
        while let Some(c) = cur {
            if c == a {
                return true;
            }
            cur = self.nodes[c].parent;
        }
        false
    }
    pub fn depth_between(&self, anc: Mid, desc: Mid) -> Option<usize> {
        let mut cur = Some(desc);
        let mut d = 0;
        while let Some(c) = cur {
            if c == anc {
                return Some(d);
            }
            d += 1;
            cur = self.nodes[c].parent;
        }
        None
    }
    pub fn by_handle(&self, h: Node) -> Option<Mid> {
        // the most recently created model node bound to this handle value
        (0..self.nodes.len()).rev().find(|m| self.nodes[*m].handle == Some(h))
    }

    /// subtree ids in "all" order: node, its namespace nodes, its attribute nodes, its children
    pub fn subtree_all(&self, m: Mid) -> Vec<Mid> {
        let mut v = Vec::new();
        self.subtree_into(m, &mut v);
        v
    }
    fn subtree_into(&self, m: Mid, v: &mut Vec<Mid>) {
        v.push(m);
        v.extend(self.nodes[m].nss.iter().copied());
        v.extend(self.nodes[m].attrs.iter().copied());
        for c in self.nodes[m].children.clone() {
            self.subtree_into(c, v);
        }
    }

    // ------------------------------------------------------------------ construction from ADoc

    pub fn from_anode(&mut self, a: &ANode) -> Mid {
        let m = match a.kind {
            AKind::Doc => self.add(MKind::Doc),
            AKind::Elem => {
                let m = self.add(MKind::Elem);
                self.nodes[m].name = a.name.clone();
                for (p, u) in &a.decls {
                    let n = self.add(MKind::Ns);
                    self.nodes[n].prefix = p.clone();
                    self.nodes[n].text = u.clone();
                    self.nodes[n].parent = Some(m);
                    self.nodes[m].nss.push(n);
                }
                for (q, v) in &a.attrs {
                    let n = self.add(MKind::Attr);
                    self.nodes[n].name = q.clone();
                    self.nodes[n].text = v.clone();
                    self.nodes[n].parent = Some(m);
                    self.nodes[m].attrs.push(n);
                }
                m
            }
            AKind::Text => {
                let m = self.add(MKind::Text);
                self.nodes[m].text = a.text.clone();
                m
            }
            AKind::Comment => {
                let m = self.add(MKind::Comment);
                self.nodes[m].text = a.text.clone();
                m
            }
            AKind::Pi => {
                let m = self.add(MKind::Pi);
                self.nodes[m].name = a.name.clone();
                self.nodes[m].data = a.data.clone();
                m
            }
        };
        for c in &a.children {
            let cm = self.from_anode(c);
            self.nodes[cm].parent = Some(m);
            self.nodes[m].children.push(cm);
        }
        m
    }

    /// bind model subtree to real handles (parallel HTree from the builder / snap)
    pub fn bind(&mut self, m: Mid, h: &crate::snap::HTree) -> Result<(), String> {
        self.nodes[m].handle = Some(h.node);
        if self.nodes[m].nss.len() != h.nss.len() || self.nodes[m].attrs.len() != h.attrs.len() {
            return Err("namespace/attribute node count differs while binding".into());
        }
        for (i, n) in self.nodes[m].nss.clone().into_iter().enumerate() {
            self.nodes[n].handle = Some(h.nss[i]);
        }
        for (i, n) in self.nodes[m].attrs.clone().into_iter().enumerate() {
            self.nodes[n].handle = Some(h.attrs[i]);
        }
        if self.nodes[m].children.len() != h.children.len() {
            return Err("child count differs while binding".into());
        }
        for (i, c) in self.nodes[m].children.clone().into_iter().enumerate() {
            self.bind(c, &h.children[i])?;
        }
        Ok(())
    }

    pub fn to_anode(&self, m: Mid) -> ANode {
        let n = &self.nodes[m];
        let mut a = match n.kind {
            MKind::Doc => ANode::doc(vec![]),
            MKind::Elem => {
                let mut a = ANode::elem(n.name.clone());
                for d in &n.nss {
                    a.decls.push((self.nodes[*d].prefix.clone(), self.nodes[*d].text.clone()));
                }
                for at in &n.attrs {
                    a.attrs.push((self.nodes[*at].name.clone(), self.nodes[*at].text.clone()));
                }
                a
            }
            MKind::Text => ANode::text(&n.text),
            MKind::Comment => ANode::comment(&n.text),
            MKind::Pi => {
                let mut a = ANode::pi("", n.data.as_deref());
                a.name = n.name.clone();
                a
            }
            MKind::Attr => {
                let mut a = ANode::elem(QName::new("@attribute", "@"));
                a.attrs.push((n.name.clone(), n.text.clone()));
                a
            }
            MKind::Ns => {
                let mut a = ANode::elem(QName::new("@namespace", "@"));
                a.decls.push((n.prefix.clone(), n.text.clone()));
                a
            }
        };
        for c in &n.children {
            a.children.push(self.to_anode(*c));
        }
        a
    }

    pub fn string_value(&self, m: Mid) -> String {
        let n = &self.nodes[m];
        match n.kind {
            MKind::Doc | MKind::Elem => {
                let mut s = String::new();
                for c in &n.children {
                    match self.nodes[*c].kind {
                        MKind::Text => s.push_str(&self.nodes[*c].text),
                        MKind::Elem => s.push_str(&self.string_value(*c)),
                        _ => {}
                    }
                }
                s
            }
            MKind::Text | MKind::Comment | MKind::Attr => n.text.clone(),
            MKind::Ns => n.text.clone(),
            MKind::Pi => n.data.clone().unwrap_or_default(),
        }
    }

    // ------------------------------------------------------------------ primitive edits

    /// take `n` out of its parent's list (whatever list it is in)
    pub fn unlink(&mut self, n: Mid) -> Option<Mid> {
        let p = self.nodes[n].parent.take()?;
        let pn = &mut self.nodes[p];
        pn.children.retain(|x| *x != n);
        pn.attrs.retain(|x| *x != n);
        pn.nss.retain(|x| *x != n);
        Some(p)
    }

    pub fn kill_subtree(&mut self, n: Mid) {
        for m in self.subtree_all(n) {
            self.nodes[m].live = false;
        }
    }

    pub fn index_in_parent(&self, n: Mid) -> Option<usize> {
        let p = self.nodes[n].parent?;
        self.nodes[p].children.iter().position(|x| *x == n)
    }

    /// merge runs of adjacent text nodes among the children of `p` (consolidation switched on).
    /// `inserted`: the node the call was asked to insert (survivor tolerance, Appendix A).
    pub fn consolidate(&mut self, p: Mid, inserted: Option<Mid>) {
        if !self.consolidation {
            return;
        }
        let kids = self.nodes[p].children.clone();
        let mut out: Vec<Mid> = Vec::new();
        let mut i = 0;
        while i < kids.len() {
            let k = kids[i];
            if self.nodes[k].kind == MKind::Text {
                let mut run = vec![k];
                let mut j = i + 1;
                while j < kids.len() && self.nodes[kids[j]].kind == MKind::Text {
                    run.push(kids[j]);
                    j += 1;
                }
                if run.len() > 1 {
                    let mut s = String::new();
                    for r in &run {
                        s.push_str(&self.nodes[*r].text);
                    }
                    let survivor = run[0];
                    let alt = if Some(run[0]) == inserted && run.len() == 2 {
                        Some(run[1])
                    } else {
                        None
                    };
                    for r in &run[1..] {
                        self.nodes[*r].live = false;
                        self.nodes[*r].parent = None;
                    }
                    self.nodes[survivor].text = s;
                    self.merges.push(Merge {
                        run: run.clone(),
                        survivor,
                        alt_survivor: alt,
                    });
                }
                out.push(run[0]);
                i = j;
            } else {
                out.push(k);
                i += 1;
            }
        }
        self.nodes[p].children = out;
    }

    /// swap the survivor of a recorded merge (the implementation legitimately kept the other node)
    pub fn adopt_alt_survivor(&mut self, merge_idx: usize) {
        let mg = self.merges[merge_idx].clone();
        if let Some(alt) = mg.alt_survivor {
            let s = mg.survivor;
            let p = self.nodes[s].parent;
            let text = self.nodes[s].text.clone();
            if let Some(p) = p {
                if let Some(pos) = self.nodes[p].children.iter().position(|x| *x == s) {
                    self.nodes[p].children[pos] = alt;
                }
            }
            self.nodes[alt].live = true;
            self.nodes[alt].parent = p;
            self.nodes[alt].text = text;
            self.nodes[s].live = false;
            self.nodes[s].parent = None;
            self.merges[merge_idx].survivor = alt;
            self.merges[merge_idx].alt_survivor = Some(s);
        }
    }

    /// move ordinary node `n` to `children[idx]` of `p` (idx computed after `n` was taken out),
    /// then consolidate every touched parent
    pub fn move_to(&mut self, n: Mid, p: Mid, at: Placement) {
        let old = self.unlink(n);
        let idx = match at {
            Placement::Last => self.nodes[p].children.len(),
            Placement::First => 0,
            Placement::After(r) => self.nodes[p].children.iter().position(|x| *x == r).map(|i| i + 1).unwrap_or(self.nodes[p].children.len()),
            Placement::Before(r) => self.nodes[p].children.iter().position(|x| *x == r).unwrap_or(0),
        };
        self.nodes[p].children.insert(idx, n);
        self.nodes[n].parent = Some(p);
        if let Some(o) = old {
            if o != p {
                self.consolidate(o, None);
            }
        }
        self.consolidate(p, Some(n));
    }

    /// deep copy of a subtree as a new parentless tree (unbound handles)
    pub fn copy_subtree(&mut self, src: Mid) -> Mid {
        let s = self.nodes[src].clone();
        let m = self.add(s.kind);
        self.nodes[m].name = s.name.clone();
        self.nodes[m].text = s.text.clone();
        self.nodes[m].prefix = s.prefix.clone();
        self.nodes[m].data = s.data.clone();
        for n in &s.nss {
            let c = self.copy_subtree(*n);
            self.nodes[c].parent = Some(m);
            self.nodes[m].nss.push(c);
        }
        for n in &s.attrs {
            let c = self.copy_subtree(*n);
            self.nodes[c].parent = Some(m);
            self.nodes[m].attrs.push(c);
        }
        for n in &s.children {
            let c = self.copy_subtree(*n);
            self.nodes[c].parent = Some(m);
            self.nodes[m].children.push(c);
        }
        m
    }

    /// merge adjacent text nodes everywhere in a freshly copied (unbound) subtree
    pub fn consolidate_deep(&mut self, m: Mid) {
        for c in self.nodes[m].children.clone() {
            if self.nodes[c].live {
                self.consolidate_deep(c);
            }
        }
        self.consolidate(m, None);
    }

    pub fn find_attr(&self, e: Mid, name: &QName) -> Option<Mid> {
        self.nodes[e].attrs.iter().copied().find(|a| self.nodes[*a].name == *name)
    }
    pub fn find_ns(&self, e: Mid, prefix: &str) -> Option<Mid> {
        self.nodes[e].nss.iter().copied().find(|a| self.nodes[*a].prefix == prefix)
    }
}

#[derive(Clone, Copy, Debug)]
pub enum Placement {
    First,
    Last,
    After(Mid),
    Before(Mid),
}

/// relation of two model nodes (argument-relation cell, Appendix A)
pub fn relation(m: &Model, a: Mid, b: Mid) -> &'static str {
    if a == b {
        return "same";
    }
    let ka = m.kind(a);
    let kb = m.kind(b);
    if !ka.ordinary() && m.n(a).parent == Some(b) {
        return "a-abnormal-node-of-b";
    }
    if !kb.ordinary() && m.n(b).parent == Some(a) {
        return "b-abnormal-node-of-a";
    }
    if !ka.ordinary() && !kb.ordinary() && m.n(a).parent.is_some() && m.n(a).parent == m.n(b).parent {
        return "abnormal-nodes-of-one-element";
    }
    if m.n(b).parent == Some(a) {
        return "a-parent-of-b";
    }
    if m.n(a).parent == Some(b) {
        return "b-parent-of-a";
    }
    if m.is_ancestor_or_self(a, b) {
        return "a-ancestor-of-b";
    }
    if m.is_ancestor_or_self(b, a) {
        return "b-ancestor-of-a";
    }
    if m.n(a).parent.is_some() && m.n(a).parent == m.n(b).parent && ka.ordinary() && kb.ordinary() {
        let ia = m.index_in_parent(a);
        let ib = m.index_in_parent(b);
        if let (Some(ia), Some(ib)) = (ia, ib) {
            if ia + 1 == ib {
                return "a-immediately-before-b";
            }
            if ib + 1 == ia {
                return "a-immediately-after-b";
            }
            return "siblings-apart";
        }
    }
    if m.root_of(a) == m.root_of(b) {
        "same-tree-unrelated"
    } else {
        "different-trees"
    }
}
