//! C20 — the same document built three ways is the same tree.

use super::common::*;
use crate::adoc::*;
use crate::build::{self, AttrStyle, ROUTES};
use crate::engine::{guard, Ctx, Monitor, Stream, Tier};
use crate::gen::{self, GenCfg, NsMode, TextProfile};
use crate::json::J;
use crate::render::{self, RandomChoices, RenderOpts};
use crate::rng::Rng;
use xot::fixed;
use xot::Xot;

pub struct C20;

fn to_fixed_element(a: &ANode) -> fixed::Element {
    fixed::Element {
        name: fixed::Name { namespace: a.name.ns.clone(), localname: a.name.local.clone() },
        prefixes: a.decls.iter().map(|(p, u)| fixed::Prefix { name: p.clone(), namespace: u.clone() }).collect(),
        attributes: a.attrs.iter().map(|(q, v)| (fixed::Name { namespace: q.ns.clone(), localname: q.local.clone() }, v.clone())).collect(),
        children: a
            .children
            .iter()
            .map(|c| match c.kind {
                AKind::Text => fixed::Content::Text(c.text.clone()),
                AKind::Comment => fixed::Content::Comment(c.text.clone()),
                AKind::Pi => fixed::Content::ProcessingInstruction(fixed::ProcessingInstruction { target: c.name.local.clone(), content: c.data.clone() }),
                _ => fixed::Content::Element(to_fixed_element(c)),
            })
            .collect(),
    }
}

fn to_fixed_document(a: &ANode) -> Option<fixed::Document> {
    let ei = a.children.iter().position(|c| c.kind == AKind::Elem)?;
    let conv = |c: &ANode| match c.kind {
        AKind::Comment => Some(fixed::DocumentContent::Comment(c.text.clone())),
        AKind::Pi => Some(fixed::DocumentContent::ProcessingInstruction(fixed::ProcessingInstruction { target: c.name.local.clone(), content: c.data.clone() })),
        _ => None,
    };
    let before: Option<Vec<_>> = a.children[..ei].iter().map(conv).collect();
    let after: Option<Vec<_>> = a.children[ei + 1..].iter().map(conv).collect();
    Some(fixed::Document { before: before?, document_element: to_fixed_element(&a.children[ei]), after: after? })
}

fn gen_doc(rng: &mut Rng) -> ANode {
    loop {
        let mut cfg = GenCfg::default();
        cfg.max_nodes = *rng.pick(&[2, 6, 14, 25]);
        cfg.max_depth = *rng.pick(&[2, 4, 6]);
        cfg.ns_mode = if rng.chance(1, 3) { NsMode::None } else { NsMode::Consistent };
        cfg.text = if rng.bool() { TextProfile::Hostile } else { TextProfile::Plain };
        cfg.str_len = 6;
        cfg.fragment = false;
        cfg.top_misc = false;
        cfg.xml_id = rng.chance(1, 5);
        let mut d = gen::gen_document(rng, &cfg);
        // 0-3 leading and 0-3 trailing comments / PIs
        let lead = rng.pick_weighted(&[3, 3, 2, 1]);
        let trail = rng.pick_weighted(&[2, 3, 2, 1]);
        let mk = |rng: &mut Rng, i: usize| {
            if rng.bool() {
                ANode::comment(&format!("c{}", i))
            } else {
                ANode::pi(&format!("pi{}", i), if rng.bool() { Some("d") } else { None })
            }
        };
        let mut kids = Vec::new();
        for i in 0..lead {
            kids.push(mk(rng, i));
        }
        kids.extend(d.children.drain(..));
        for i in 0..trail {
            kids.push(mk(rng, 10 + i));
        }
        d.children = kids;
        if render::renderable(&d) && gen::is_wf_document(&d) {
            return d;
        }
    }
}

impl Monitor for C20 {
    fn id(&self) -> &'static str {
        "C20"
    }
    fn streams(&self, tier: Tier, budget: f64) -> Vec<Stream> {
        let n = match tier {
            Tier::Quick => 250_000,
            Tier::Thorough => 2_000_000,
        };
        vec![Stream::new("documents", scaled(n, budget))]
    }
    fn rule(&self) -> String {
        "XML-representable well-formed documents with 0-3 leading and 0-3 trailing top-level comments / PIs, realised (a) by parsing a rendering, (b) through fixed::Document::xotify (and fixed::Element::xotify for the document element alone), (c) stepwise through the creation API in four construction orders x three attribute styles: all realisations must read back pairwise equal including declarations and attribute order, and serialise to identical strings. Non-trivial = document with >= 3 nodes; distinct by structural hash".into()
    }
    fn floors(&self, _tier: Tier) -> Vec<(&'static str, u64)> {
        vec![("documents_all_routes_equal", 10_000), ("with_trailing_misc", 3_000), ("with_leading_misc", 3_000), ("fixed_element_alone", 3_000), ("documents_with_empty_text_nodes", 2_000)]
    }
    fn assumptions(&self) -> Vec<String> {
        vec!["documents are restricted to the XML-representable domain without the open F29 trigger (a rendering must exist)".into()]
    }
    fn run_case(&self, _stream: usize, _idx: u64, rng: &mut Rng, ctx: &mut Ctx) {
        let mut doc = gen_doc(rng);
        // one document in twelve has a carriage return inside a comment or PI body (kept verbatim by every route)
        if rng.chance(1, 12) && inject_cr(&mut doc, rng) {
            ctx.count("documents_with_cr_in_comment_or_pi");
        }
        // one document in ten holds EMPTY text nodes (next to no other text): XML cannot spell them, so only the
        // fixed:: and the stepwise realisations are compared for it
        let mut unparsable = false;
        if rng.chance(1, 10) {
            let mut n = 2;
            for c in doc.children.iter_mut() {
                sprinkle_empty_text(c, rng, &mut n);
            }
            if n < 2 {
                unparsable = true;
                ctx.count("documents_with_empty_text_nodes");
            }
        }
        if doc.count() >= 3 {
            ctx.nontrivial(doc.structural_hash());
        }
        let ei = doc.children.iter().position(|c| c.kind == AKind::Elem).unwrap_or(0);
        if ei > 0 {
            ctx.count("with_leading_misc");
        }
        if ei + 1 < doc.children.len() {
            ctx.count("with_trailing_misc");
        }
        let base = |what: String| J::obj().set("abstract_document", doc.to_json()).set("what", J::s(what));
        // (a) parse of a rendering
        let opts = RenderOpts { fragment: false, allow_decl: true, allow_bom: false, ..Default::default() };
        let r = render::render(&doc, &mut RandomChoices(rng), &opts);
        let mut realisations: Vec<(String, ANode, String)> = Vec::new();
        if !unparsable {
            let mut x = Xot::new();
            // the parser's merging of character data and CDATA does not depend on the consolidation switch
            if rng.chance(1, 4) {
                x.set_text_consolidation(false);
                ctx.count("parsed_with_text_consolidation_off");
            }
            match guard(|| x.parse(&r.text)) {
                Ok(Ok(d)) => match (snap_guarded(&x, d), ser(&x, d)) {
                    (Ok(t), Ok(Ok(s))) => realisations.push(("parse".into(), t, s)),
                    (a, b) => {
                        ctx.violation("parsed realisation cannot be read back / serialised", "C20/parse/unusable".to_string(), base(format!("{:?} / {:?}", a.map(|_| ()), b.map(|r| r.map(|_| ()).map_err(|e| format!("{:?}", e))).map_err(|p| p.short()))));
                        return;
                    }
                },
                other => {
                    ctx.violation(
                        "rendering of the document rejected",
                        "C20/parse/rejected".to_string(),
                        base(format!("{:?}", other.map(|r| r.map(|_| ()).map_err(|e| format!("{:?}", e))).map_err(|p| p.short()))).set("text", J::s(trunc(&r.text, 800))),
                    );
                    return;
                }
            }
        }
        // (b) fixed::Document
        if let Some(fd) = to_fixed_document(&doc) {
            let mut x = Xot::new();
            match guard(|| fd.xotify(&mut x)) {
                Ok(d) => match (snap_guarded(&x, d), ser(&x, d)) {
                    (Ok(t), Ok(Ok(s))) => realisations.push(("fixed::Document::xotify".into(), t, s)),
                    (Ok(t), other) => {
                        ctx.violation(
                            "fixed::Document realisation does not serialise",
                            "C20/fixed-document/not-serialisable".to_string(),
                            base(format!("{:?}", other.map(|r| r.map(|_| ()).map_err(|e| format!("{:?}", e))).map_err(|p| p.short()))).set("tree", t.to_json()),
                        );
                        return;
                    }
                    _ => return,
                },
                Err(p) => {
                    ctx.violation("fixed::Document::xotify panicked", format!("C20/fixed-document/panic/{}", p.sig()), base(p.short()));
                    return;
                }
            }
        }
        // (c) stepwise creation, all four orders
        for route in ROUTES {
            let style = *rng.pick(&crate::build::STYLES);
            let mut x = Xot::new();
            match guard(|| build::build(&mut x, &doc, route, style)) {
                Ok(Ok(h)) => match (snap_guarded(&x, h.node), ser(&x, h.node)) {
                    (Ok(t), Ok(Ok(s))) => realisations.push((format!("creation-API/{:?}/{:?}", route, style), t, s)),
                    (a, b) => {
                        ctx.violation(
                            "stepwise realisation cannot be read back / serialised",
                            format!("C20/creation-api/{:?}/unusable", route),
                            base(format!("{:?} / {:?}", a.map(|_| ()), b.map(|r| r.map(|_| ()).map_err(|e| format!("{:?}", e))).map_err(|p| p.short()))),
                        );
                        return;
                    }
                },
                other => {
                    ctx.violation(
                        "stepwise construction failed",
                        format!("C20/creation-api/{:?}/failed", route),
                        base(format!("{:?}", other.map(|r| r.map(|_| ())).map_err(|p| p.short()))),
                    );
                    return;
                }
            }
        }
        // pairwise: all equal to the abstract document and to each other, and serialise identically
        for (name, t, _s) in &realisations {
            if *t != doc {
                let d = first_diff(&doc, t).unwrap_or_default();
                let route = name.split('/').next().unwrap_or("").to_string();
                let cause = if unparsable && d.contains("children") {
                    "child-sequence-with-empty-text-node"
                } else if d.contains("children") && route.starts_with("fixed") {
                    "top-level-comments-or-pis-misplaced"
                } else {
                    diff_class(&d)
                };
                ctx.violation(
                    "a realisation is not the abstract document",
                    format!("C20/{}/differs/{}", route, cause),
                    base(format!("{}: {}", name, d)).set("realisation", t.to_json()),
                );
                return;
            }
        }
        let s0 = &realisations[0].2;
        for (name, _t, s) in &realisations[1..] {
            if s != s0 {
                ctx.violation(
                    "realisations serialise differently",
                    format!("C20/{}/serialisation-differs", name.split('/').next().unwrap_or("")),
                    base(format!("{} gives {:?}, {} gives {:?}", realisations[0].0, trunc(s0, 500), name, trunc(s, 500))),
                );
                return;
            }
        }
        ctx.count("documents_all_routes_equal");
        ctx.add("realisations_compared", realisations.len() as u64);
        // fixed::Element alone vs the document element of the other routes
        {
            let el = &doc.children[ei];
            let fe = to_fixed_element(el);
            let mut x = Xot::new();
            match guard(|| fe.xotify(&mut x)) {
                Ok(n) => {
                    if let Ok(t) = snap_guarded(&x, n) {
                        if t != *el {
                            let d = first_diff(el, &t).unwrap_or_default();
                            ctx.violation("fixed::Element realisation is not the abstract element", format!("C20/fixed-element/differs/{}", diff_class(&d)), base(d));
                            return;
                        }
                        ctx.count("fixed_element_alone");
                    }
                }
                Err(p) => {
                    ctx.violation("fixed::Element::xotify panicked", format!("C20/fixed-element/panic/{}", p.sig()), base(p.short()));
                    return;
                }
            }
        }
        ctx.sample(|| J::obj().set("abstract_document", doc.to_json()).set("realisations", J::Arr(realisations.iter().map(|(n, _, _)| J::s(n.clone())).collect())));
    }
}
