//! C09 — namespace scope queries agree with nearest-declaration-wins scoping.

use super::common::*;
use crate::adoc::*;
use crate::build::{self, AttrStyle, ROUTES};
use crate::engine::{guard, Ctx, Monitor, Stream, Tier};
use crate::gen::{self, GenCfg, NsMode, Scope, TextProfile};
use crate::json::J;
use crate::rng::Rng;
use crate::snap::{self, HTree};
use std::collections::BTreeSet;
use xot::xmlname::NameStrInfo;
use xot::{Node, Xot};

pub struct C09;

const PREFIX_POOL: &[&str] = &["", "p", "q", "r", "n0", "n1", "xml", "undeclared"];
const NS_POOL: &[&str] = &[gen::NS_A, gen::NS_B, gen::NS_C, XHTML_NS, SVG_NS, XML_NS, "urn:never-declared"];

fn forced() -> Vec<ANode> {
    let e = |ns: &str, n: &str| ANode::elem(QName::new(ns, n));
    vec![
        // a shadowed prefix sitting next to an unshadowed one for a different namespace (F26)
        e("", "r").with_decl("p", "urn:A").with_decl("q", "urn:B").with_children(vec![e("", "m").with_decl("p", "urn:C0").with_children(vec![e("urn:B", "x")])]),
        e("", "r").with_decl("q", "urn:A").with_children(vec![e("", "m").with_decl("q", "urn:B").with_decl("p", "urn:A").with_children(vec![e("urn:A", "x")])]),
        // an attribute whose namespace is also (only) the default namespace (F27)
        e("urn:A", "r").with_decl("", "urn:A").with_attr(QName::new("urn:A", "k"), "v"),
        // ... and with a usable prefix as well
        e("urn:A", "r").with_decl("", "urn:A").with_decl("p", "urn:A").with_attr(QName::new("urn:A", "k"), "v"),
        // default declared, redeclared, undeclared
        e("urn:A", "r").with_decl("", "urn:A").with_children(vec![e("urn:B", "m").with_decl("", "urn:B").with_children(vec![e("", "x").with_decl("", "").with_children(vec![ANode::text("t")])])]),
        // no-namespace element under a default binding (F29)
        e("urn:A", "r").with_decl("", "urn:A").with_children(vec![e("", "x")]),
        // the xml prefix rebound through the API: the nearest declaration wins for it like for any other prefix
        e("", "r").with_decl("xml", "urn:A").with_children(vec![e("urn:A", "x").with_attr(QName::new("urn:A", "k"), "v"), e("", "m").with_decl("xml", "urn:B").with_children(vec![e("urn:B", "y")])]),
        e("", "r").with_children(vec![e("", "m").with_decl("xml", "urn:A").with_decl("p", "urn:A").with_children(vec![e("urn:A", "x")]), e("", "n")]),
        // several prefixes per namespace, several namespaces per prefix along a path
        e("", "r").with_decl("p", "urn:A").with_decl("q", "urn:A").with_children(vec![e("", "m").with_decl("p", "urn:B").with_children(vec![e("urn:A", "x").with_attr(QName::new("urn:A", "k"), "1").with_attr(QName::new("urn:B", "k"), "2")])]),
    ]
}

fn set_of(v: &[(String, String)]) -> BTreeSet<(String, String)> {
    v.iter().cloned().collect()
}

struct Walk<'a> {
    xot: &'a mut Xot,
    ctx: &'a mut Ctx,
    root: &'a ANode,
    failed: bool,
}

impl<'a> Walk<'a> {
    fn bad(&mut self, api: &str, clause: &str, cause: &str, node: &ANode, what: String) {
        if self.failed {
            return;
        }
        self.failed = true;
        self.ctx.violation(
            "a namespace scope query disagrees with nearest-declaration-wins scoping",
            format!("C09/{}/{}/{}", api, clause, cause),
            J::obj().set("tree", self.root.to_json()).set("at_node", J::s(trunc(&node.show(), 300))).set("what", J::s(what)),
        );
    }

    fn check_scope_queries(&mut self, a: &ANode, h: Node, scope: &Scope, kind: &str) {
        if self.failed {
            return;
        }
        let mut model: Vec<(String, String)> = scope.bindings();
        if !model.iter().any(|(p, _)| p == "xml") {
            model.push(("xml".to_string(), XML_NS.to_string()));
        }
        let mset = set_of(&model);
        // namespaces_in_scope
        let real = {
            let x = &*self.xot;
            guard(|| snap::bounded(x.namespaces_in_scope(h), 10_000).map(|v| v.into_iter().map(|(p, n)| (x.prefix_str(p).to_string(), x.namespace_str(n).to_string())).collect::<Vec<_>>()))
        };
        match real {
            Ok(Ok(v)) => {
                let rset = set_of(&v);
                if rset.len() != v.len() {
                    self.bad("namespaces_in_scope", "duplicate-prefix", kind, a, format!("yields a prefix twice: {:?}", v));
                    return;
                }
                if rset != mset {
                    let shadow = v.iter().any(|(p, _)| model.iter().filter(|(mp, _)| mp == p).count() == 0);
                    self.bad("namespaces_in_scope", "set-differs", if shadow { "extra-binding" } else { "missing-or-wrong-binding" }, a, format!("reported {:?}, nearest-declaration-wins gives {:?}", v, model));
                    return;
                }
                self.ctx.count("in_scope_sets_equal");
            }
            other => {
                self.bad("namespaces_in_scope", "panic-or-endless", kind, a, format!("{:?}", other.map(|r| r.map(|_| ()).map_err(|_| "endless")).map_err(|p| p.short())));
                return;
            }
        }
        // namespace_for_prefix for every prefix known
        for p in PREFIX_POOL {
            let pid = self.xot.add_prefix(p);
            let want: Option<String> = scope.lookup(p).map(|s| s.to_string());
            let x = &*self.xot;
            match guard(|| x.namespace_for_prefix(h, pid).map(|n| x.namespace_str(n).to_string())) {
                Ok(g) if g == want => self.ctx.count("namespace_for_prefix.checked"),
                other => {
                    self.bad("namespace_for_prefix", "wrong-namespace", if p.is_empty() { "default-prefix" } else { "prefix" }, a, format!("namespace_for_prefix({:?}) = {:?}, expected {:?}", p, other.map_err(|e| e.short()), want));
                    return;
                }
            }
            // is_prefix_defined
            if !p.is_empty() {
                let x = &*self.xot;
                match guard(|| x.is_prefix_defined(h, pid)) {
                    Ok(g) if g == want.is_some() => self.ctx.count("is_prefix_defined.checked"),
                    other => {
                        self.bad("is_prefix_defined", "wrong-answer", "non-empty-prefix", a, format!("is_prefix_defined({:?}) = {:?}, binding is {:?}", p, other.map_err(|e| e.short()), want));
                        return;
                    }
                }
            } else {
                let declared_anywhere = scope.stack.iter().any(|(pp, _)| pp.is_empty());
                let judged = if !declared_anywhere { Some(false) } else if want.is_some() { Some(true) } else { None };
                if let Some(w) = judged {
                    let x = &*self.xot;
                    match guard(|| x.is_prefix_defined(h, pid)) {
                        Ok(g) if g == w => {}
                        other => {
                            self.bad("is_prefix_defined", "wrong-answer", "empty-prefix", a, format!("is_prefix_defined(\"\") = {:?}, expected {}", other.map_err(|e| e.short()), w));
                            return;
                        }
                    }
                }
            }
        }
        // prefix_for_namespace for every real namespace known
        for ns in NS_POOL {
            let nid = self.xot.add_namespace(ns);
            let mut usable: Vec<String> = scope.prefixes_for(ns, true);
            if *ns == XML_NS && scope.lookup("xml") == Some(XML_NS) && !usable.iter().any(|p| p == "xml") {
                usable.push("xml".to_string());
            }
            let x = &*self.xot;
            match guard(|| x.prefix_for_namespace(h, nid).map(|p| x.prefix_str(p).to_string())) {
                Ok(Some(p)) => {
                    if !usable.contains(&p) {
                        self.bad("prefix_for_namespace", "prefix-not-bound-to-namespace", "wrong-prefix", a, format!("prefix_for_namespace({:?}) = {:?} but the usable prefixes are {:?}", ns, p, usable));
                        return;
                    }
                    self.ctx.count("prefix_for_namespace.some");
                }
                Ok(None) => {
                    if !usable.is_empty() {
                        // cause predicate: was a shadowed prefix met before the usable one?
                        let shadowed_seen = scope.stack.iter().rev().any(|(p, u)| u != ns && scope.lookup(p).map(|l| l != u.as_str()).unwrap_or(true));
                        self.bad(
                            "prefix_for_namespace",
                            "none-although-bound",
                            if shadowed_seen { "shadowed-prefix-on-the-path" } else { "other" },
                            a,
                            format!("prefix_for_namespace({:?}) = None but {:?} are bound to it", ns, usable),
                        );
                        return;
                    }
                    self.ctx.count("prefix_for_namespace.none");
                }
                Err(p) => {
                    self.bad("prefix_for_namespace", "panic", kind, a, p.short());
                    return;
                }
            }
        }
    }

    fn check_qualified_name(&mut self, a: &ANode, h: Node, name: &QName, scope: &Scope, is_attr: bool) {
        if self.failed {
            return;
        }
        let usable: Vec<String> = if name.ns.is_empty() {
            if is_attr || scope.lookup("").is_none() { vec![String::new()] } else { vec![] }
        } else if name.ns == XML_NS && scope.lookup("xml") == Some(XML_NS) {
            vec!["xml".to_string()]
        } else {
            scope.prefixes_for(&name.ns, !is_attr)
        };
        let resolve = |prefix: &str| -> String {
            if prefix.is_empty() {
                if is_attr { String::new() } else { scope.lookup("").unwrap_or("").to_string() }
            } else {
                scope.lookup(prefix).unwrap_or("\u{0}unbound").to_string()
            }
        };
        let cause = |s: &Walk| -> &'static str {
            let _ = s;
            if !is_attr && name.ns.is_empty() && scope.lookup("").is_some() {
                "element-in-no-namespace-under-default-binding"
            } else if is_attr && !name.ns.is_empty() && scope.prefixes_for(&name.ns, false).is_empty() && scope.lookup("") == Some(name.ns.as_str()) {
                "attribute-namespace-bound-only-as-default"
            } else if is_attr {
                "attribute"
            } else {
                "element"
            }
        };
        let nsid = self.xot.add_namespace(&name.ns);
        let name_id = self.xot.add_name_ns(&name.local, nsid);
        // node_name_ref / name_ref
        let x = &*self.xot;
        let r1 = guard(|| x.node_name_ref(h).map(|o| o.map(|r| (r.prefix().to_string(), r.local_name().to_string(), r.namespace().to_string()))));
        let r2 = guard(|| x.name_ref(name_id, h).map(|r| (r.prefix().to_string(), r.local_name().to_string(), r.namespace().to_string())));
        let r3 = guard(|| x.full_name(h, name_id));
        let mut results: Vec<(&str, Result<Option<String>, String>)> = Vec::new();
        match r1 {
            Ok(Ok(Some((p, l, n)))) => {
                if l != name.local || n != name.ns {
                    self.bad("node_name_ref", "wrong-name", cause(self), a, format!("reports {{{}}}{} for {}", n, l, name.clark()));
                    return;
                }
                results.push(("node_name_ref", Ok(Some(p))));
            }
            Ok(Ok(None)) => results.push(("node_name_ref", Err("returned None for a named node".into()))),
            Ok(Err(_)) => results.push(("node_name_ref", Ok(None))),
            Err(p) => results.push(("node_name_ref", Err(p.short()))),
        }
        match r2 {
            Ok(Ok((p, _, _))) => results.push(("name_ref", Ok(Some(p)))),
            Ok(Err(_)) => results.push(("name_ref", Ok(None))),
            Err(p) => results.push(("name_ref", Err(p.short()))),
        }
        match r3 {
            Ok(Ok(s)) => {
                let (p, l) = match s.split_once(':') {
                    Some((p, l)) => (p.to_string(), l.to_string()),
                    None => (String::new(), s.clone()),
                };
                if l != name.local {
                    self.bad("full_name", "wrong-local-name", cause(self), a, format!("full_name = {:?} for {}", s, name.clark()));
                    return;
                }
                results.push(("full_name", Ok(Some(p))));
            }
            Ok(Err(_)) => results.push(("full_name", Ok(None))),
            Err(p) => results.push(("full_name", Err(p.short()))),
        }
        for (api, r) in results {
            match r {
                Err(e) => {
                    self.bad(api, "panic-or-none", cause(self), a, e);
                    return;
                }
                Ok(None) => {
                    if !usable.is_empty() {
                        self.bad(api, "error-although-a-usable-prefix-exists", cause(self), a, format!("{} failed for {} although prefixes {:?} are usable", api, name.clark(), usable));
                        return;
                    }
                    self.ctx.count("qualified_name.error_justified");
                }
                Ok(Some(p)) => {
                    let back = resolve(&p);
                    if back != name.ns {
                        self.bad(
                            api,
                            "prefix-resolves-to-another-namespace",
                            cause(self),
                            a,
                            format!("{} gives prefix {:?} for {} {}; resolved in the node's scope that means namespace {:?}", api, p, if is_attr { "attribute" } else { "element" }, name.clark(), back),
                        );
                        return;
                    }
                    self.ctx.count("qualified_name.resolves_back");
                }
            }
        }
    }

    fn check_subtree_helpers(&mut self, a: &ANode, h: Node, parent_scope: &Scope) {
        if self.failed {
            return;
        }
        // namespaces used in the subtree, and those with no declaration at all on the inner path
        let mut used: BTreeSet<String> = BTreeSet::new();
        let mut unbound_inside: BTreeSet<String> = BTreeSet::new();
        // namespaces of attribute names that no NON-EMPTY prefix declared inside the subtree binds
        let mut attr_unbound: BTreeSet<String> = BTreeSet::new();
        fn rec(n: &ANode, path_decls: &mut Vec<(String, String)>, used: &mut BTreeSet<String>, unbound: &mut BTreeSet<String>, attr_unbound: &mut BTreeSet<String>) {
            if n.kind == AKind::Elem {
                let k = n.decls.len();
                for (p, u) in &n.decls {
                    path_decls.push((p.clone(), u.clone()));
                }
                let mut names: Vec<(&QName, bool)> = vec![(&n.name, false)];
                names.extend(n.attrs.iter().map(|(q, _)| (q, true)));
                for (q, is_attr) in names {
                    if !q.ns.is_empty() && q.ns != XML_NS {
                        used.insert(q.ns.clone());
                        if !path_decls.iter().any(|(_, u)| *u == q.ns) {
                            unbound.insert(q.ns.clone());
                        }
                        if is_attr && !path_decls.iter().any(|(p, u)| !p.is_empty() && *u == q.ns) {
                            attr_unbound.insert(q.ns.clone());
                        }
                    }
                }
                for c in &n.children {
                    rec(c, path_decls, used, unbound, attr_unbound);
                }
                for _ in 0..k {
                    path_decls.pop();
                }
            } else {
                for c in &n.children {
                    rec(c, path_decls, used, unbound, attr_unbound);
                }
            }
        }
        rec(a, &mut Vec::new(), &mut used, &mut unbound_inside, &mut attr_unbound);
        let x = &*self.xot;
        let un = match guard(|| x.unresolved_namespaces(h).into_iter().map(|n| x.namespace_str(n).to_string()).collect::<Vec<_>>()) {
            Ok(v) => v,
            Err(p) => {
                self.bad("unresolved_namespaces", "panic", "subtree", a, p.short());
                return;
            }
        };
        let un_real: BTreeSet<String> = un.iter().filter(|u| !u.is_empty() && u.as_str() != XML_NS).cloned().collect();
        for u in &un_real {
            if !used.contains(u) {
                self.bad("unresolved_namespaces", "reports-unused-namespace", "subtree", a, format!("reports {:?} which no name in the subtree uses (used: {:?})", u, used));
                return;
            }
        }
        for u in &unbound_inside {
            if !un_real.contains(u) {
                self.bad("unresolved_namespaces", "misses-namespace-without-any-inner-binding", "subtree", a, format!("does not report {:?} although no declaration inside the subtree binds it (reported {:?})", u, un));
                return;
            }
        }
        // exactly: the namespaces of names that the declarations INSIDE the subtree (nearest wins, xmlns="" undeclares)
        // leave without a usable prefix - any prefix for an element name, a non-empty one for an attribute name
        {
            let mut exact: BTreeSet<String> = BTreeSet::new();
            fn rec2(n: &ANode, sc: &mut Scope, out: &mut BTreeSet<String>) {
                if n.kind == AKind::Elem {
                    let k = sc.push_all(&n.decls);
                    if !n.name.ns.is_empty() && n.name.ns != XML_NS && sc.prefixes_for(&n.name.ns, true).is_empty() {
                        out.insert(n.name.ns.clone());
                    }
                    for (q, _) in &n.attrs {
                        if !q.ns.is_empty() && q.ns != XML_NS && sc.prefixes_for(&q.ns, false).is_empty() {
                            out.insert(q.ns.clone());
                        }
                    }
                    for c in &n.children {
                        rec2(c, sc, out);
                    }
                    sc.pop_n(k);
                } else {
                    for c in &n.children {
                        rec2(c, sc, out);
                    }
                }
            }
            rec2(a, &mut Scope::new(), &mut exact);
            if exact != un_real {
                let cause = if exact.difference(&un_real).next().is_some() { "misses-a-namespace-left-unbound-inside" } else { "reports-a-namespace-bound-inside" };
                self.bad("unresolved_namespaces", cause, "subtree", a, format!("reports {:?}; the declarations inside the subtree leave exactly {:?} without a usable prefix", un_real, exact));
                return;
            }
        }
        self.ctx.count("unresolved_namespaces.checked");
        // inherited_prefixes
        let inh = match guard(|| x.inherited_prefixes(h).into_iter().map(|(p, n)| (x.prefix_str(p).to_string(), x.namespace_str(n).to_string())).collect::<Vec<_>>()) {
            Ok(v) => v,
            Err(p) => {
                self.bad("inherited_prefixes", "panic", "subtree", a, p.short());
                return;
            }
        };
        let mut pb: Vec<(String, String)> = parent_scope.bindings();
        if !pb.iter().any(|(p, _)| p == "xml") {
            pb.push(("xml".into(), XML_NS.into()));
        }
        for b in &inh {
            if !pb.contains(b) {
                self.bad("inherited_prefixes", "binding-not-in-parent-scope", "subtree", a, format!("{:?} is not in scope at the parent ({:?})", b, pb));
                return;
            }
            if !un.contains(&b.1) {
                self.bad("inherited_prefixes", "binding-for-a-namespace-not-unresolved", "subtree", a, format!("{:?} binds a namespace unresolved_namespaces does not report ({:?})", b, un));
                return;
            }
        }
        for u in &un_real {
            if pb.iter().any(|(_, n)| n == u) && !inh.iter().any(|(_, n)| n == u) {
                self.bad("inherited_prefixes", "misses-binding-the-parent-scope-has", "subtree", a, format!("no binding for {:?} although the parent scope binds it ({:?})", u, pb));
                return;
            }
        }
        // an attribute can only use a non-empty prefix: where the parent scope offers one for a namespace an
        // attribute of the subtree needs, the inherited set must offer one too
        for u in &attr_unbound {
            if pb.iter().any(|(p, n)| n == u && !p.is_empty()) && !inh.iter().any(|(p, n)| n == u && !p.is_empty()) {
                self.bad(
                    "inherited_prefixes",
                    "misses-the-prefixed-binding-an-attribute-needs",
                    "subtree",
                    a,
                    format!("an attribute in {:?} has no prefixed binding inside the subtree, the parent scope has one ({:?}), the inherited set has none ({:?})", u, pb, inh),
                );
                return;
            }
        }
        self.ctx.count("inherited_prefixes.checked");
    }

    fn node(&mut self, a: &ANode, h: &HTree, scope: &mut Scope) {
        if self.failed {
            return;
        }
        match a.kind {
            AKind::Elem => {
                let parent_scope = scope.clone();
                let pushed = scope.push_all(&a.decls);
                self.check_scope_queries(a, h.node, scope, "element");
                self.check_qualified_name(a, h.node, &a.name, scope, false);
                self.check_subtree_helpers(a, h.node, &parent_scope);
                for (i, at) in h.attrs.iter().enumerate() {
                    if let Some((q, _)) = a.attrs.get(i) {
                        self.check_scope_queries(a, *at, scope, "attribute-node");
                        self.check_qualified_name(a, *at, q, scope, true);
                    }
                }
                for ns in h.nss.iter().take(1) {
                    self.check_scope_queries(a, *ns, scope, "namespace-node");
                }
                for (c, hc) in a.children.iter().zip(h.children.iter()) {
                    self.node(c, hc, scope);
                }
                scope.pop_n(pushed);
            }
            AKind::Doc => {
                self.check_scope_queries(a, h.node, scope, "document");
                for (c, hc) in a.children.iter().zip(h.children.iter()) {
                    self.node(c, hc, scope);
                }
            }
            _ => {
                self.check_scope_queries(a, h.node, scope, "leaf");
            }
        }
    }
}

/// 17-24 prefixes declared on one element in random order and redeclared, in another order and for other
/// namespaces, one or two levels down: scope walks that collect more than 16 prefixes
fn many_prefix_layout(rng: &mut Rng) -> ANode {
    let k = rng.range(17, 24);
    let uris = [gen::NS_A, gen::NS_B, gen::NS_C, "urn:m:1", "urn:m:2", "urn:m:3"];
    let mut order: Vec<usize> = (0..k).collect();
    let level = |rng: &mut Rng, order: &mut Vec<usize>, share: usize| -> Vec<(String, String)> {
        rng.shuffle(order);
        order.iter().take(share).map(|i| (format!("m{}", i), uris[rng.below(uris.len())].to_string())).collect()
    };
    let name_in = |rng: &mut Rng, decls: &[(String, String)], local: &str| -> QName {
        if decls.is_empty() || rng.chance(1, 4) {
            QName::plain(local)
        } else {
            QName::new(&decls[rng.below(decls.len())].1, local)
        }
    };
    let d0 = level(rng, &mut order, k);
    let n1 = rng.range(1, k);
    let d1 = level(rng, &mut order, n1);
    let n2 = rng.range(0, 6);
    let d2 = level(rng, &mut order, n2);
    let mut leaf = ANode::elem(name_in(rng, &d0, "leaf"));
    leaf.decls = d2;
    for j in 0..rng.range(0, 3) {
        let q = QName::new(&d0[rng.below(d0.len())].1, &format!("k{}", j));
        if !leaf.attrs.iter().any(|(n, _)| *n == q) {
            leaf.attrs.push((q, "v".into()));
        }
    }
    let mut mid = ANode::elem(name_in(rng, &d1, "mid"));
    mid.decls = d1;
    mid.children = vec![leaf, ANode::elem(name_in(rng, &d0, "sib"))];
    let mut root = ANode::elem(name_in(rng, &d0, "root"));
    root.decls = d0;
    root.children = vec![mid, ANode::text("t")];
    if rng.bool() {
        ANode::doc(vec![root])
    } else {
        root
    }
}

impl Monitor for C09 {
    fn id(&self) -> &'static str {
        "C09"
    }
    fn streams(&self, tier: Tier, budget: f64) -> Vec<Stream> {
        let n = match tier {
            Tier::Quick => 250_000,
            Tier::Thorough => 2_000_000,
        };
        vec![Stream::new("forced-layouts", forced().len() as u64 * 4), Stream::new("random-layouts", scaled(n, budget))]
    }
    fn rule(&self) -> String {
        "trees with arbitrary declaration layouts (0-3 declarations per element from a pool of 5 prefixes + default and 6 namespaces: several prefixes per namespace, a prefix rebound deeper down, shadowing next to unshadowed bindings, default declared / redeclared / undeclared, names with and without usable prefix) ; one tree in twelve declares 17-24 prefixes on one element in random order and redeclares them deeper down in another order) built through the creation API as documents, fragments and parentless subtrees; at EVERY node (elements, attribute nodes, one namespace node per element, leaves) namespaces_in_scope, namespace_for_prefix and is_prefix_defined for 8 prefixes, prefix_for_namespace for 7 namespaces, unresolved_namespaces / inherited_prefixes per element, and node_name_ref / name_ref / full_name of every element and attribute node are compared with a nearest-declaration-wins walk over the abstract tree (inherited_prefixes must also offer a prefixed binding wherever an attribute of the subtree needs one and the parent scope has one). In half of the cases a second phase follows: subtrees are detached or moved and declaration nodes removed directly (not through namespaces_mut), and every query is asked again on the trees as read back by the low-level accessors, so that an answer remembered from the first phase shows. Non-trivial = tree with >= 2 declarations; distinct by structural hash".into()
    }
    fn floors(&self, _tier: Tier) -> Vec<(&'static str, u64)> {
        vec![
            ("in_scope_sets_equal", 50_000),
            ("prefix_for_namespace.some", 20_000),
            ("prefix_for_namespace.none", 20_000),
            ("qualified_name.resolves_back", 20_000),
            ("qualified_name.error_justified", 500),
            ("inherited_prefixes.checked", 10_000),
            ("feature.shadowing", 1_000),
            ("many_prefix_layouts", 2_000),
            ("requeried_after_scope_change", 10_000),
        ]
    }
    fn assumptions(&self) -> Vec<String> {
        vec![
            "no non-empty prefix is bound to the empty URI and the xml prefix is never redeclared".into(),
            "unresolved_namespaces / inherited_prefixes are only required to be consistent with the scope set as pinned down in DESIGN §5 C09".into(),
        ]
    }
    fn run_case(&self, stream: usize, idx: u64, rng: &mut Rng, ctx: &mut Ctx) {
        let a = if stream == 0 {
            let f = forced();
            let t = f[(idx as usize) % f.len()].clone();
            if idx as usize / f.len() % 2 == 0 { t } else { ANode::doc(vec![t]) }
        } else {
            let mut cfg = GenCfg::default();
            cfg.max_nodes = if crate::engine::legs_mode() { 4 } else { *rng.pick(&[4, 10, 25]) };
            cfg.max_depth = *rng.pick(&[3, 5, 8]);
            cfg.ns_mode = if rng.chance(1, 3) { NsMode::Wild } else { NsMode::Consistent };
            cfg.pct_unns_under_default = 2;
            cfg.text = TextProfile::Plain;
            cfg.str_len = 2;
            cfg.fragment = rng.chance(1, 4);
            cfg.max_children = 3;
            if !crate::engine::legs_mode() && rng.chance(1, 12) {
                ctx.count("many_prefix_layouts");
                many_prefix_layout(rng)
            } else if rng.chance(1, 3) {
                gen::gen_element(rng, &cfg)
            } else {
                gen::gen_document(rng, &cfg)
            }
        };
        let mut ndecl = 0;
        let mut shadow = false;
        {
            fn rec(n: &ANode, sc: &mut Scope, ndecl: &mut usize, shadow: &mut bool) {
                if n.kind == AKind::Elem {
                    for (p, u) in &n.decls {
                        *ndecl += 1;
                        if let Some(prev) = sc.lookup(p) {
                            if prev != u {
                                *shadow = true;
                            }
                        }
                    }
                    let k = sc.push_all(&n.decls);
                    for c in &n.children {
                        rec(c, sc, ndecl, shadow);
                    }
                    sc.pop_n(k);
                } else {
                    for c in &n.children {
                        rec(c, sc, ndecl, shadow);
                    }
                }
            }
            rec(&a, &mut Scope::new(), &mut ndecl, &mut shadow);
        }
        if shadow {
            ctx.count("feature.shadowing");
        }
        if ndecl >= 2 {
            ctx.nontrivial(a.structural_hash());
        }
        let mut xot = Xot::new();
        let route = *rng.pick(&ROUTES);
        let style = *rng.pick(&crate::build::STYLES);
        let built = match guard(|| build::build(&mut xot, &a, route, style)) {
            Ok(Ok(h)) => h,
            _ => {
                ctx.count("build_failed");
                return;
            }
        };
        let failed = {
            let mut w = Walk { xot: &mut xot, ctx, root: &a, failed: false };
            let mut scope = Scope::new();
            w.node(&a, &built, &mut scope);
            w.failed
        };
        // second phase: every answer has been asked for once; now change scopes WITHOUT going through namespaces_mut
        // (move or detach subtrees, remove declaration nodes directly) and ask again on the trees as they are now
        if !failed && rng.chance(1, 2) {
            let elems: Vec<Node> = built.flat().into_iter().filter(|n| xot.is_element(*n)).collect();
            let mut roots: Vec<Node> = vec![built.node];
            let mut log: Vec<String> = Vec::new();
            for _ in 0..rng.range(1, 2) {
                if elems.is_empty() {
                    break;
                }
                let e = elems[rng.below(elems.len())];
                match rng.below(3) {
                    0 => {
                        if xot.parent(e).is_some() && guard(|| xot.detach(e)).map(|r| r.is_ok()).unwrap_or(false) {
                            log.push(format!("detach({})", crate::driver::describe(&xot, e)));
                            roots.push(e);
                        }
                    }
                    1 => {
                        let t = elems[rng.below(elems.len())];
                        let inside = t == e || xot.ancestors(t).any(|n| n == e);
                        if !inside && xot.parent(e).is_some() && guard(|| xot.append(t, e)).map(|r| r.is_ok()).unwrap_or(false) {
                            log.push(format!("append({}, {})", crate::driver::describe(&xot, t), crate::driver::describe(&xot, e)));
                        }
                    }
                    _ => {
                        let nss: Vec<Node> = xot.namespaces(e).nodes().collect();
                        if !nss.is_empty() {
                            let n = nss[rng.below(nss.len())];
                            let d = crate::driver::describe(&xot, n);
                            if guard(|| xot.remove(n)).map(|r| r.is_ok()).unwrap_or(false) {
                                log.push(format!("remove({}) on {}", d, crate::driver::describe(&xot, e)));
                            }
                        }
                    }
                }
            }
            if !log.is_empty() {
                for r in roots {
                    if xot.is_removed(r) || xot.parent(r).is_some() {
                        continue;
                    }
                    let sn = match snap::snap(&xot, r) {
                        Ok(s) => s,
                        Err(_) => continue,
                    };
                    let before = ctx.violations_so_far();
                    let mut w = Walk { xot: &mut xot, ctx, root: &sn.tree, failed: false };
                    let mut scope = Scope::new();
                    w.node(&sn.tree, &sn.handles, &mut scope);
                    if ctx.violations_so_far() > before {
                        ctx.annotate_last(&format!("after the scope-changing calls {:?} on a tree whose answers had been asked for before", log));
                        break;
                    }
                }
                ctx.count("requeried_after_scope_change");
            }
        }
        ctx.sample(|| J::obj().set("tree", a.to_json()));
    }
}
