pub mod common;
pub mod c01;
pub mod c03;
pub mod parsing;
pub mod c07;
pub mod c08;
pub mod c09;
pub mod c10;
pub mod c11;
pub mod c12;
pub mod c13;
pub mod c14;
pub mod c18;
pub mod c19;
pub mod c20;
pub mod manip;

use crate::engine::Monitor;

pub fn all() -> Vec<Box<dyn Monitor>> {
    vec![
        Box::new(c01::C01),
        Box::new(parsing::Parsing(parsing::PW::C02)),
        Box::new(c03::C03),
        Box::new(manip::Manip(manip::Which::C04)),
        Box::new(manip::Manip(manip::Which::C05)),
        Box::new(manip::Manip(manip::Which::C06)),
        Box::new(c07::C07),
        Box::new(c08::C08),
        Box::new(c09::C09),
        Box::new(c10::Names(c10::NW::C10)),
        Box::new(c11::C11),
        Box::new(c12::C12),
        Box::new(c13::C13),
        Box::new(c14::Ser(c14::SW::C14)),
        Box::new(c10::Names(c10::NW::C15)),
        Box::new(c14::Ser(c14::SW::C16)),
        Box::new(parsing::Parsing(parsing::PW::C17)),
        Box::new(c18::C18),
        Box::new(c19::C19),
        Box::new(c20::C20),
    ]
}
