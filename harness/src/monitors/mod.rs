pub mod common;
pub mod c01;
pub mod manip;

use crate::engine::Monitor;

pub fn all() -> Vec<Box<dyn Monitor>> {
    vec![
        Box::new(c01::C01),
        Box::new(manip::Manip(manip::Which::C04)),
        Box::new(manip::Manip(manip::Which::C05)),
        Box::new(manip::Manip(manip::Which::C06)),
    ]
}
