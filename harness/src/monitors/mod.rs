pub mod common;
pub mod c01;

use crate::engine::Monitor;

pub fn all() -> Vec<Box<dyn Monitor>> {
    vec![Box::new(c01::C01)]
}
