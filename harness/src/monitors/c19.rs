//! C19 — HTML5 serialisation follows the HTML rules and never panics.

use super::common::*;
use crate::adoc::*;
use crate::build::{self, AttrStyle, Route};
use crate::engine::{guard, Ctx, Monitor, Stream, Tier};
use crate::gen::{self, hostile_string, plain_string};
use crate::htmltok::{self, HTok};
use crate::json::J;
use crate::rng::Rng;
use crate::snap::HTree;
use xot::output::html5::Parameters;
use xot::output::Indentation;
use xot::{Node, Xot};

pub struct C19;

const VOID_JUDGED: &[&str] = &["area", "base", "br", "col", "embed", "hr", "img", "input", "link", "meta", "source", "track", "wbr"];
const VOID_LEGACY: &[&str] = &["keygen", "param", "basefont", "frame", "isindex", "command"];
const HTML_NAMES: &[&str] = &[
    "html", "head", "title", "body", "div", "p", "span", "a", "em", "B", "ul", "li", "table", "tr", "td", "pre", "textarea", "br", "BR", "img", "hr", "input", "meta",
    "Link", "foo", "x-y", "section", "Div", "param", "h1", "option", "select", "xmp", "iframe", "noembed", "noframes", "plaintext", "noscript", "listing", "template",
];
const MATH_NAMES: &[&str] = &["math", "mi", "mrow", "mo"];
const SVG_NAMES: &[&str] = &["svg", "g", "circle", "path"];

#[derive(Clone, Copy, PartialEq, Eq, Debug)]
enum NsClass {
    Html,
    Xhtml,
    MathSvg,
    Foreign,
}

fn class_of(q: &QName) -> NsClass {
    if q.ns.is_empty() {
        NsClass::Html
    } else if q.ns == XHTML_NS {
        NsClass::Xhtml
    } else if q.ns == MATHML_NS || q.ns == SVG_NS {
        NsClass::MathSvg
    } else {
        NsClass::Foreign
    }
}

struct Gen<'a> {
    rng: &'a mut Rng,
    budget: usize,
    xhtml_share: bool,
    /// the foreign namespace of this tree: plain, or one whose URI needs escaping inside an attribute value
    foreign_ns: &'static str,
}

impl<'a> Gen<'a> {
    fn text(&mut self) -> String {
        if self.rng.chance(1, 3) {
            plain_string(self.rng, 1, 5)
        } else {
            let mut s = hostile_string(self.rng, 1, 6, true);
            if self.rng.chance(1, 4) {
                s.push_str(*self.rng.pick(&["a<b", "x & y", "\"q\"", "1<2>3", "&amp;", "<script>", "\u{a0}", "]]>", "a\u{226e}b", "\u{ff1c}b\u{ff06}", "\u{fb01}n", "\u{3060}a<", "\u{2020}&", "x\u{20a0}", "\u{10a0}\u{a0}"]));
            }
            s
        }
    }
    fn attrs(&mut self, e: &mut ANode, foreign_prefix_ns: Option<&str>) {
        let n = self.rng.pick_weighted(&[4, 4, 2, 1]);
        for _ in 0..n {
            let name = if self.rng.chance(1, 40) { *self.rng.pick(&["chec\u{212a}ed", "di\u{17f}abled", "\u{17f}elected"]) } else { *self.rng.pick(&["id", "class", "href", "selected", "checked", "DISABLED", "title", "data-x"]) };
            let q = if let (Some(ns), true) = (foreign_prefix_ns, self.rng.chance(1, 6)) { QName::new(ns, name) } else { QName::plain(name) };
            if e.attrs.iter().any(|(x, _)| *x == q) {
                continue;
            }
            let v = match self.rng.below(5) {
                0 => name.to_string(),
                1 => name.to_ascii_uppercase(),
                2 => plain_string(self.rng, 0, 4),
                _ => {
                    let mut s = hostile_string(self.rng, 0, 5, true);
                    if self.rng.chance(1, 3) {
                        s.push_str(*self.rng.pick(&["\"", "a\"b", "&", "x&y", "'", "<", "\u{a0}", "a &{b}; c", "?q=1&{lang}", "&{"]));
                    }
                    s
                }
            };
            e.attrs.push((q, v));
        }
    }
    /// `scope_default`: default namespace in scope; `prefixes`: declared (prefix, uri)
    fn element(&mut self, depth: usize, scope: &mut gen::Scope) -> ANode {
        self.budget = self.budget.saturating_sub(1);
        let kind = self.rng.pick_weighted(&[12, if self.xhtml_share { 6 } else { 0 }, 2, 3, 2]);
        // HTML names in lower, upper, capitalised and random letter case; every void name is in the pool
        let mut html_name = |rng: &mut Rng| -> String {
            let base: &str = if rng.chance(1, 3) { *rng.pick(VOID_JUDGED) } else if rng.chance(1, 12) { *rng.pick(VOID_LEGACY) } else { *rng.pick(HTML_NAMES) };
            if rng.chance(1, 40) {
                // look-alikes: names that only become a void / raw-text name under Unicode (not ASCII) case folding -
                // U+212A KELVIN SIGN lowercases to "k", U+017F LONG S uppercases to "S". HTML matches names ASCII
                // case-insensitively, so these are ordinary elements
                return rng.pick(&["lin\u{212a}", "trac\u{212a}", "\u{212a}eygen", "LIN\u{212a}", "\u{17f}ource", "ba\u{17f}e", "\u{17f}cript", "\u{17f}tyle", "\u{17f}CRIPT"]).to_string();
            }
            match rng.below(5) {
                0 | 1 => base.to_string(),
                2 => base.to_ascii_uppercase(),
                3 => {
                    let mut c = base.chars();
                    match c.next() {
                        Some(f) => f.to_ascii_uppercase().to_string() + c.as_str(),
                        None => String::new(),
                    }
                }
                _ => base.chars().map(|ch| if rng.bool() { ch.to_ascii_uppercase() } else { ch.to_ascii_lowercase() }).collect(),
            }
        };
        let (ns, local): (String, String) = match kind {
            0 => (String::new(), html_name(self.rng)),
            1 => (XHTML_NS.to_string(), html_name(self.rng)),
            2 => (MATHML_NS.to_string(), self.rng.pick(MATH_NAMES).to_string()),
            3 => (SVG_NS.to_string(), self.rng.pick(SVG_NAMES).to_string()),
            _ => (self.foreign_ns.to_string(), self.rng.pick(&["island", "x", "item"]).to_string()),
        };
        let mut e = ANode::elem(QName::new(&ns, &local));
        // declarations: none / default / prefixed for the element's namespace; sometimes an alias on top
        if !ns.is_empty() {
            match self.rng.below(4) {
                0 => {}
                1 => e.decls.push((String::new(), ns.clone())),
                _ => {
                    let p = match ns.as_str() {
                        XHTML_NS => "h",
                        MATHML_NS => "m",
                        SVG_NS => "s",
                        _ => "p",
                    };
                    if scope.lookup(p) != Some(ns.as_str()) || self.rng.bool() {
                        e.decls.push((p.to_string(), ns.clone()));
                    }
                }
            }
        } else if scope.lookup("").is_some() {
            // a no-namespace element under a default namespace: undeclare (the F29 trigger is not C19's business)
            e.decls.push((String::new(), String::new()));
        }
        if self.rng.chance(1, 8) && scope.lookup("p").is_none() {
            e.decls.push(("p".to_string(), self.foreign_ns.to_string()));
        }
        // a default declaration for ANOTHER of the HTML-family namespaces on an element that is written with a
        // prefix: it is of no use to the element itself, only to what is below it
        if !ns.is_empty() && self.rng.chance(1, 8) && !e.decls.iter().any(|(p, _)| p.is_empty()) {
            let own_prefixed = e.decls.iter().any(|(p, u)| !p.is_empty() && *u == ns) || !scope.prefixes_for(&ns, false).is_empty();
            if own_prefixed {
                let others: Vec<&str> = [SVG_NS, MATHML_NS, XHTML_NS].into_iter().filter(|u| *u != ns).collect();
                e.decls.push((String::new(), self.rng.pick(&others).to_string()));
            }
        }
        let pushed = scope.push_all(&e.decls);
        let fns = self.foreign_ns;
        let fp = scope.prefixes_for(fns, false).first().map(|_| fns);
        self.attrs(&mut e, fp);
        let lower = local.to_ascii_lowercase();
        let is_raw = ns.is_empty() && (lower == "script" || lower == "style");
        // void elements have no content
        let is_void = matches!(class_of(&e.name), NsClass::Html | NsClass::Xhtml) && (VOID_JUDGED.contains(&lower.as_str()) || VOID_LEGACY.contains(&lower.as_str()));
        if is_void && self.rng.chance(1, 4) {
            // a void element that nevertheless has content (the API allows it): still no end tag. Only comments, so
            // that the text of the void element cannot run into the text after it in the output
            for _ in 0..self.rng.range(1, 2) {
                e.children.push(ANode::comment(&plain_string(self.rng, 0, 3)));
            }
        }
        if depth < 5 && self.budget > 0 && !is_void {
            let n = self.rng.pick_weighted(&[3, 4, 3, 2, 1]);
            for _ in 0..n {
                if self.budget == 0 {
                    break;
                }
                let prev_text = e.children.last().map(|c: &ANode| c.is_text()).unwrap_or(false);
                match self.rng.pick_weighted(&[6, if prev_text { 0 } else { 5 }, 1, 1]) {
                    0 => {
                        let c = self.element(depth + 1, scope);
                        e.children.push(c);
                    }
                    1 => {
                        self.budget = self.budget.saturating_sub(1);
                        let t = if is_raw { plain_string(self.rng, 1, 5) } else { self.text() };
                        e.children.push(ANode::text(&t));
                    }
                    2 => {
                        self.budget = self.budget.saturating_sub(1);
                        e.children.push(ANode::comment(&plain_string(self.rng, 0, 4)));
                    }
                    _ => {
                        self.budget = self.budget.saturating_sub(1);
                        let d = match self.rng.below(5) {
                            0 => None,
                            1 => Some("a>b".to_string()),
                            // no '>' in it - unless a normalizer makes one of these characters
                            4 => Some(self.rng.pick(&["a\u{ff1e}b", "x \u{226f} y"]).to_string()),
                            _ => Some(plain_string(self.rng, 1, 4)),
                        };
                        let mut pi = ANode::pi("pi", d.as_deref());
                        if self.rng.chance(1, 25) {
                            // a target in a namespace cannot be written at all: whatever the call does, it returns
                            pi.name.ns = "urn:pi-target-namespace".to_string();
                        }
                        e.children.push(pi);
                    }
                }
            }
        }
        scope.pop_n(pushed);
        e
    }
}

#[derive(Debug)]
struct Fail {
    clause: &'static str,
    cause: String,
    what: String,
}

fn fail(clause: &'static str, cause: &str, what: String) -> Fail {
    Fail { clause, cause: cause.to_string(), what }
}

struct Al<'a> {
    toks: &'a [HTok],
    i: usize,
    defaults: Vec<String>,
    indent: bool,
    cdata: &'a [QName],
}

fn strip_ws(s: &str) -> String {
    s.chars().filter(|c| !matches!(c, ' ' | '\n' | '\t' | '\r')).collect()
}

impl<'a> Al<'a> {
    fn skip_ws_text(&mut self) {
        while self.indent {
            match self.toks.get(self.i) {
                Some(HTok::Text(t)) if t.chars().all(|c| c == ' ' || c == '\n') => self.i += 1,
                _ => break,
            }
        }
    }

    fn children(&mut self, n: &ANode) -> Result<(), Fail> {
        let mut k = 0;
        while k < n.children.len() {
            let c = &n.children[k];
            if c.kind == AKind::Text {
                // run of text nodes
                let mut want = String::new();
                while k < n.children.len() && n.children[k].kind == AKind::Text {
                    want.push_str(&n.children[k].text);
                    k += 1;
                }
                self.text_run(n, &want)?;
            } else {
                self.node(c)?;
                k += 1;
            }
        }
        Ok(())
    }

    fn text_run(&mut self, parent: &ANode, want: &str) -> Result<(), Fail> {
        let pclass = class_of(&parent.name);
        let lower = parent.name.local.to_ascii_lowercase();
        let raw_ok = parent.kind == AKind::Elem && matches!(pclass, NsClass::Html | NsClass::Xhtml) && (lower == "script" || lower == "style");
        let cdata_ok = parent.kind == AKind::Elem && self.cdata.contains(&parent.name);
        let mut got = String::new();
        loop {
            match self.toks.get(self.i) {
                Some(HTok::Text(t)) => {
                    if raw_ok {
                        got.push_str(t);
                    } else {
                        match htmltok::decode_refs(t) {
                            Ok(d) => got.push_str(&d),
                            Err(e) => return Err(fail("raw-amp-from-text", &format!("{:?}", pclass), format!("text {:?} under <{}>: {}", t, parent.name.clark(), e))),
                        }
                    }
                    self.i += 1;
                }
                Some(HTok::RawText(t)) => {
                    if !raw_ok {
                        return Err(fail("sequence-mismatch", "raw-text-outside-script-style", format!("raw text {:?} under <{}>", t, parent.name.clark())));
                    }
                    got.push_str(t);
                    self.i += 1;
                }
                Some(HTok::Cdata(t)) => {
                    if !cdata_ok {
                        return Err(fail("cdata-section-not-requested", &format!("{:?}", pclass), format!("CDATA section {:?} under <{}> which is not a requested CDATA-section element", t, parent.name.clark())));
                    }
                    got.push_str(t);
                    self.i += 1;
                }
                _ => break,
            }
        }
        let same = if self.indent { strip_ws(&got) == strip_ws(want) } else { got == want };
        if !same {
            let next = self.toks.get(self.i);
            let clause = if want.contains('<') && matches!(next, Some(HTok::Start { .. }) | Some(HTok::End { .. })) { "raw-lt-from-text" } else { "text-differs" };
            return Err(fail(clause, &format!("{:?}", pclass), format!("text under <{}>: output decodes to {:?}, the tree has {:?}; next token {:?}", parent.name.clark(), got, want, next)));
        }
        Ok(())
    }

    fn node(&mut self, n: &ANode) -> Result<(), Fail> {
        self.skip_ws_text();
        match n.kind {
            AKind::Doc => self.children(n),
            AKind::Text => Ok(()), // handled by text_run
            AKind::Comment => match self.toks.get(self.i) {
                Some(HTok::Comment(c)) if *c == n.text => {
                    self.i += 1;
                    Ok(())
                }
                other => Err(fail("sequence-mismatch", "comment", format!("expected comment {:?}, found {:?}", n.text, other))),
            },
            AKind::Pi => {
                let want = match &n.data {
                    Some(d) => format!("{} {}", n.name.local, d),
                    None => n.name.local.clone(),
                };
                match self.toks.get(self.i) {
                    Some(HTok::Pi(p)) if *p == want => {
                        self.i += 1;
                        Ok(())
                    }
                    other => Err(fail("sequence-mismatch", "processing-instruction", format!("expected <?{}>, found {:?}", want, other))),
                }
            }
            AKind::Elem => self.element(n),
        }
    }

    fn element(&mut self, n: &ANode) -> Result<(), Fail> {
        let class = class_of(&n.name);
        let cname = format!("{:?}", class);
        let (name, attrs, self_closing) = match self.toks.get(self.i) {
            Some(HTok::Start { name, attrs, self_closing }) => (name.clone(), attrs.clone(), *self_closing),
            other => {
                return Err(fail("sequence-mismatch", &cname, format!("expected the start tag of <{}>, found {:?}", n.name.clark(), other)));
            }
        };
        self.i += 1;
        let tok_local = name.rsplit(':').next().unwrap_or("").to_string();
        if tok_local != n.name.local {
            return Err(fail("sequence-mismatch", &cname, format!("start tag <{}> where element {} is expected", name, n.name.clark())));
        }
        let prefixed = name.contains(':');
        match class {
            NsClass::Html | NsClass::Xhtml => {
                if prefixed {
                    return Err(fail("html-element-written-with-prefix", &cname, format!("element {} written as <{}>", n.name.clark(), name)));
                }
                if self_closing {
                    return Err(fail("html-element-self-closed", &cname, format!("<{}/>", name)));
                }
            }
            NsClass::MathSvg => {
                if prefixed {
                    return Err(fail("mathml-svg-element-written-with-prefix", &cname, format!("element {} written as <{}>", n.name.clark(), name)));
                }
            }
            NsClass::Foreign => {}
        }
        // attributes
        let mut new_default = self.defaults.last().cloned().unwrap_or_default();
        let mut plain_attrs: Vec<(String, Option<String>)> = Vec::new();
        for (an, av) in &attrs {
            if let Some(v) = av {
                if htmltok::decode_refs(v).is_err() {
                    return Err(fail("raw-amp-in-attribute-value", &cname, format!("{}={:?} on <{}>", an, v, name)));
                }
            }
            if an == "xmlns" {
                new_default = av.as_ref().and_then(|v| htmltok::decode_refs(v).ok()).unwrap_or_default();
            } else if an.starts_with("xmlns:") {
            } else {
                plain_attrs.push((an.clone(), av.clone()));
            }
        }
        if plain_attrs.len() != n.attrs.len() {
            return Err(fail(
                "attribute-list-mismatch",
                &cname,
                format!("<{}> carries attributes {:?}, the element has {:?} (a raw '\"' inside a value ends it early)", name, plain_attrs, n.attrs.iter().map(|(q, v)| format!("{}={:?}", q.clark(), v)).collect::<Vec<_>>()),
            ));
        }
        for ((an, av), (q, v)) in plain_attrs.iter().zip(n.attrs.iter()) {
            if an.rsplit(':').next() != Some(q.local.as_str()) {
                return Err(fail("attribute-list-mismatch", &cname, format!("attribute {:?} where {} is expected", an, q.clark())));
            }
            match av {
                Some(raw) => {
                    let d = htmltok::decode_refs(raw).unwrap_or_default();
                    if d != *v {
                        return Err(fail("attribute-value-differs", &cname, format!("{}: output {:?} decodes to {:?}, the value is {:?}", an, raw, d, v)));
                    }
                }
                None => {
                    // an attribute written without a value: HTML reads the empty string; xot also minimises an attribute
                    // whose value repeats its name (not judged, see assumptions)
                    if !v.is_empty() && !v.eq_ignore_ascii_case(&q.local) {
                        return Err(fail("attribute-value-differs", &cname, format!("{} minimised although its value is {:?}", an, v)));
                    }
                }
            }
        }
        if class == NsClass::MathSvg && new_default != n.name.ns {
            return Err(fail(
                "mathml-svg-outside-default-namespace-declaration",
                &cname,
                format!("<{}> for element {} is written where the default namespace in the output is {:?}", name, n.name.clark(), new_default),
            ));
        }
        self.defaults.push(new_default);
        if !self_closing {
            self.children(n)?;
        } else if !n.children.is_empty() {
            return Err(fail("sequence-mismatch", &cname, format!("<{}/> self-closed although the element has children", name)));
        }
        self.defaults.pop();
        self.skip_ws_text();
        let lower = n.name.local.to_ascii_lowercase();
        let has_end = matches!(self.toks.get(self.i), Some(HTok::End { name: en }) if *en == name);
        match class {
            NsClass::Html | NsClass::Xhtml => {
                if VOID_JUDGED.contains(&lower.as_str()) {
                    if has_end {
                        return Err(fail("void-element-with-end-tag", &cname, format!("</{}>", name)));
                    }
                } else if VOID_LEGACY.contains(&lower.as_str()) {
                    if has_end {
                        self.i += 1;
                    }
                } else {
                    if !has_end {
                        return Err(fail("html-element-without-end-tag", &cname, format!("no </{}>; next token {:?}", name, self.toks.get(self.i))));
                    }
                    self.i += 1;
                }
            }
            _ => {
                if !self_closing {
                    if !has_end {
                        return Err(fail("sequence-mismatch", &cname, format!("no </{}>; next token {:?}", name, self.toks.get(self.i))));
                    }
                    self.i += 1;
                }
            }
        }
        Ok(())
    }
}

fn has_pi_with_gt(n: &ANode) -> bool {
    let mut h = false;
    n.walk(&mut |x| {
        if x.kind == AKind::Pi && x.data.as_deref().map(|d| d.contains('>')).unwrap_or(false) {
            h = true
        }
    });
    h
}

fn has_real_xhtml(n: &ANode) -> bool {
    let mut h = false;
    n.walk(&mut |x| {
        if x.kind == AKind::Elem && x.name.ns == XHTML_NS {
            h = true
        }
    });
    h
}

fn sub_anode<'a>(a: &'a ANode, h: &HTree, target: Node) -> Option<&'a ANode> {
    if h.node == target {
        return Some(a);
    }
    for (c, hc) in a.children.iter().zip(h.children.iter()) {
        if let Some(x) = sub_anode(c, hc, target) {
            return Some(x);
        }
    }
    None
}

impl C19 {
    fn run_tree(&self, rng: &mut Rng, ctx: &mut Ctx, a: &ANode, detached_leaf: Option<usize>) {
        let mut xot = Xot::new();
        xot.set_text_consolidation(false);
        let built = match guard(|| build::build(&mut xot, a, Route::TopDown, AttrStyle::Map)) {
            Ok(Ok(h)) => h,
            _ => {
                ctx.count("build_failed");
                return;
            }
        };
        // target
        let flat = built.flat();
        let (target, sub, kind): (Node, Option<ANode>, String) = match detached_leaf {
            Some(0) => {
                let t = xot.new_text(&hostile_string(rng, 0, 5, true));
                (t, None, "detached-text".into())
            }
            Some(1) => (xot.new_comment("c"), None, "detached-comment".into()),
            Some(2) => {
                let n = xot.add_name("pi");
                if rng.bool() {
                    (xot.new_processing_instruction(n, Some("d")), None, "detached-pi".into())
                } else {
                    // the serialised node is itself a PI whose data holds '>': to be refused like anywhere else
                    (xot.new_processing_instruction(n, Some("a > b")), None, "detached-pi-with-gt".into())
                }
            }
            Some(3) => {
                let n = xot.add_name("k");
                (xot.new_attribute_node(n, "a\"b&c".to_string()), None, "detached-attribute-node".into())
            }
            Some(4) => {
                let p = xot.add_prefix("p");
                let n = xot.add_namespace("urn:A");
                (xot.new_namespace_node(p, n), None, "detached-namespace-node".into())
            }
            Some(5) => (xot.new_document(), None, "empty-document".into()),
            Some(_) => {
                // an attached leaf of the tree
                let leaves: Vec<Node> = flat.iter().copied().filter(|n| !xot.is_element(*n) && !xot.is_document(*n)).collect();
                if leaves.is_empty() {
                    return;
                }
                (leaves[rng.below(leaves.len())], None, "attached-leaf".into())
            }
            None => {
                let elems: Vec<Node> = flat.iter().copied().filter(|n| xot.is_element(*n)).collect();
                let t = if !elems.is_empty() && rng.chance(1, 4) { elems[rng.below(elems.len())] } else { built.node };
                let s = sub_anode(a, &built, t).cloned();
                let k = match &s {
                    Some(s) if s.kind == AKind::Doc => {
                        if gen::is_wf_document(s) { "document" } else { "fragment" }
                    }
                    _ => "element",
                };
                (t, s, k.to_string())
            }
        };
        // parameters
        let names: Vec<QName> = {
            let mut v: Vec<QName> = Vec::new();
            a.walk(&mut |n| {
                if n.kind == AKind::Elem && !v.contains(&n.name) {
                    v.push(n.name.clone());
                }
            });
            v
        };
        let pick_ids = |xot: &mut Xot, rng: &mut Rng, only_foreign: bool| -> (Vec<QName>, Vec<xot::NameId>) {
            let qs: Vec<QName> = names.iter().filter(|q| rng.chance(1, 4) && (!only_foreign || class_of(q) != NsClass::Html)).cloned().collect();
            let ids = qs
                .iter()
                .map(|q| {
                    let ns = xot.add_namespace(&q.ns);
                    xot.add_name_ns(&q.local, ns)
                })
                .collect();
            (qs, ids)
        };
        let indent = rng.chance(1, 3);
        let (suppress_q, suppress_ids) = if indent { pick_ids(&mut xot, rng, false) } else { (vec![], vec![]) };
        let (cdata_q, cdata_ids) = if rng.chance(1, 3) { pick_ids(&mut xot, rng, false) } else { (vec![], vec![]) };
        let params = Parameters { indentation: if indent { Some(Indentation { suppress: suppress_ids }) } else { None }, cdata_section_elements: cdata_ids };
        let pdesc = format!("indentation={} suppress={:?} cdata_section_elements={:?}", indent, suppress_q.iter().map(|q| q.clark()).collect::<Vec<_>>(), cdata_q.iter().map(|q| q.clark()).collect::<Vec<_>>());
        let base = |what: String, out: &str| {
            J::obj()
                .set("tree", a.to_json())
                .set("serialised_node", J::s(kind.clone()))
                .set("parameters", J::s(pdesc.clone()))
                .set("output", J::s(trunc(out, 1200)))
                .set("what", J::s(what))
        };
        // entry points: string / Write based, with and without a normalizer that really changes text
        let entry = rng.below(6);
        let with_norm = entry >= 4;
        let plain_params = !indent && cdata_q.is_empty();
        let from_bytes = |r: Result<(), xot::Error>, v: Vec<u8>| r.map(|_| String::from_utf8_lossy(&v).into_owned());
        // one Html5 value may serve several calls: a call that FAILED half-way must leave nothing behind in it
        let bad_pi = {
            let n = xot.add_name("zzbad");
            xot.new_processing_instruction(n, Some("x > y"))
        };
        let chunk = if rng.bool() { usize::MAX } else { 1 + rng.below(9) };
        let reuse_after_failure = rng.chance(1, 4);
        if reuse_after_failure {
            ctx.count("html5_value_reused_after_a_failed_call");
        }
        let r = guard(|| {
            let h = xot.html5();
            if reuse_after_failure {
                let _ = h.to_string(bad_pi);
                let _ = h.serialize_string(params.clone(), bad_pi);
                let mut sink = Vec::new();
                let _ = h.write(bad_pi, &mut sink);
            }
            match entry {
                0 if plain_params => h.to_string(target),
                // (the writers take only a few bytes per call in every other case)
                1 if plain_params => {
                    let mut v = ChunkWriter::new(chunk);
                    let r = h.write(target, &mut v);
                    from_bytes(r, v.buf)
                }
                2 => {
                    let mut v = ChunkWriter::new(chunk);
                    let r = h.serialize_write(params.clone(), target, &mut v);
                    from_bytes(r, v.buf)
                }
                4 => h.serialize_string_with_normalizer(params.clone(), target, TestNormalizer),
                5 => {
                    let mut v = ChunkWriter::new(chunk);
                    let r = h.serialize_write_with_normalizer(params.clone(), target, &mut v, TestNormalizer);
                    from_bytes(r, v.buf)
                }
                _ => h.serialize_string(params.clone(), target),
            }
        });
        ctx.count(&format!("entry_point.{}", ["to_string", "write", "serialize_write", "serialize_string", "serialize_string_with_normalizer", "serialize_write_with_normalizer"][entry]));
        // what the tree looks like to a reader of the output
        let sub = if with_norm { sub.map(|s| normalize_tree(&s)) } else { sub };
        ctx.count(&format!("serialised.{}", kind));
        let out = match r {
            Err(p) => {
                ctx.violation("HTML5 serialisation panicked", format!("C19/panic/{}/{}", kind, p.sig()), base(p.short(), ""));
                return;
            }
            Ok(Err(e)) => {
                ctx.count(&format!("refused.{}", err_variant(&e)));
                return;
            }
            Ok(Ok(s)) => s,
        };
        ctx.count("outputs_ok");
        // the same call into a writer that runs out of room after part of the output: it "returns a result without
        // panicking" - and the result cannot be Ok, the output did not fit
        if out.len() >= 2 && rng.chance(1, 6) {
            let room = rng.below(out.len() - 1);
            let r = guard(|| {
                let h = xot.html5();
                let mut fw = FailingWriter::new(room);
                let r = if with_norm {
                    h.serialize_write_with_normalizer(params.clone(), target, &mut fw, TestNormalizer)
                } else if plain_params && rng.bool() {
                    h.write(target, &mut fw)
                } else {
                    h.serialize_write(params.clone(), target, &mut fw)
                };
                (r.is_ok(), fw.failures)
            });
            match r {
                Ok((false, _)) => ctx.count("failing_writer_reported_as_error"),
                Ok((true, failures)) => {
                    ctx.violation(
                        "the writer failed and the call returned Ok",
                        "C19/failing-writer/reported-ok".to_string(),
                        base(format!("the writer had room for {} of {} bytes and failed {} calls", room, out.len(), failures), &out),
                    );
                    return;
                }
                Err(p) => {
                    ctx.violation(
                        "HTML5 serialisation panicked when its writer failed",
                        format!("C19/panic/failing-writer/{}", p.sig()),
                        base(format!("the writer had room for {} of {} bytes; {}", room, out.len(), p.short()), &out),
                    );
                    return;
                }
            }
        }
        if kind == "detached-pi-with-gt" {
            ctx.violation(
                "a processing instruction containing '>' was emitted instead of refused",
                "C19/pi-with-gt-emitted/as-the-serialised-node".to_string(),
                base(String::new(), &out),
            );
            return;
        }
        if !out.starts_with("<!DOCTYPE html>") {
            ctx.violation("output does not start with the HTML doctype", format!("C19/no-doctype/{}", kind), base(String::new(), &out));
            return;
        }
        let sub = match sub {
            Some(s) => s,
            None => {
                // single leaves: totality and doctype; for a text node - unless it sits in script / style or in a requested
                // CDATA-section element - also the escaping rule: '<' and '&' from text never appear raw
                if xot.is_text(target) {
                    let raw_allowed = xot.parent(target).map_or(false, |p| {
                        xot.element(p).map_or(false, |e| {
                            let (l, u) = xot.name_ns_str(e.name());
                            let html = u.is_empty() || u == XHTML_NS;
                            (html && (l.eq_ignore_ascii_case("script") || l.eq_ignore_ascii_case("style"))) || cdata_q.iter().any(|q| q.local == l && q.ns == u)
                        })
                    });
                    if !raw_allowed {
                        let body = &out["<!DOCTYPE html>".len()..];
                        let bytes = body.as_bytes();
                        let mut bad: Option<&str> = None;
                        for (i, c) in body.char_indices() {
                            if c == '<' {
                                bad = Some("raw-lt-from-text");
                                break;
                            }
                            if c == '&' {
                                let rest = &body[i + 1..];
                                let end = rest.find(';');
                                let ok = end.map_or(false, |e| e > 0 && e <= 10 && rest[..e].chars().all(|x| x.is_ascii_alphanumeric() || x == '#'));
                                if !ok {
                                    bad = Some("raw-amp-from-text");
                                    break;
                                }
                            }
                        }
                        let _ = bytes;
                        if let Some(b) = bad {
                            ctx.violation(
                                "a text node serialised on its own comes out with a raw '<' or '&'",
                                format!("C19/{}/single-text-node/{}", b, kind),
                                base(format!("text {:?}", xot.text_str(target).unwrap_or("")), &out),
                            );
                            return;
                        }
                        ctx.count("single_text_nodes_escaped");
                    }
                }
                return;
            }
        };
        {
            let mut ns_pi = false;
            sub.walk(&mut |x| {
                if x.kind == AKind::Pi && !x.name.ns.is_empty() {
                    ns_pi = true
                }
            });
            if ns_pi {
                // the statement says nothing about such a target beyond "returns without panicking"
                ctx.count("outputs_with_namespaced_pi_target_not_judged");
                return;
            }
        }
        if has_pi_with_gt(&sub) {
            ctx.violation(
                "a processing instruction containing '>' was emitted instead of refused",
                "C19/pi-with-gt-emitted".to_string(),
                base(String::new(), &out),
            );
            return;
        }
        let body = &out["<!DOCTYPE html>".len()..];
        let toks = match htmltok::tokenize(body) {
            Ok(t) => t,
            Err(e) => {
                let cause = if has_real_xhtml(&sub) { "tree-has-real-xhtml-namespace-elements" } else { "html" };
                ctx.violation("output cannot be tokenised as HTML", format!("C19/untokenisable/{}", cause), base(e, &out));
                return;
            }
        };
        let mut al = Al { toks: &toks, i: 0, defaults: vec![String::new()], indent, cdata: &cdata_q };
        let res = al.node(&sub).and_then(|_| {
            al.skip_ws_text();
            if al.i != toks.len() {
                Err(fail("sequence-mismatch", "trailing-tokens", format!("{} tokens left over, first {:?}", toks.len() - al.i, toks.get(al.i))))
            } else {
                Ok(())
            }
        });
        match res {
            Ok(()) => {
                ctx.count("outputs_aligned_with_tree");
                if indent {
                    ctx.count("outputs_aligned.indented");
                }
            }
            Err(f) => {
                ctx.violation(
                    "HTML output breaks a rule of the HTML output method",
                    format!("C19/{}/{}", f.clause, f.cause),
                    base(f.what, &out),
                );
                return;
            }
        }
        ctx.sample(|| J::obj().set("tree", sub.to_json()).set("parameters", J::s(pdesc.clone())).set("output", J::s(trunc(&out, 400))));
    }
}

fn forced() -> Vec<ANode> {
    let e = |ns: &str, n: &str| ANode::elem(QName::new(ns, n));
    vec![
        // real XHTML namespace, prefixed and default, with a void element (F39)
        e(XHTML_NS, "html").with_decl("h", XHTML_NS).with_children(vec![e(XHTML_NS, "body").with_children(vec![e(XHTML_NS, "br"), e(XHTML_NS, "p").with_children(vec![ANode::text("x")])])]),
        e(XHTML_NS, "html").with_decl("", XHTML_NS).with_children(vec![e(XHTML_NS, "br")]),
        // two sibling svg elements (F41), nested math
        e("", "body").with_children(vec![e(SVG_NS, "svg").with_children(vec![e(SVG_NS, "g")]), e(SVG_NS, "svg"), e(MATHML_NS, "math").with_children(vec![e(MATHML_NS, "mi").with_children(vec![ANode::text("x")])])]),
        e("", "body").with_decl("s", SVG_NS).with_children(vec![e(SVG_NS, "svg"), e("", "p"), e(SVG_NS, "svg").with_children(vec![e(SVG_NS, "circle")])]),
        // text directly under the document / fragment (F40)
        ANode::doc(vec![ANode::text("top < & text"), e("", "p"), ANode::text("tail")]),
        // escaping
        e("", "p").with_attr(QName::plain("title"), "a\"b&c'd<e").with_children(vec![ANode::text("1<2 & 3>2 \u{a0}")]),
        e("", "script").with_children(vec![ANode::text("if (a < b && c) {}")]),
        e("", "div").with_children(vec![ANode::pi("pi", Some("a>b"))]),
        e("", "BR"),
        e("", "Img").with_attr(QName::plain("alt"), "x"),
    ]
}

impl Monitor for C19 {
    fn id(&self) -> &'static str {
        "C19"
    }
    fn hang_is_violation(&self) -> bool {
        true
    }
    fn streams(&self, tier: Tier, budget: f64) -> Vec<Stream> {
        let n = match tier {
            Tier::Quick => 400_000,
            Tier::Thorough => 2_500_000,
        };
        vec![Stream::new("forced", forced().len() as u64 * 3), Stream::new("single-nodes", 600), Stream::new("html-trees", scaled(n, budget))]
    }
    fn rule(&self) -> String {
        "trees (one in ten wrapped in 15-130 levels of block elements) mixing HTML element names in lower / upper / mixed case (void, phrasing, formatted, the HTML parser's raw-text / escapable names such as xmp, iframe, noembed, noframes, plaintext, noscript, unknown) in no namespace, the real XHTML namespace (default and prefixed; ~15 % of the trees), MathML, SVG (several siblings, nesting, declared as default / under a prefix / not at all) and a foreign namespace; hostile text and attribute content; text directly under a document; fragments; every kind of single detached node; with and without indentation, suppress list and CDATA-section elements. Every call under catch_unwind + watchdog; Ok output must start with the doctype and is read by an independent HTML tokenizer that is aligned with the tree: unprefixed / never self-closed / end tag unless void (HTML), unprefixed under an xmlns declaration (MathML, SVG), text decodes back (raw '<' or '&' only in script / style / requested CDATA), attribute values decode back (no raw '\"' or '&'), PI with '>' refused. Non-trivial = tree with >= 3 nodes; distinct by structural hash".into()
    }
    fn floors(&self, _tier: Tier) -> Vec<(&'static str, u64)> {
        vec![("outputs_ok", 20_000), ("outputs_aligned_with_tree", 10_000), ("outputs_aligned.indented", 2_000), ("serialised.fragment", 500), ("serialised.detached-text", 50), ("refused.ProcessingInstructionGtInHtml", 500), ("deep_chain_trees", 1_000)]
    }
    fn assumptions(&self) -> Vec<String> {
        vec![
            "void check uses the intersection of the living-standard void list and xot's list; suppress matching, boolean-attribute minimisation and &nbsp; substitution are not judged".into(),
            "with indentation text is compared modulo XML white space".into(),
        ]
    }
    fn run_case(&self, stream: usize, idx: u64, rng: &mut Rng, ctx: &mut Ctx) {
        match stream {
            0 => {
                let f = forced();
                let a = f[(idx as usize) % f.len()].clone();
                let a = if idx as usize / f.len() == 1 && a.kind != AKind::Doc { ANode::doc(vec![a]) } else { a };
                ctx.nontrivial(a.structural_hash());
                self.run_tree(rng, ctx, &a, None);
            }
            1 => {
                let a = ANode::doc(vec![ANode::elem(QName::plain("p")).with_attr(QName::plain("k"), "v").with_children(vec![ANode::text("t<&"), ANode::comment("c"), ANode::pi("pi", None)])]);
                self.run_tree(rng, ctx, &a, Some((idx % 7) as usize));
            }
            _ => {
                let xhtml_share = rng.chance(3, 20);
                let foreign_ns = if rng.chance(1, 6) { gen::NS_HOSTILE } else { "urn:A" };
                let mut g = Gen { rng, budget: 0, xhtml_share, foreign_ns };
                g.budget = if crate::engine::legs_mode() { 5 } else { *g.rng.pick(&[3, 8, 16, 30]) };
                let mut scope = gen::Scope::new();
                let root = g.element(1, &mut scope);
                let a = match g.rng.below(4) {
                    0 => root,
                    1 => {
                        // fragment: top-level text and several elements
                        let mut kids = vec![];
                        if g.rng.bool() {
                            kids.push(ANode::text(&g.text()));
                        }
                        kids.push(root);
                        if g.rng.bool() {
                            g.budget = 4;
                            let mut sc = gen::Scope::new();
                            kids.push(g.element(2, &mut sc));
                        }
                        if g.rng.bool() {
                            kids.push(ANode::text(&g.text()));
                        }
                        ANode::doc(kids)
                    }
                    _ => ANode::doc(vec![root]),
                };
                // deep unmixed nesting of block elements: indentation widths beyond any fixed buffer
                let mut a = a;
                if !crate::engine::legs_mode() && g.rng.chance(1, 10) {
                    let depth = *g.rng.pick(&[15, 16, 17, 31, 32, 33, 34, 40, 64, 65, 66, 130]);
                    let was_elem = a.kind == AKind::Elem;
                    let mut d = if was_elem { ANode::doc(vec![a]) } else { a };
                    wrap_deep(&mut d, &["div", "section", "ul"], depth);
                    a = if was_elem { d.children.remove(0) } else { d };
                    ctx.count("deep_chain_trees");
                }
                if a.count() >= 3 {
                    ctx.nontrivial(a.structural_hash());
                }
                if xhtml_share {
                    ctx.count("trees_with_xhtml_share");
                }
                self.run_tree(rng, ctx, &a, None);
            }
        }
    }
}
