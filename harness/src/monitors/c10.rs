//! C10 — serialisation never changes a name's meaning; missing prefixes can be repaired.
//! C15 — deduplicate_namespaces only removes redundant declarations.

use super::common::*;
use crate::adoc::*;
use crate::build::{self, AttrStyle, ROUTES};
use crate::engine::{guard, Ctx, Monitor, Stream, Tier};
use crate::gen::{self, GenCfg, NsMode, Scope, TextProfile};
use crate::json::J;
use crate::rng::Rng;
use crate::snap::{self, HTree};
use crate::xmlread;
use xot::{Node, Xot};

#[derive(Clone, Copy, PartialEq, Eq)]
pub enum NW {
    C10,
    C15,
}

pub struct Names(pub NW);

/// hypothesis behind ledger F29 (see c01.rs)
fn unns_hypothesis(doc: &ANode, outer: &Scope) -> ANode {
    fn rec(n: &mut ANode, scope: &mut Scope) {
        if n.kind == AKind::Elem {
            let pushed = scope.push_all(&n.decls);
            if n.name.ns.is_empty() {
                if let Some(d) = scope.lookup("") {
                    n.name.ns = d.to_string();
                }
            }
            for c in n.children.iter_mut() {
                rec(c, scope);
            }
            scope.pop_n(pushed);
        } else {
            for c in n.children.iter_mut() {
                rec(c, scope);
            }
        }
    }
    let mut d = doc.clone();
    let mut s = outer.clone();
    rec(&mut d, &mut s);
    d
}

fn has_unns_under_default_in(doc: &ANode, outer: &Scope) -> bool {
    unns_hypothesis(doc, outer).canon() != doc.canon()
}

/// scope in force at the parent of `target` inside `root` (declarations of the ancestors)
fn outer_scope(root: &ANode, h: &HTree, target: Node) -> Option<Scope> {
    fn rec(a: &ANode, h: &HTree, target: Node, sc: &mut Scope) -> bool {
        if h.node == target {
            return true;
        }
        let pushed = if a.kind == AKind::Elem { sc.push_all(&a.decls) } else { 0 };
        for (c, hc) in a.children.iter().zip(h.children.iter()) {
            if rec(c, hc, target, sc) {
                return true;
            }
        }
        sc.pop_n(pushed);
        false
    }
    let mut sc = Scope::new();
    if rec(root, h, target, &mut sc) {
        Some(sc)
    } else {
        None
    }
}

fn wrap_as_doc(t: &ANode) -> ANode {
    if t.kind == AKind::Doc {
        t.clone()
    } else {
        ANode::doc(vec![t.clone()])
    }
}

/// clause 1: Ok(text) must denote the same names (read by the independent reader)
/// returns false when a violation was reported
fn names_preserved(ctx: &mut Ctx, prop: &str, xot: &Xot, target: Node, orig: &ANode, outer: &Scope, how: &str, history: &J) -> Result<bool, ()> {
    let text = match ser(xot, target) {
        Err(p) => {
            ctx.violation(
                "serialisation panicked",
                format!("{}/{}/to_string/panic/{}", prop, how, p.sig()),
                J::obj().set("tree", orig.to_json()).set("history", history.clone()).set("panic", J::s(p.short())),
            );
            return Err(());
        }
        Ok(Err(_)) => return Ok(false),
        Ok(Ok(t)) => t,
    };
    let read = match xmlread::read(&text, true) {
        Ok(d) => d,
        Err(e) => {
            ctx.violation(
                "serialiser output is not well-formed / namespace-well-formed",
                format!("{}/{}/output-unreadable", prop, how),
                J::obj().set("tree", orig.to_json()).set("history", history.clone()).set("text", J::s(trunc(&text, 1200))).set("reader_error", J::s(e)),
            );
            return Err(());
        }
    };
    let want = wrap_as_doc(orig).canon();
    let got = read.canon();
    if want != got {
        let d = first_diff(&want, &got).unwrap_or_default();
        let cause = if unns_hypothesis(&wrap_as_doc(orig), outer).canon() == got {
            "unns-element-under-default-binding-written-unprefixed"
        } else {
            "unclassified"
        };
        let sig = if cause == "unclassified" {
            format!("{}/{}/emitted-names-differ/{}/{}", prop, how, diff_class(&d), cause)
        } else {
            format!("{}/serialise/emitted-names-differ/{}", prop, cause)
        };
        ctx.violation(
            "the emitted text means something else than the tree",
            sig,
            J::obj().set("tree", orig.to_json()).set("history", history.clone()).set("text", J::s(trunc(&text, 1200))).set("first_difference", J::s(d)),
        );
        return Err(());
    }
    ctx.count("emitted_names_resolve_back");
    // "serialisation either fails with an error or produces text": also when the text cannot be delivered because the
    // writer runs out of room - then it fails with an error
    if prop == "C10" && text.len() >= 2 && (text.len() + orig.count()) % 7 == 0 {
        let room = (text.len() * 3 / 5).min(text.len() - 1);
        let r = guard(|| {
            let mut fw = FailingWriter::new(room);
            xot.write(target, &mut fw).is_ok()
        });
        match r {
            Ok(false) => ctx.count("failing_writer_reported_as_error"),
            Ok(true) => {
                ctx.violation(
                    "the writer failed and write() returned Ok",
                    format!("{}/failing-writer/reported-ok", prop),
                    J::obj().set("tree", orig.to_json()).set("text", J::s(trunc(&text, 600))).set("room", J::i(room as u64)),
                );
                return Err(());
            }
            Err(p) => {
                ctx.violation(
                    "write() panicked when its writer failed",
                    format!("{}/failing-writer/panic/{}", prop, p.sig()),
                    J::obj().set("tree", orig.to_json()).set("text", J::s(trunc(&text, 600))).set("room", J::i(room as u64)).set("panic", J::s(p.short())),
                );
                return Err(());
            }
        }
    }
    Ok(true)
}

fn pick_target(rng: &mut Rng, xot: &Xot, h: &HTree) -> Node {
    let flat = h.flat();
    let elems: Vec<Node> = flat.iter().copied().filter(|n| xot.is_element(*n)).collect();
    if elems.is_empty() || rng.chance(1, 2) {
        h.node
    } else {
        elems[rng.below(elems.len())]
    }
}

fn sub_anode<'a>(a: &'a ANode, h: &HTree, target: Node) -> Option<&'a ANode> {
    if h.node == target {
        return Some(a);
    }
    for (c, hc) in a.children.iter().zip(h.children.iter()) {
        if let Some(x) = sub_anode(c, hc, target) {
            return Some(x);
        }
    }
    None
}

const FRESH_NS: &[&str] = &["urn:N1", "urn:N2", "urn:N3", "urn:A", "urn:B"];

impl Names {
    fn prop(&self) -> &'static str {
        match self.0 {
            NW::C10 => "C10",
            NW::C15 => "C15",
        }
    }

    fn gen_tree(&self, rng: &mut Rng, wild: bool) -> ANode {
        let mut cfg = GenCfg::default();
        cfg.max_nodes = *rng.pick(&[3, 8, 16]);
        cfg.max_depth = *rng.pick(&[2, 4, 6]);
        cfg.ns_mode = if wild { NsMode::Wild } else { NsMode::Consistent };
        cfg.pct_unns_under_default = if self.0 == NW::C10 { 2 } else { 0 };
        cfg.text = TextProfile::Plain;
        cfg.str_len = 3;
        cfg.fragment = rng.chance(1, 3);
        cfg.top_misc = rng.chance(1, 5);
        cfg.max_children = 4;
        cfg.comments = rng.chance(1, 4);
        cfg.pis = false;
        if rng.chance(1, 4) {
            gen::gen_element(rng, &cfg)
        } else {
            gen::gen_document(rng, &cfg)
        }
    }

    // ------------------------------------------------------------------ C10 clause 1
    fn c10_tree(&self, rng: &mut Rng, ctx: &mut Ctx) {
        let wild = rng.chance(2, 3);
        let mut a = self.gen_tree(rng, wild);
        if rng.chance(1, 10) && add_xml_only_decl(&mut a, rng) {
            ctx.count("trees_with_an_xmlns_xml_only_element");
        }
        if rng.chance(1, 8) && add_xml_alias(&mut a, rng) {
            ctx.count("trees_with_a_second_binding_of_the_xml_namespace");
        }
        if a.count() >= 3 {
            ctx.nontrivial(a.structural_hash());
        }
        let mut xot = Xot::new();
        let built = match guard(|| build::build(&mut xot, &a, *rng.pick(&ROUTES), AttrStyle::Map)) {
            Ok(Ok(h)) => h,
            _ => {
                ctx.count("build_failed");
                return;
            }
        };
        let mut target = pick_target(rng, &xot, &built);
        let mut sub = match sub_anode(&a, &built, target) {
            Some(s) => s.clone(),
            None => return,
        };
        let mut outer = outer_scope(&a, &built, target).unwrap_or_default();
        let mut how = if target == built.node { "whole-tree" } else { "inner-element" };
        if target != built.node && rng.chance(1, 3) {
            // a parentless clone: declarations it relied on are gone
            if let Ok(c) = guard(|| xot.clone_node(target)) {
                target = c;
                outer = Scope::new();
                how = "cloned-element";
            }
        }
        if a.kind == AKind::Doc && target == built.node && !gen::is_wf_document(&a) {
            how = "fragment";
        }
        let _ = &mut sub;
        ctx.count(&format!("serialised_as.{}", how));
        match names_preserved(ctx, "C10", &xot, target, &sub, &outer, how, &J::Null) {
            Ok(true) => ctx.count("serialisation_ok"),
            Ok(false) => ctx.count("serialisation_refused"),
            Err(()) => {}
        }
        ctx.sample(|| J::obj().set("tree", a.to_json()).set("serialised", J::s(how)));
    }

    // ------------------------------------------------------------------ C10 clause 2
    fn c10_history(&self, rng: &mut Rng, ctx: &mut Ctx) {
        let a = self.gen_tree(rng, false);
        let mut xot = Xot::new();
        let built = match guard(|| build::build(&mut xot, &a, *rng.pick(&ROUTES), AttrStyle::Map)) {
            Ok(Ok(h)) => h,
            _ => {
                ctx.count("build_failed");
                return;
            }
        };
        let mut root = built.node;
        let mut log: Vec<String> = vec![format!("start {}", a.show())];
        let rounds = rng.range(1, 6);
        let mut effective_rounds = 0;
        for _round in 0..rounds {
            // 1-3 edits
            let nedits = rng.range(1, 3);
            for _ in 0..nedits {
                let snapd = match guard(|| snap::snap(&xot, root)) {
                    Ok(Ok(s)) => s,
                    _ => return,
                };
                let flat = snapd.handles.flat();
                let elems: Vec<Node> = flat.iter().copied().filter(|n| xot.is_element(*n)).collect();
                if elems.is_empty() {
                    break;
                }
                let e = elems[rng.below(elems.len())];
                match rng.below(8) {
                    0 | 1 => {
                        let ns = *rng.pick(FRESH_NS);
                        let nid = xot.add_namespace(ns);
                        let name = xot.add_name_ns(*rng.pick(&["k", "m", "x"]), nid);
                        let _ = guard(|| xot.append_element(e, name));
                        log.push(format!("append_element({}, {{{}}}...)", crate::driver::describe(&xot, e), ns));
                    }
                    2 => {
                        let ns = *rng.pick(FRESH_NS);
                        let nid = xot.add_namespace(ns);
                        let name = xot.add_name_ns(*rng.pick(&["at", "bt"]), nid);
                        let _ = guard(|| xot.set_attribute(e, name, "v"));
                        log.push(format!("set_attribute({}, {{{}}}at)", crate::driver::describe(&xot, e), ns));
                    }
                    3 => {
                        // move a subtree away from the declarations it relied on
                        let other = elems[rng.below(elems.len())];
                        if let Ok(Ok(())) = guard(|| xot.append(other, e)) {
                            log.push(format!("append({}, {})", crate::driver::describe(&xot, other), crate::driver::describe(&xot, e)));
                        }
                    }
                    4 => {
                        // continue with a clone of an inner element as a new document
                        if let Ok(c) = guard(|| xot.clone_node(e)) {
                            if let Ok(Ok(d)) = guard(|| xot.new_document_with_element(c)) {
                                root = d;
                                log.push(format!("root := new_document_with_element(clone_node({}))", crate::driver::describe(&xot, e)));
                            }
                        }
                    }
                    5 => {
                        // hand-made declarations with the generator's favourite names
                        let p = *rng.pick(&["n0", "n1", "n2", "p"]);
                        let u = *rng.pick(&["urn:A", "urn:B", "urn:N1", "urn:H"]);
                        let pid = xot.add_prefix(p);
                        let nid = xot.add_namespace(u);
                        let _ = guard(|| xot.set_namespace(e, pid, nid));
                        log.push(format!("set_namespace({}, {}, {})", crate::driver::describe(&xot, e), p, u));
                    }
                    6 => {
                        let decls: Vec<xot::PrefixId> = xot.namespaces(e).keys().collect();
                        if !decls.is_empty() {
                            let p = decls[rng.below(decls.len())];
                            let _ = guard(|| xot.remove_namespace(e, p));
                            log.push(format!("remove_namespace({}, {:?})", crate::driver::describe(&xot, e), xot.prefix_str(p)));
                        }
                    }
                    _ => {
                        // a second top-level element (fragment)
                        if xot.is_document(root) {
                            let ns = *rng.pick(FRESH_NS);
                            let nid = xot.add_namespace(ns);
                            let name = xot.add_name_ns("top", nid);
                            let _ = guard(|| xot.append_element(root, name));
                            log.push(format!("append_element(document, {{{}}}top)", ns));
                        }
                    }
                }
            }
            // repair target: the root, or an element
            let before = match guard(|| snap::snap(&xot, root)) {
                Ok(Ok(s)) => s,
                _ => return,
            };
            let target = if rng.chance(2, 3) { root } else { pick_target(rng, &xot, &before.handles) };
            let tb = match sub_anode(&before.tree, &before.handles, target) {
                Some(t) => t.clone(),
                None => continue,
            };
            let outer = outer_scope(&before.tree, &before.handles, target).unwrap_or_default();
            let has_element = tb.kind == AKind::Elem || tb.children.iter().any(|c| c.kind == AKind::Elem);
            let hist = J::Arr(log.iter().map(|s| J::s(s.clone())).collect());
            let target_kind = if tb.kind == AKind::Doc { if gen::is_wf_document(&tb) { "document" } else { "fragment" } } else { "element" };
            log.push(format!("create_missing_prefixes({})", target_kind));
            let r = guard(|| xot.create_missing_prefixes(target));
            match r {
                Err(p) => {
                    ctx.violation("create_missing_prefixes panicked", format!("C10/create_missing_prefixes/panic/{}/{}", target_kind, p.sig()), J::obj().set("history", hist).set("panic", J::s(p.short())));
                    return;
                }
                Ok(Err(e)) => {
                    if has_element {
                        ctx.violation(
                            "create_missing_prefixes failed",
                            format!("C10/create_missing_prefixes/error/{}/{}", target_kind, err_variant(&e)),
                            J::obj().set("history", hist).set("error", J::s(format!("{:?}", e))),
                        );
                        return;
                    }
                    ctx.count("repair_refused_no_element");
                    continue;
                }
                Ok(Ok(())) => {}
            }
            ctx.count(&format!("repair_calls.{}", target_kind));
            effective_rounds += 1;
            let after_root = match guard(|| snap::snap(&xot, root)) {
                Ok(Ok(s)) => s,
                _ => return,
            };
            // nothing but added declarations, at the end of the lists; same handles
            if after_root.tree.canon() != before.tree.canon() || after_root.handles.flat() != before.handles.flat() {
                let d = first_diff(&before.tree.canon(), &after_root.tree.canon()).unwrap_or_else(|| "handles differ".into());
                ctx.violation(
                    "create_missing_prefixes changed a name, an attribute or content",
                    format!("C10/create_missing_prefixes/changed-content/{}", diff_class(&d)),
                    J::obj().set("history", hist).set("first_difference", J::s(d)),
                );
                return;
            }
            let mut decl_problem: Option<String> = None;
            {
                let mut b = Vec::new();
                let mut af = Vec::new();
                before.tree.walk(&mut |n| b.push(n.decls.clone()));
                after_root.tree.walk(&mut |n| af.push(n.decls.clone()));
                for (x, y) in b.iter().zip(af.iter()) {
                    if y.len() < x.len() || y[..x.len()] != x[..] {
                        decl_problem = Some(format!("declarations {:?} became {:?}", x, y));
                        break;
                    }
                }
            }
            if let Some(dp) = decl_problem {
                ctx.violation(
                    "create_missing_prefixes altered or overrode an existing declaration",
                    "C10/create_missing_prefixes/existing-declaration-changed".to_string(),
                    J::obj().set("history", hist).set("what", J::s(dp)),
                );
                return;
            }
            // serialisation of the repaired target succeeds and means the same
            let ta = match sub_anode(&after_root.tree, &after_root.handles, target) {
                Some(t) => t.clone(),
                None => return,
            };
            let how = format!("after-repair-{}", target_kind);
            match names_preserved(ctx, "C10", &xot, target, &ta, &outer, &how, &hist) {
                Err(()) => return,
                Ok(false) => {
                    let cause = if has_unns_under_default_in(&wrap_as_doc(&ta), &outer) { "tree-has-unns-element-under-default-binding" } else { "other" };
                    let e = ser(&xot, target).ok().and_then(|r| r.err()).map(|e| format!("{:?}", e)).unwrap_or_default();
                    ctx.violation(
                        "serialisation still fails after create_missing_prefixes",
                        format!("C10/create_missing_prefixes/still-not-serialisable/{}/{}", target_kind, cause),
                        J::obj().set("history", hist).set("tree_after", ta.to_json()).set("error", J::s(e)),
                    );
                    return;
                }
                Ok(true) => {}
            }
            // and reparses deep-equal with xot's own parser (whole repaired target)
            if let Ok(Ok(text)) = ser(&xot, target) {
                let mut x2 = Xot::new();
                match guard(|| x2.parse_fragment(&text)) {
                    Ok(Ok(d2)) => {
                        if let Ok(t2) = snap_guarded(&x2, d2) {
                            if t2.canon() != wrap_as_doc(&ta).canon() {
                                ctx.violation(
                                    "repaired tree does not reparse deep-equal",
                                    "C10/create_missing_prefixes/reparse-differs".to_string(),
                                    J::obj().set("history", hist).set("text", J::s(trunc(&text, 800))),
                                );
                                return;
                            }
                            ctx.count("repaired_trees_reparse_equal");
                        }
                    }
                    other => {
                        ctx.violation(
                            "repaired tree's serialisation is rejected",
                            "C10/create_missing_prefixes/reparse-rejected".to_string(),
                            J::obj().set("history", hist).set("text", J::s(trunc(&text, 800))).set("result", J::s(format!("{:?}", other.map(|r| r.map(|_| ()).map_err(|e| format!("{:?}", e))).map_err(|p| p.short())))),
                        );
                        return;
                    }
                }
            }
        }
        if effective_rounds >= 2 {
            ctx.count("histories_with_repeated_repair");
        }
        if effective_rounds >= 1 {
            let mut hh = std::collections::hash_map::DefaultHasher::new();
            use std::hash::{Hash, Hasher};
            log.hash(&mut hh);
            ctx.nontrivial(hh.finish());
        }
        ctx.sample(|| J::Arr(log.iter().map(|s| J::s(s.clone())).collect()));
    }

    // ------------------------------------------------------------------ C15
    fn c15_tree(&self, rng: &mut Rng, ctx: &mut Ctx, forced: Option<ANode>) {
        let a = match forced {
            Some(a) => a,
            None if rng.chance(1, 2) => {
                let d = rng.range(2, 5);
                let t = dense_layout(rng, d);
                if rng.chance(1, 3) { ANode::doc(vec![t]) } else { t }
            }
            None => {
                let wild = rng.chance(1, 4);
                let mut t = self.gen_tree(rng, wild);
                // make layouts redundant: re-declare in-scope bindings under other prefixes deeper down
                let pool = ["p", "q", "r", "n0", ""];
                let uris = [gen::NS_A, gen::NS_B];
                let mut k = 0usize;
                let seed = rng.next_u64() as usize;
                t.walk_mut(&mut |n| {
                    if n.kind == AKind::Elem {
                        k += 1;
                        let r = seed.wrapping_mul(31).wrapping_add(k * 7);
                        if r % 3 != 0 {
                            let p = pool[(r / 3) % pool.len()];
                            let u = uris[(r / 17) % uris.len()];
                            if !n.decls.iter().any(|(pp, _)| pp == p) {
                                n.decls.push((p.to_string(), u.to_string()));
                            }
                        }
                        if r % 5 == 0 {
                            // names in the duplicated namespaces
                            n.name.ns = uris[(r / 5) % uris.len()].to_string();
                        }
                        if r % 7 == 0 {
                            let q = QName::new(uris[(r / 7) % uris.len()], "d");
                            if !n.attrs.iter().any(|(x, _)| *x == q) {
                                n.attrs.push((q, "v".into()));
                            }
                        }
                    }
                });
                t
            }
        };
        if a.count() >= 3 {
            ctx.nontrivial(a.structural_hash());
        }
        let mut xot = Xot::new();
        let built = match guard(|| build::build(&mut xot, &a, *rng.pick(&ROUTES), AttrStyle::Map)) {
            Ok(Ok(h)) => h,
            _ => {
                ctx.count("build_failed");
                return;
            }
        };
        let target = pick_target(rng, &xot, &built);
        let before_root = match guard(|| snap::snap(&xot, built.node)) {
            Ok(Ok(s)) => s,
            _ => return,
        };
        let tb = match sub_anode(&before_root.tree, &before_root.handles, target) {
            Some(t) => t.clone(),
            None => return,
        };
        let outer = outer_scope(&before_root.tree, &before_root.handles, target).unwrap_or_default();
        let ser_before = match ser(&xot, target) {
            Ok(r) => r.ok(),
            Err(_) => None,
        };
        // a no-namespace element under a default binding already serialises to text that means
        // something else (open finding F29 of C01 / C10): the serialisation clause is not judged on such trees
        let ser_before = if ser_before.is_some() && has_unns_under_default_in(&wrap_as_doc(&tb), &outer) {
            ctx.count("serialisation_clause_skipped_unns_under_default");
            None
        } else {
            ser_before
        };
        if ser_before.is_some() {
            ctx.count("serialisable_before");
        }
        if let Err(p) = guard(|| xot.deduplicate_namespaces(target)) {
            ctx.violation("deduplicate_namespaces panicked", format!("C15/panic/{}", p.sig()), J::obj().set("tree", a.to_json()).set("panic", J::s(p.short())));
            return;
        }
        ctx.count("calls");
        let after_root = match guard(|| snap::snap(&xot, built.node)) {
            Ok(Ok(s)) => s,
            _ => {
                ctx.violation("tree unreadable after deduplicate_namespaces", "C15/unreadable".to_string(), J::obj().set("tree", a.to_json()));
                return;
            }
        };
        let base = |what: String| J::obj().set("tree", a.to_json()).set("target", J::s(trunc(&tb.show(), 300))).set("after", after_root.tree.to_json()).set("what", J::s(what));
        if after_root.tree.canon() != before_root.tree.canon() {
            let d = first_diff(&before_root.tree.canon(), &after_root.tree.canon()).unwrap_or_default();
            ctx.violation("deduplicate_namespaces changed a name, an attribute or content", format!("C15/changed-content/{}", diff_class(&d)), base(d));
            return;
        }
        // declarations: after is a subsequence of before, per element; nothing outside the target changes
        let mut removed = 0;
        {
            let mut b = Vec::new();
            let mut af = Vec::new();
            before_root.tree.walk(&mut |n| b.push(n.decls.clone()));
            after_root.tree.walk(&mut |n| af.push(n.decls.clone()));
            for (x, y) in b.iter().zip(af.iter()) {
                let mut i = 0;
                for d in y {
                    match x[i..].iter().position(|e| e == d) {
                        Some(p) => i += p + 1,
                        None => {
                            ctx.violation("deduplicate_namespaces added, altered or reordered a declaration", "C15/declaration-added-or-altered".to_string(), base(format!("{:?} became {:?}", x, y)));
                            return;
                        }
                    }
                }
                removed += x.len() - y.len();
            }
        }
        ctx.add("declarations_removed", removed as u64);
        if removed > 0 {
            ctx.count("calls_that_removed_something");
        }
        let ta = match sub_anode(&after_root.tree, &after_root.handles, target) {
            Some(t) => t.clone(),
            None => return,
        };
        if ser_before.is_some() {
            match names_preserved(ctx, "C15", &xot, target, &ta, &outer, "after-dedup", &J::s(format!("tree {}", a.show()))) {
                Err(()) => return,
                Ok(false) => {
                    // cause predicate of ledger F37: a removed declaration's namespace is only reachable
                    // through a prefix that is rebound on the element or below it
                    let e = ser(&xot, target).ok().and_then(|r| r.err()).map(|e| format!("{:?}", e)).unwrap_or_default();
                    ctx.violation(
                        "a tree that serialised before no longer serialises after deduplicate_namespaces",
                        "C15/no-longer-serialisable".to_string(),
                        base(format!("to_string now fails: {}", e)),
                    );
                    return;
                }
                Ok(true) => ctx.count("still_serialisable_and_same_names"),
            }
        }
        // second call removes nothing
        if guard(|| xot.deduplicate_namespaces(target)).is_err() {
            ctx.violation("second deduplicate_namespaces panicked", "C15/second-call/panic".to_string(), base(String::new()));
            return;
        }
        match guard(|| snap::snap(&xot, built.node)) {
            Ok(Ok(s2)) if s2.tree == after_root.tree => ctx.count("second_call_no_change"),
            Ok(Ok(s2)) => {
                ctx.violation("a second deduplicate_namespaces call removed something", "C15/second-call/changed".to_string(), base(format!("after second call: {}", s2.tree.show())));
            }
            _ => {}
        }
        ctx.sample(|| J::obj().set("tree", a.to_json()).set("declarations_removed", J::i(removed as u64)));
    }
}

/// dense redundant layouts over two namespaces: every element declares a random subset of
/// {default, p, q} x {A, B} (and sometimes xmlns=""), names and attributes live in A / B
fn dense_layout(rng: &mut Rng, depth: usize) -> ANode {
    // two densities: many declarations / few attributes, and few declarations / many attributes (runs of
    // declaration-free elements that carry attributes)
    let sparse = rng.bool();
    dense_layout_with(rng, depth, sparse)
}

fn dense_layout_with(rng: &mut Rng, depth: usize, sparse: bool) -> ANode {
    let (decl_n, decl_d, attr_n, attr_d) = if sparse { (1, 5, 2, 3) } else { (2, 5, 1, 3) };
    let uris = [gen::NS_A, gen::NS_B];
    let mut e = ANode::elem(QName::new(uris[rng.below(2)], *rng.pick(&["a", "b", "c"])));
    if rng.chance(1, 6) {
        e.name.ns = String::new();
    }
    for p in ["", "p", "q"] {
        if rng.chance(decl_n, decl_d) {
            let u = if p.is_empty() && rng.chance(1, 6) { "" } else { uris[rng.below(2)] };
            e.decls.push((p.to_string(), u.to_string()));
        }
    }
    rng.shuffle(&mut e.decls);
    for k in ["k", "l"] {
        if rng.chance(attr_n, attr_d) {
            let ns = if rng.chance(1, 4) { "" } else { uris[rng.below(2)] };
            e.attrs.push((QName::new(ns, k), "v".to_string()));
        }
    }
    if depth > 0 {
        let n = if sparse { rng.pick_weighted(&[1, 3, 3, 2]) } else { rng.pick_weighted(&[2, 5, 2]) };
        for _ in 0..n {
            e.children.push(dense_layout_with(rng, depth - 1, sparse));
        }
    }
    e
}

fn c15_forced() -> Vec<ANode> {
    let e = |ns: &str, n: &str| ANode::elem(QName::new(ns, n));
    vec![
        // prefix shadowed on the element whose declaration is a removal candidate (F37)
        e("", "r").with_decl("q", "urn:A").with_children(vec![e("", "e").with_decl("p", "urn:A").with_decl("q", "urn:B").with_children(vec![e("urn:A", "x")])]),
        // ... one level deeper
        e("", "r").with_decl("q", "urn:A").with_children(vec![e("", "e").with_decl("p", "urn:A").with_children(vec![e("", "f").with_decl("q", "urn:B").with_children(vec![e("urn:A", "x")])])]),
        // attribute needs the prefixed binding while the default covers the element
        e("urn:A", "r").with_decl("", "urn:A").with_children(vec![e("urn:A", "e").with_decl("p", "urn:A").with_attr(QName::new("urn:A", "k"), "v")]),
        // same prefix redeclared down a path
        e("urn:A", "r").with_decl("p", "urn:A").with_children(vec![e("urn:A", "e").with_decl("p", "urn:A").with_children(vec![e("urn:A", "f").with_decl("p", "urn:A")])]),
        // the same default namespace declared redundantly on two nested ancestors while an attribute needs the alias
        e("urn:A", "doc").with_decl("", "urn:A").with_children(vec![e("urn:A", "a").with_decl("p", "urn:A").with_children(vec![e("urn:A", "b").with_decl("", "urn:A").with_attr(QName::new("urn:A", "k"), "v")])]),
        e("urn:A", "doc").with_decl("", "urn:A").with_children(vec![e("urn:A", "a").with_decl("", "urn:A").with_decl("p", "urn:A").with_children(vec![e("urn:A", "b").with_attr(QName::new("urn:A", "k"), "v")])]),
        // alias for the default namespace, default undeclared further down
        e("urn:A", "a").with_decl("", "urn:A").with_children(vec![e("urn:A", "b").with_decl("q", "urn:A").with_children(vec![e("", "c").with_decl("", "").with_children(vec![e("urn:A", "d")])])]),
        // an alias used only by an attribute on a declaration-free element, followed by a nested redundant default
        // over several attribute-bearing, declaration-free elements
        e("urn:A", "r").with_decl("", "urn:A").with_children(vec![e("urn:A", "c").with_decl("p", "urn:A").with_children(vec![
            e("urn:A", "a").with_attr(QName::new("urn:A", "x"), "1"),
            e("urn:A", "s").with_decl("", "urn:A").with_children(vec![e("urn:A", "b").with_attr(QName::plain("y"), "1"), e("urn:A", "b").with_attr(QName::plain("y"), "2"), e("urn:A", "b").with_attr(QName::plain("y"), "3")]),
        ])]),
        // default namespaces interleaved with prefixed ones
        e("urn:A", "r").with_decl("", "urn:A").with_decl("p", "urn:B").with_children(vec![e("urn:B", "e").with_decl("", "urn:B").with_children(vec![e("urn:A", "f").with_decl("", "urn:A").with_decl("q", "urn:B").with_attr(QName::new("urn:B", "k"), "v")])]),
    ]
}

impl Monitor for Names {
    fn id(&self) -> &'static str {
        self.prop()
    }
    fn streams(&self, tier: Tier, budget: f64) -> Vec<Stream> {
        match self.0 {
            NW::C10 => {
                let (a, b) = match tier {
                    Tier::Quick => (400_000, 200_000),
                    Tier::Thorough => (3_000_000, 1_500_000),
                };
                vec![Stream::new("trees", scaled(a, budget)), Stream::new("repair-histories", scaled(b, budget))]
            }
            NW::C15 => {
                let a = match tier {
                    Tier::Quick => 600_000,
                    Tier::Thorough => 4_000_000,
                };
                vec![Stream::new("forced-layouts", c15_forced().len() as u64 * 4), Stream::new("redundant-layouts", scaled(a, budget))]
            }
        }
    }
    fn rule(&self) -> String {
        match self.0 {
            NW::C10 => "(1) trees whose names use any subset of 7 namespaces with any subset declared (none, some, shadowed, only as default while used by an attribute, no-namespace elements under a default namespace), serialised as documents, fragments, inner elements and parentless clones: Ok(text) is read by the independent XML reader and every element / attribute name must resolve to the node's expanded name; (2) histories of 1-6 rounds of {append elements / attributes in fresh namespaces, move subtrees away from their declarations, continue with a clone as new document, hand-made declarations named n0/n1/n2, removed declarations, extra top-level elements} each followed by create_missing_prefixes on the document, fragment or an element: content and handles unchanged, existing declarations untouched (only appended ones), serialisation succeeds, means the same and reparses deep-equal. Non-trivial = tree with >= 3 nodes / history with >= 1 repair; distinct by structural hash".into(),
            NW::C15 => "trees with redundant declaration layouts (same namespace under several prefixes, same prefix redeclared down a path, default interleaved with prefixed, attributes needing the prefixed binding, prefixes shadowed on or below the candidate element), as documents, fragments, subtrees: after deduplicate_namespaces names / attributes / content / handles are unchanged, every element's declaration list is a subsequence of the old one, a tree that serialised before still serialises to text meaning the same, and a second call changes nothing. Non-trivial = tree with >= 3 nodes; distinct by structural hash".into(),
        }
    }
    fn floors(&self, _tier: Tier) -> Vec<(&'static str, u64)> {
        match self.0 {
            NW::C10 => vec![
                ("emitted_names_resolve_back", 20_000),
                ("serialisation_refused", 2_000),
                ("repaired_trees_reparse_equal", 5_000),
                ("histories_with_repeated_repair", 2_000),
                ("repair_calls.fragment", 500),
                ("repair_calls.element", 500),
            ],
            NW::C15 => vec![("calls", 20_000), ("calls_that_removed_something", 2_000), ("still_serialisable_and_same_names", 5_000), ("second_call_no_change", 10_000)],
        }
    }
    fn assumptions(&self) -> Vec<String> {
        vec!["text content is plain so that only the namespace aspects vary; the independent reader (harness/src/xmlread.rs) is the judge of what the emitted text means".into()]
    }
    fn run_case(&self, stream: usize, idx: u64, rng: &mut Rng, ctx: &mut Ctx) {
        match (self.0, stream) {
            (NW::C10, 0) => self.c10_tree(rng, ctx),
            (NW::C10, _) => self.c10_history(rng, ctx),
            (NW::C15, 0) => {
                let f = c15_forced();
                let t = f[(idx as usize) % f.len()].clone();
                let t = if (idx as usize / f.len()) % 2 == 0 { t } else { ANode::doc(vec![t]) };
                self.c15_tree(rng, ctx, Some(t));
            }
            (NW::C15, _) => self.c15_tree(rng, ctx, None),
        }
    }
}
