//! C03 — the parser is total, rejects ill-formed text, and accepts only sound trees.

use super::common::*;
use crate::adoc::*;
use crate::engine::{guard, Ctx, Monitor, Stream, Tier};
use crate::gen::{self, GenCfg, NsMode, Scope, TextProfile};
use crate::json::J;
use crate::render::{self, RandomChoices, RenderOpts, Rendered, SpanKind};
use crate::rng::Rng;
use crate::walker;
use xot::{Node, Xot};

pub struct C03;

#[derive(Clone, Copy, Debug, PartialEq, Eq)]
pub enum PEp {
    Parse,
    ParseSpan,
    Bytes,
    Fragment,
    FragmentSpan,
}

pub const ALL_EPS: [PEp; 5] = [PEp::Parse, PEp::ParseSpan, PEp::Bytes, PEp::Fragment, PEp::FragmentSpan];

impl PEp {
    pub fn name(self) -> &'static str {
        match self {
            PEp::Parse => "parse",
            PEp::ParseSpan => "parse_with_span_info",
            PEp::Bytes => "parse_bytes",
            PEp::Fragment => "parse_fragment",
            PEp::FragmentSpan => "parse_fragment_with_span_info",
        }
    }
    pub fn is_document(self) -> bool {
        matches!(self, PEp::Parse | PEp::ParseSpan | PEp::Bytes)
    }
}

pub enum Input<'a> {
    Text(&'a str),
    Bytes(&'a [u8]),
}

pub fn run_ep(xot: &mut Xot, ep: PEp, input: &Input) -> Result<Result<Node, xot::ParseError>, crate::engine::PanicInfo> {
    guard(|| match (ep, input) {
        (PEp::Parse, Input::Text(t)) => xot.parse(t),
        (PEp::ParseSpan, Input::Text(t)) => xot.parse_with_span_info(t).map(|x| x.0),
        (PEp::Fragment, Input::Text(t)) => xot.parse_fragment(t),
        (PEp::FragmentSpan, Input::Text(t)) => xot.parse_fragment_with_span_info(t).map(|x| x.0),
        (PEp::Bytes, Input::Text(t)) => xot.parse_bytes(t.as_bytes()),
        (PEp::Bytes, Input::Bytes(b)) => xot.parse_bytes(b),
        (_, Input::Bytes(b)) => {
            let s = String::from_utf8_lossy(b).to_string();
            match ep {
                PEp::Parse => xot.parse(&s),
                PEp::ParseSpan => xot.parse_with_span_info(&s).map(|x| x.0),
                PEp::Fragment => xot.parse_fragment(&s),
                _ => xot.parse_fragment_with_span_info(&s).map(|x| x.0),
            }
        }
    })
}

fn show_input(i: &Input) -> J {
    match i {
        Input::Text(t) => J::s(trunc(t, 1200)),
        Input::Bytes(b) => J::s(format!("bytes {:?}", &b[..b.len().min(200)])),
    }
}

/// whatever is accepted must be a sound tree: walker, validate_well_formed_document (document
/// entry points), serialisable, and the serialisation reparses equal
pub fn accepted_is_sound(ctx: &mut Ctx, xot: &Xot, doc: Node, ep: PEp, input: &Input, origin: &str) -> bool {
    let live = match guard(|| xot.verif_live_nodes()) {
        Ok(l) => l,
        Err(_) => return false,
    };
    let fail = |ctx: &mut Ctx, clause: &str, what: String| {
        ctx.violation(
            "an accepted input does not yield a sound tree",
            format!("C03/{}/accepted-unsound/{}/{}", ep.name(), clause, origin),
            J::obj().set("input", show_input(input)).set("what", J::s(what)),
        );
    };
    // half-built nodes of earlier failed parses do not exist here: fresh Xot per input
    let reach = match guard(|| crate::snap::bounded(xot.all_descendants(doc), 4 * live.len() + 8)) {
        Ok(Ok(v)) => v,
        _ => {
            fail(ctx, "unreadable", "all_descendants of the accepted document does not end / panicked".into());
            return false;
        }
    };
    if let Some(b) = walker::walk(xot, &reach, true) {
        fail(ctx, b.invariant, b.what);
        return false;
    }
    if ep.is_document() {
        match guard(|| xot.validate_well_formed_document(doc)) {
            Ok(Ok(())) => {}
            other => {
                fail(ctx, "validate_well_formed_document", format!("{:?}", other.map(|r| r.map_err(|e| format!("{:?}", e))).map_err(|p| p.short())));
                return false;
            }
        }
    }
    let before = match snap_guarded(xot, doc) {
        Ok(t) => t,
        Err(e) => {
            fail(ctx, "unreadable", e);
            return false;
        }
    };
    let text = match ser(xot, doc) {
        Ok(Ok(t)) => t,
        other => {
            fail(ctx, "not-serialisable", format!("{:?}", other.map(|r| r.map_err(|e| format!("{:?}", e))).map_err(|p| p.short())));
            return false;
        }
    };
    let mut x2 = Xot::new();
    let r = guard(|| if ep.is_document() { x2.parse(&text) } else { x2.parse_fragment(&text) });
    match r {
        Ok(Ok(d2)) => match snap_guarded(&x2, d2) {
            Ok(after) => {
                // the serialiser never writes xmlns:xml="http://www.w3.org/XML/1998/namespace" (the binding is implicit):
                // such a declaration is not expected back
                let strip = |t: &ANode| {
                    let mut t = t.clone();
                    t.walk_mut(&mut |n| n.decls.retain(|(p, u)| !(p == "xml" && u == XML_NS)));
                    t.norm_sets()
                };
                let (before, after) = (strip(&before), strip(&after));
                if after.norm_sets() != before.norm_sets() {
                    let d = first_diff(&before.norm_sets(), &after.norm_sets()).unwrap_or_default();
                    let cause = if before_has_xmlns_xml(&before) { "xmlns-xml-declaration" } else { diff_class(&d) };
                    fail(ctx, &format!("reparse-differs/{}", cause), format!("serialisation {:?}: {}", trunc(&text, 600), d));
                    return false;
                }
            }
            Err(e) => {
                fail(ctx, "reparse-unreadable", e);
                return false;
            }
        },
        other => {
            fail(ctx, "serialisation-rejected", format!("serialisation {:?} -> {:?}", trunc(&text, 600), other.map(|r| r.map(|_| ()).map_err(|e| format!("{:?}", e))).map_err(|p| p.short())));
            return false;
        }
    }
    ctx.count("accepted_inputs_closed_the_loop");
    true
}

fn before_has_xmlns_xml(t: &ANode) -> bool {
    let mut hit = false;
    t.walk(&mut |n| {
        if n.decls.iter().any(|(p, _)| p == "xml") {
            hit = true
        }
    });
    hit
}

// ---------------------------------------------------------------------------------------------
// stream 1: arbitrary input

const XMLISH: &[&str] = &[
    "<", "</", "<a", "<a>", "</a>", "<a/>", "<b>", "</b>", "<!--", "-->", "<![CDATA[", "]]>", "<?", "?>", "<?xml version=\"1.0\"?>",
    "<?xml version=\"1.0\" encoding=\"", "\"?>", "&#", "&#x", ";", "&amp;", "&lt;", "&", "xmlns:p=\"u\"", "xmlns=\"u\"", " p:a=\"v\"", "p:", "=",
    "\"", "'", " ", "\n", "\r", "\t", ">", "/>", "a", "x", "\u{feff}", "é", "𝄞", "<!DOCTYPE a>", "<!ENTITY", "UTF-8", "utf-16", "foo", "ISO-8859-1",
    // the XML namespace bound to another prefix or as the default (accepted by the parser)
    "<a xmlns:x=\"http://www.w3.org/XML/1998/namespace\" x:lang=\"en\">", "<a xmlns=\"http://www.w3.org/XML/1998/namespace\">", " x:lang=\"en\"", " xmlns:x=\"http://www.w3.org/XML/1998/namespace\"",
    // declarations that a hand-written scanner for the encoding pseudo-attribute has to survive
    "<?xml version=\"1.0\"encoding=\"UTF-8\"?>", "<?xml encoding?>", "<?xml myencoding=\"x\" ?>", "<?xml version='1.0' encoding 'UTF-8'?>", "encoding", " encoding ", "<?xml ", "<?xml\t",
    "xml:id=\"i\"", "xml:space=\"preserve\"", "<a xmlns:p=\"u\">", "<p:a>", "</p:a>", "--", "]", "\0", "\u{1}", "\u{ffff}",
];

/// accepted documents with declarations that serialisers and scope stacks treat specially
const TRICKY_DOCS: &[&str] = &[
    "<doc xmlns=\"u\"><a xmlns:xml=\"http://www.w3.org/XML/1998/namespace\">t</a></doc>",
    "<p:doc xmlns:p=\"u\"><a xmlns:xml=\"http://www.w3.org/XML/1998/namespace\"/><p:b/></p:doc>",
    "<p:doc xmlns:p=\"u\"><a xmlns:xml=\"http://www.w3.org/XML/1998/namespace\"><c xmlns:xml=\"http://www.w3.org/XML/1998/namespace\"/></a><p:b xml:lang=\"en\"/></p:doc>",
    "<a xmlns:x=\"http://www.w3.org/XML/1998/namespace\" x:lang=\"en\"><b x:space=\"preserve\"/></a>",
    "<a xmlns=\"http://www.w3.org/XML/1998/namespace\"><b xmlns=\"\"/></a>",
    "<a xmlns:p=\"u\" xmlns:q=\"u\"><p:b q:k=\"v\"><q:c xmlns:p=\"w\" p:k=\"v\"/></p:b></a>",
    "<a xmlns=\"u\"><b xmlns=\"\"><c xmlns=\"u\"/></b></a>",
    "<a xml:id=\" i \" xml:space=\"default\"><b xml:id=\"j\" xml:lang=\"\"/></a>",
    "<a>x<![CDATA[y]]>z<![CDATA[]]><![CDATA[]]>w<b/><![CDATA[]]>t</a>",
    "<a xmlns:p=\"u\" p:xmlns=\"v\" xmlns=\"w\"><b p:xmlns=\"\"/></a>",
    "<?xml-stylesheet encoding=\"ISO-8859-1\"?><?XMLx?><a>\u{e9}<?xmlns a?></a>",
    "<a>x<![CDATA[y\rz]]>w<![CDATA[\r\n]]><![CDATA[q\r]]></a>",
    "<a xmlns:p=\"a&amp;amp;amp;r\" xmlns=\"&amp;#38;#9;\"><p:b p:k=\"&amp;amp;\"/></a>",
    "<a xmlns:XML=\"urn:x\" XML:lang=\"en\" xml:lang=\"de\"><XML:b/></a>",
];

fn arbitrary_text(rng: &mut Rng) -> String {
    if rng.chance(1, 40) {
        return rng.pick(TRICKY_DOCS).to_string();
    }
    let n = rng.range(0, 24);
    let mut s = String::new();
    for _ in 0..n {
        if rng.chance(5, 6) {
            s.push_str(*rng.pick(XMLISH));
        } else {
            let c = match rng.below(4) {
                0 => rng.below(0x80) as u32,
                1 => rng.below(0x800) as u32,
                2 => rng.below(0x10000) as u32,
                _ => rng.below(0x110000) as u32,
            };
            if let Some(ch) = char::from_u32(c) {
                s.push(ch);
            }
        }
    }
    s
}

fn arbitrary_bytes(rng: &mut Rng) -> Vec<u8> {
    let mode = rng.below(6);
    let n = if rng.chance(1, 200) { rng.range(1000, 65536) } else { rng.range(0, 64) };
    let mut v: Vec<u8> = Vec::with_capacity(n + 8);
    match mode {
        0 => v.extend_from_slice(&[0xEF, 0xBB, 0xBF]),
        1 => v.extend_from_slice(&[0xFF, 0xFE]),
        2 => v.extend_from_slice(&[0xFE, 0xFF]),
        3 => v.extend_from_slice(b"<?xml version=\"1.0\" encoding=\""),
        _ => {}
    }
    if mode == 3 {
        v.extend_from_slice(rng.pick(&["UTF-8", "utf-16", "ISO-8859-1", "windows-1252", "foo", "", "x-user-defined", "UTF-16LE", "ebcdic", "\u{e9}"]).as_bytes());
        v.extend_from_slice(b"\"?>");
    }
    for _ in 0..n {
        if rng.chance(1, 3) {
            v.extend_from_slice(rng.pick(XMLISH).as_bytes());
        } else {
            v.push(rng.below(256) as u8);
        }
    }
    v
}

// ---------------------------------------------------------------------------------------------
// stream 2: well-formedness breakers

pub struct Broken {
    pub text: String,
    pub breaker: &'static str,
    /// only the document entry points must reject it
    pub doc_only: bool,
}

pub const BAD_REFS: &[&str] = &[
    "&#;", "&#x;", "&#xg;", "&#12 ", "&nosuch;", "&#+65;", "&#x+41;", "&# 65;", "&#0;", "&#1;", "&#8;", "&#xB;", "&#xC;", "&#xE;", "&#x1F;",
    "&#xD800;", "&#xDFFF;", "&#xFFFE;", "&#xFFFF;", "&#x110000;", "&#99999999999;", "&#x-41;", "&;", "&#-1;", "&amp", "&#65",
    // values that wrap to a legal character modulo 2^32 / 2^64
    "&#x100000041;", "&#4294967361;", "&#x10000000A;", "&#18446744073709551681;", "&#x10000000000000041;",
];

fn insert(text: &str, at: usize, what: &str) -> String {
    let mut s = String::with_capacity(text.len() + what.len());
    s.push_str(&text[..at]);
    s.push_str(what);
    s.push_str(&text[at..]);
    s
}

fn scope_at(doc: &ANode, path: &[usize]) -> Scope {
    let mut sc = Scope::new();
    let mut cur = doc;
    for i in path {
        cur = &cur.children[*i];
        sc.push_all(&cur.decls);
    }
    sc
}

fn anode_at<'a>(a: &'a ANode, path: &[usize]) -> &'a ANode {
    let mut cur = a;
    for i in path {
        cur = &cur.children[*i];
    }
    cur
}

/// apply one breaker of kind `k` to a plain-structured rendering; None when not applicable
pub fn break_it(doc: &ANode, r: &Rendered, k: usize, rng: &mut Rng, fragment: bool) -> Option<Broken> {
    let t = &r.text;
    let starts: Vec<&render::SpanRec> = r.spans.iter().filter(|s| s.kind == SpanKind::ElemStart).collect();
    let ends: Vec<&render::SpanRec> = r.spans.iter().filter(|s| s.kind == SpanKind::ElemEnd && t[s.start..].starts_with("</")).collect();
    let texts: Vec<&render::SpanRec> = r.spans.iter().filter(|s| s.kind == SpanKind::Text).collect();
    let avals: Vec<&render::SpanRec> = r.spans.iter().filter(|s| matches!(s.kind, SpanKind::AttrValue(_))).collect();
    let anames: Vec<&render::SpanRec> = r.spans.iter().filter(|s| matches!(s.kind, SpanKind::AttrName(_))).collect();
    if starts.is_empty() {
        return None;
    }
    // a content position: just before an end tag, or at the start of a text run
    let content_pos = |rng: &mut Rng| -> Option<usize> {
        let mut c: Vec<usize> = ends.iter().map(|e| e.start).collect();
        // a text run may start inside a CDATA section: that is not a content position
        c.extend(texts.iter().map(|x| x.start).filter(|st| !t[..*st].ends_with("<![CDATA[")));
        if c.is_empty() {
            None
        } else {
            Some(c[rng.below(c.len())])
        }
    };
    let b = |text: String, breaker: &'static str, doc_only: bool| Some(Broken { text, breaker, doc_only });
    match k {
        0 => {
            let e = ends.get(rng.below(ends.len().max(1)))?;
            // rename the end tag: other local name
            let close = t[e.start..e.end].find(|c: char| c == '>' || is_xml_space(c)).map(|i| e.start + i)?;
            b(insert(t, close, "x"), "end-tag-other-local-name", false)
        }
        1 => {
            let e = ends.get(rng.below(ends.len().max(1)))?;
            b(format!("{}</zz:{}", &t[..e.start], &t[e.start + 2..]), "end-tag-undeclared-prefix", false)
        }
        2 => {
            // alias prefix of the same namespace in the end tag
            let mut cands = Vec::new();
            for e in &ends {
                let an = anode_at(doc, &e.path);
                if an.name.ns.is_empty() {
                    continue;
                }
                let sc = scope_at(doc, &e.path);
                let written = &t[e.start + 2..e.end];
                let wp = if let Some(i) = written.find(':') { &written[..i] } else { "" };
                for p in sc.prefixes_for(&an.name.ns, true) {
                    if p != wp {
                        cands.push((e.start, e.end, p, an.name.local.clone()));
                    }
                }
            }
            if cands.is_empty() {
                return None;
            }
            let (s, e, p, l) = cands[rng.below(cands.len())].clone();
            let q = if p.is_empty() { l } else { format!("{}:{}", p, l) };
            b(format!("{}</{}>{}", &t[..s], q, &t[e..]), "end-tag-alias-prefix-of-same-namespace", false)
        }
        3 => {
            let e = ends.get(rng.below(ends.len().max(1)))?;
            b(format!("{}{}", &t[..e.start], &t[e.end..]), "end-tag-deleted", false)
        }
        4 => {
            let p = content_pos(rng)?;
            b(insert(t, p, "</nosuch>"), "stray-end-tag-in-content", false)
        }
        5 => {
            if fragment {
                b(format!("{}</a>", t), "stray-end-tag-at-top-level-of-fragment", false)
            } else {
                b(format!("{}</a>", t), "stray-end-tag-after-root", false)
            }
        }
        6 => {
            // swap the end tags of a child and its parent when their names differ
            for e in &ends {
                if e.path.len() < 2 {
                    continue;
                }
                let pp = &e.path[..e.path.len() - 1];
                if let Some(pe) = ends.iter().find(|x| x.path == pp) {
                    let a = &t[e.start..e.end];
                    let c = &t[pe.start..pe.end];
                    if a.trim_end_matches('>').trim() != c.trim_end_matches('>').trim() && e.end <= pe.start {
                        let s = format!("{}{}{}{}{}", &t[..e.start], c, &t[e.end..pe.start], a, &t[pe.end..]);
                        return b(s, "end-tags-swapped", false);
                    }
                }
            }
            None
        }
        7 => b(format!("{}<r2/>", t), "second-root", true),
        8 => {
            if rng.bool() {
                b(format!("{}x", t), "text-after-root", true)
            } else {
                let at = starts[0].start - 1;
                b(insert(t, at, "x"), "text-before-root", true)
            }
        }
        9 => b("<!--only a comment--><?pi?>".to_string(), "no-root", true),
        10 => {
            let n = anames.get(rng.below(anames.len().max(1)))?;
            let v = avals.iter().find(|v| v.path == n.path && v.start > n.start)?;
            let name = &t[n.start..n.end];
            b(insert(t, v.end + 1, &format!(" {}=\"dup\"", name)), "attribute-repeated-literally", false)
        }
        11 => {
            // attribute repeated through another prefix of the same namespace
            let mut c = Vec::new();
            for n in &anames {
                if let SpanKind::AttrName(q) = &n.kind {
                    if !q.ns.is_empty() && q.ns != XML_NS {
                        if let Some(v) = avals.iter().find(|v| v.path == n.path && v.start > n.start) {
                            c.push((v.end + 1, q.clone()));
                        }
                    }
                }
            }
            if c.is_empty() {
                return None;
            }
            let (at, q) = c[rng.below(c.len())].clone();
            let uri = q.ns.replace('&', "&amp;").replace('<', "&lt;").replace('"', "&quot;").replace('\t', "&#9;").replace('\n', "&#10;").replace('\r', "&#13;");
            // the alias prefix is declared either on the element itself or on the outermost element
            let root_start = starts[0];
            if at > root_start.end && rng.bool() && t[root_start.end..at].contains('>') {
                let s1 = insert(t, at, &format!(" zq:{}=\"dup\"", q.local));
                b(insert(&s1, root_start.end, &format!(" xmlns:zq=\"{}\"", uri)), "attribute-repeated-through-second-prefix-declared-on-ancestor", false)
            } else {
                b(insert(t, at, &format!(" xmlns:zq=\"{}\" zq:{}=\"dup\"", uri, q.local)), "attribute-repeated-through-second-prefix", false)
            }
        }
        12 => {
            let s = starts[rng.below(starts.len())];
            if rng.bool() {
                b(insert(t, s.end, " xmlns:zq=\"urn:1\" xmlns:zq=\"urn:2\""), "prefix-declared-twice", false)
            } else {
                // only where the element does not already declare a default namespace (else it is a plain duplicate, also ill-formed)
                b(insert(t, s.end, " xmlns=\"urn:1\" xmlns=\"urn:1\""), "default-namespace-declared-twice", false)
            }
        }
        13 => {
            let s = starts[rng.below(starts.len())];
            match rng.below(4) {
                // xmlns:p="" binds p to nothing: the prefix stays undeclared (and the declaration itself is not allowed)
                0 => b(insert(t, s.end, " xmlns:zq=\"\" zq:k=\"v\""), "prefix-declared-with-empty-value-then-used", false),
                1 => b(insert(t, s.end, " xmlns:zq=\"\""), "prefix-declared-with-empty-value", false),
                2 => b(insert(t, s.end, *rng.pick(&[" zz:xmlns=\"urn:v\"", " zz:xml=\"v\"", " zz:id=\"v\"", " zz:zz=\"v\""])), "undeclared-prefix-on-attribute-with-special-local-name", false),
                _ => b(insert(t, s.end, " zz:k=\"v\""), "undeclared-prefix-on-attribute", false),
            }
        }
        14 => {
            // undeclared prefix on an element (start and end tag consistently)
            let p = content_pos(rng)?;
            b(insert(t, p, "<zz:e></zz:e>"), "undeclared-prefix-on-element", false)
        }
        15 => {
            let p = content_pos(rng)?;
            // only spellings that no following text can complete into markup ("<" + "?x?>" is a PI, "<b" + "/>" an element)
            b(insert(t, p, *rng.pick(&["< ", "<<", "< a", "<1>"])), "raw-lt-in-content", false)
        }
        16 => {
            let v = avals.get(rng.below(avals.len().max(1)))?;
            b(insert(t, v.start, "<"), "raw-lt-in-attribute-value", false)
        }
        17 => {
            let p = content_pos(rng)?;
            b(insert(t, p, *rng.pick(&["& ", "& a;", "a&b ", "&&"])), "raw-amp-in-content", false)
        }
        18 => {
            let v = avals.get(rng.below(avals.len().max(1)))?;
            b(insert(t, v.start, "& "), "raw-amp-in-attribute-value", false)
        }
        19 => {
            let p = content_pos(rng)?;
            // only self-contained spellings: an unterminated comment could be closed by a later "-->" in text
            if rng.chance(1, 4) {
                b(format!("{}<!-- a", &t[..p]), "unterminated-comment-at-end", false)
            } else {
                b(insert(t, p, *rng.pick(&["<!-- a -- b -->", "<!-- a --->", "<!- a -->"])), "malformed-comment", false)
            }
        }
        20 => {
            let p = content_pos(rng)?;
            if p == 0 {
                return None;
            }
            match rng.below(5) {
                0 => b(format!("{}<?pi a", &t[..p]), "unterminated-pi-at-end", false),
                1 => {
                    // the reserved target in any mix of upper and lower case, with or without data
                    let target = *rng.pick(&["XML", "Xml", "xMl", "xmL", "XMl", "XmL", "xML"]);
                    let data = *rng.pick(&[" a", "", " version=\"1.0\"", "\ta"]);
                    b(insert(t, p, &format!("<?{}{}?>", target, data)), "pi-target-xml-in-other-letter-case", false)
                }
                _ => b(insert(t, p, *rng.pick(&["<? x?>", "<?xml version=\"1.0\"?>", "<?>"])), "malformed-pi", false),
            }
        }
        21 => {
            let p = content_pos(rng)?;
            if rng.chance(1, 3) {
                b(format!("{}<![CDATA[ x", &t[..p]), "unterminated-cdata-at-end", false)
            } else {
                b(insert(t, p, *rng.pick(&["<![cdata[x]]>", "<![CDATA x]]>"])), "malformed-cdata", false)
            }
        }
        22 => {
            let p = content_pos(rng)?;
            b(insert(t, p, "]]>"), "cdata-end-in-text", false)
        }
        23 => b(format!("{}<![CDATA[x]]>", t), "cdata-after-root", true),
        24 => {
            let p = content_pos(rng)?;
            b(insert(t, p, *rng.pick(BAD_REFS)), "bad-reference-in-content", false)
        }
        25 => {
            let v = avals.get(rng.below(avals.len().max(1)))?;
            b(insert(t, v.start, *rng.pick(BAD_REFS)), "bad-reference-in-attribute-value", false)
        }
        26 => {
            let d = *rng.pick(&["<!DOCTYPE a>", "<!DOCTYPE a [<!ENTITY e \"x\">]>", "<!DOCTYPE a SYSTEM \"a.dtd\">", "<!DOCTYPE a []>"]);
            b(format!("{}{}", d, t), "doctype", true)
        }
        27 => {
            if rng.chance(1, 3) {
                // after "<?xml" only XML white space starts a declaration: form feed, vertical tab, NBSP do not
                let c = *rng.pick(&["\u{c}", "\u{b}", "\u{a0}", "\u{85}"]);
                return b(format!("<?xml{}version=\"1.0\"?>{}", c, t), "declaration-target-followed-by-non-xml-space", true);
            }
            let v = *rng.pick(&["1.1", "2.0", "1.00", "1.000", "01.0", "1.0 ", "1"]);
            b(format!("<?xml version=\"{}\"?>{}", v, t), "version-not-1.0", true)
        }
        28 => {
            // duplicate xml:id (after normalisation)
            let free: Vec<&&render::SpanRec> = starts
                .iter()
                .filter(|s| !anode_at(doc, &s.path).attrs.iter().any(|(q, _)| q.ns == XML_NS && q.local == "id"))
                .collect();
            if free.len() < 2 {
                return None;
            }
            let i = rng.below(free.len());
            let mut j = rng.below(free.len());
            if i == j {
                j = (j + 1) % free.len();
            }
            let (a, c) = if free[i].end < free[j].end { (free[i], free[j]) } else { (free[j], free[i]) };
            if rng.chance(1, 4) {
                // ids that are empty, or empty after normalisation, are equal too
                let first = *rng.pick(&[" xml:id=\"\"", " xml:id=\" \"", " xml:id=\"\t\""]);
                let second = *rng.pick(&[" xml:id=\"\"", " xml:id='  '", " xml:id=\"\n\""]);
                let s = insert(t, c.end, second);
                return b(insert(&s, a.end, first), "duplicate-empty-xml-id", false);
            }
            let second = *rng.pick(&[" xml:id=\"dupid\"", " xml:id=\" dupid \"", " xml:id='dupid'"]);
            let s = insert(t, c.end, second);
            b(insert(&s, a.end, " xml:id=\"dupid\""), "duplicate-xml-id", false)
        }
        29 => {
            // unterminated start tag / attribute
            let s = starts[rng.below(starts.len())];
            b(t[..s.end].to_string(), "truncated-inside-start-tag", false)
        }
        30 => {
            let v = avals.get(rng.below(avals.len().max(1)))?;
            b(t[..v.start].to_string(), "truncated-inside-attribute-value", false)
        }
        31 => {
            let s = starts[rng.below(starts.len())];
            b(insert(t, s.end, *rng.pick(&[" k", " k=", " k=v", " =\"v\"", " k=\"v\"l=\"w\"", " 1k=\"v\""])), "malformed-attribute", false)
        }
        _ => None,
    }
}

pub const N_BREAKERS: usize = 32;

fn breaker_doc(rng: &mut Rng) -> (ANode, Rendered, bool) {
    loop {
        let mut cfg = GenCfg::default();
        cfg.max_nodes = *rng.pick(&[3, 6, 12, 25]);
        cfg.max_depth = *rng.pick(&[2, 4, 6]);
        cfg.fragment = rng.chance(1, 4);
        cfg.ns_mode = if rng.chance(1, 4) { NsMode::None } else { NsMode::Consistent };
        cfg.text = if rng.bool() { TextProfile::Plain } else { TextProfile::Hostile };
        cfg.str_len = 5;
        cfg.xml_id = rng.chance(1, 4);
        cfg.top_misc = rng.chance(1, 3);
        let d = gen::gen_document(rng, &cfg);
        if !render::renderable(&d) {
            continue;
        }
        let wf = gen::is_wf_document(&d);
        let opts = RenderOpts { fragment: !wf, allow_decl: false, allow_bom: false, plain: rng.bool(), ..Default::default() };
        let r = render::render(&d, &mut RandomChoices(rng), &opts);
        return (d, r, !wf);
    }
}

/// C17 error-span clause: a rejected input's ParseError::span() lies inside the source
pub fn error_span_case(rng: &mut Rng, ctx: &mut Ctx) {
    let (doc, r, frag) = breaker_doc(rng);
    let text = if rng.chance(1, 5) {
        let mut t = arbitrary_text(rng);
        if rng.chance(1, 3) {
            t = format!("\u{feff}{}", r.text);
        }
        t
    } else if rng.chance(2, 3) {
        let k = rng.below(N_BREAKERS);
        match break_it(&doc, &r, k, rng, frag) {
            Some(b) => b.text,
            None => r.text.clone(),
        }
    } else {
        mutate_text(&r.text, rng)
    };
    // whatever is accepted: the spans must be self-consistent with the source
    for frag in [false, true] {
        let mut xot = Xot::new();
        let r = guard(|| if frag { xot.parse_fragment_with_span_info(&text) } else { xot.parse_with_span_info(&text) });
        if let Ok(Ok((d, si))) = r {
            if let Some((clause, item, what)) = super::parsing::span_self_check(&xot, d, &si, &text) {
                ctx.violation(
                    "a recorded span does not point at the right text",
                    format!("C17/{}/self-check/{}/{}", if frag { "parse_fragment_with_span_info" } else { "parse_with_span_info" }, clause, item),
                    J::obj().set("text", J::s(trunc(&text, 1200))).set("what", J::s(what)),
                );
                return;
            }
            ctx.count("span_self_checks_passed");
        }
    }
    for ep in [PEp::Parse, PEp::ParseSpan, PEp::Fragment, PEp::FragmentSpan] {
        let mut xot = Xot::new();
        if let Ok(Err(e)) = run_ep(&mut xot, ep, &Input::Text(&text)) {
            match guard(|| e.span()) {
                Ok(sp) => {
                    if sp.start > sp.end || sp.end > text.len() {
                        ctx.violation(
                            "a ParseError reports a span outside the source",
                            format!("C17/{}/error-span-out-of-bounds/{}", ep.name(), parse_err_variant(&e)),
                            J::obj().set("text", J::s(trunc(&text, 1200))).set("error", J::s(format!("{:?}", e))).set("span", J::s(format!("{}..{} (len {})", sp.start, sp.end, text.len()))),
                        );
                        return;
                    }
                    ctx.count("error_spans_checked");
                    ctx.count(&format!("error_variant.{}", parse_err_variant(&e)));
                    // errors that name a piece of the source: the span is where that piece is
                    if text.is_char_boundary(sp.start) && text.is_char_boundary(sp.end) {
                        let slice = &text[sp.start..sp.end];
                        let named: Option<(&str, String)> = match &e {
                            xot::ParseError::UnknownPrefix(p, _) => Some(("UnknownPrefix", p.clone())),
                            xot::ParseError::DuplicateAttribute(n, _) => Some(("DuplicateAttribute", n.clone())),
                            xot::ParseError::UnsupportedVersion(v, _) => Some(("UnsupportedVersion", v.clone())),
                            xot::ParseError::InvalidEntity(n, _) => Some(("InvalidEntity", n.clone())),
                            _ => None,
                        };
                        if let Some((variant, payload)) = named {
                            // loose on purpose: the named piece, without reference delimiters, occurs inside the slice
                            let core = payload.trim_matches(|c| c == '&' || c == ';');
                            let slice_core = slice.trim_matches(|c: char| c == '&' || c == ';' || c == '"' || c == '\'' || c.is_whitespace());
                            // either way round: the message may be more or less detailed than the span
                            if slice.contains(core) || (!slice_core.is_empty() && core.contains(slice_core)) {
                                ctx.count(&format!("error_payload_in_span.{}", variant));
                            } else {
                                ctx.violation(
                                    "a ParseError names a piece of the source and reports a span where that piece is not",
                                    format!("C17/{}/error-span-not-at-the-named-text/{}", ep.name(), variant),
                                    J::obj().set("text", J::s(trunc(&text, 1200))).set("error", J::s(format!("{:?}", e))).set("slice", J::s(slice.to_string())),
                                );
                                return;
                            }
                        }
                    }
                }
                Err(p) => {
                    ctx.violation("ParseError::span() panicked", format!("C17/{}/error-span-panic", ep.name()), J::obj().set("panic", J::s(p.short())));
                    return;
                }
            }
        }
    }
    if text.len() != text.chars().count() {
        ctx.nontrivial(crate::rng::hash_str(&text));
    }
}

fn mutate_text(t: &str, rng: &mut Rng) -> String {
    let mut chars: Vec<char> = t.chars().collect();
    let n = rng.range(1, 3);
    for _ in 0..n {
        if chars.is_empty() {
            break;
        }
        let i = rng.below(chars.len());
        match rng.below(5) {
            0 => {
                chars.remove(i);
            }
            1 => chars[i] = *rng.pick(&['<', '>', '&', '"', '\'', '/', '=', ';', ' ', '!', '?', '-', ']', 'x']),
            2 => {
                let j = rng.below(chars.len());
                let (a, z) = if i < j { (i, j) } else { (j, i) };
                let span: Vec<char> = chars[a..z.min(a + 20)].to_vec();
                let at = rng.below(chars.len());
                for (k, c) in span.into_iter().enumerate() {
                    chars.insert((at + k).min(chars.len()), c);
                }
            }
            3 => chars.truncate(i),
            _ => {
                for c in rng.pick(XMLISH).chars() {
                    chars.insert(i.min(chars.len()), c);
                }
            }
        }
    }
    chars.into_iter().collect()
}

fn mutate_bytes(b: &[u8], rng: &mut Rng) -> Vec<u8> {
    let mut v = b.to_vec();
    let n = rng.range(1, 3);
    for _ in 0..n {
        if v.is_empty() {
            break;
        }
        let i = rng.below(v.len());
        match rng.below(4) {
            0 => v[i] ^= 1 << rng.below(8),
            1 => {
                v.remove(i);
            }
            2 => v.insert(i, rng.below(256) as u8),
            _ => v.truncate(i),
        }
    }
    v
}

impl C03 {
    fn totality_and_loop(&self, ctx: &mut Ctx, input: &Input, origin: &str, eps: &[PEp]) {
        let len = match input {
            Input::Text(t) => t.len(),
            Input::Bytes(b) => b.len(),
        };
        for ep in eps {
            // the library's settings and the way the Xot came into being make no difference to the parser: one input
            // in five meets a Xot with text consolidation switched off, one in seven a Xot from Default
            let mut xot = if len % 7 == 3 { Xot::default() } else { Xot::new() };
            if len % 5 == 2 {
                xot.set_text_consolidation(false);
                ctx.count("parsed_with_text_consolidation_off");
            }
            match run_ep(&mut xot, *ep, input) {
                Err(p) => {
                    ctx.violation(
                        "a parse entry point panicked",
                        format!("C03/{}/panic/{}", ep.name(), p.sig()),
                        J::obj().set("input", show_input(input)).set("panic", J::s(p.short())).set("origin", J::s(origin)),
                    );
                }
                Ok(Err(e)) => {
                    // the error is a value like any other: it can be shown and converted
                    if let Err(p) = guard(|| (format!("{} / {:?}", e, e), xot::Error::from(e.clone()).to_string())) {
                        ctx.violation(
                            "formatting a ParseError panicked",
                            format!("C03/{}/panic-in-error-display/{}", ep.name(), p.sig()),
                            J::obj().set("input", show_input(input)).set("panic", J::s(p.short())),
                        );
                    }
                    ctx.count(&format!("rejected.{}", origin));
                    self.no_state_leak(ctx, &mut xot, *ep, input, origin);
                }
                Ok(Ok(d)) => {
                    ctx.count(&format!("accepted.{}", origin));
                    if accepted_is_sound(ctx, &xot, d, *ep, input, origin) {
                        self.no_state_leak(ctx, &mut xot, *ep, input, origin);
                    }
                }
            }
        }
    }

    /// The next parse on the same Xot must not see anything of this input: a prefix the input declared is
    /// unknown again, and no default namespace is in force.
    fn no_state_leak(&self, ctx: &mut Ctx, xot: &mut Xot, ep: PEp, input: &Input, origin: &str) {
        let text: String = match input {
            Input::Text(t) => t.to_string(),
            Input::Bytes(b) => String::from_utf8_lossy(&b[..b.len().min(4096)]).to_string(),
        };
        // one input in three (decided by its length: no generator state is consumed)
        if text.len() % 3 != 0 {
            return;
        }
        let mut prefixes: Vec<String> = Vec::new();
        for (i, _) in text.match_indices("xmlns:") {
            let p: String = text[i + 6..].chars().take_while(|c| c.is_ascii_alphanumeric()).collect();
            if !p.is_empty() && p != "xml" && !prefixes.contains(&p) && prefixes.len() < 3 {
                prefixes.push(p);
            }
        }
        for p in &prefixes {
            let probe = format!("<probe><{}:x/></probe>", p);
            match guard(|| xot.parse(&probe)) {
                Ok(Err(_)) => ctx.count("state_leak_probes"),
                other => {
                    ctx.violation(
                        "a prefix declared by an earlier input is still bound in the next parse on the same Xot",
                        format!("C03/{}/state-leak/prefix-of-earlier-input/{}", ep.name(), origin),
                        J::obj().set("first_input", show_input(input)).set("second_input", J::s(probe.clone())).set("outcome", J::s(format!("{:?}", other.map(|r| r.map(|_| "accepted")).map_err(|p| p.short())))),
                    );
                    return;
                }
            }
        }
        if text.contains("xmlns=") {
            let r = guard(|| {
                let d = xot.parse("<probe/>")?;
                let e = xot.document_element(d).map_err(|_| xot::ParseError::NoElementAtTopLevel(0))?;
                let (l, u) = xot.name_ns_str(xot.node_name(e).unwrap());
                Ok::<(String, String), xot::ParseError>((l.to_string(), u.to_string()))
            });
            match r {
                Ok(Ok((l, u))) if l == "probe" && u.is_empty() => ctx.count("state_leak_probes"),
                other => {
                    ctx.violation(
                        "a default namespace declared by an earlier input is in force in the next parse on the same Xot",
                        format!("C03/{}/state-leak/default-namespace-of-earlier-input/{}", ep.name(), origin),
                        J::obj().set("first_input", show_input(input)).set("second_input", J::s("<probe/>")).set("outcome", J::s(format!("{:?}", other.map(|r| r.map_err(|e| format!("{:?}", e))).map_err(|p| p.short())))),
                    );
                }
            }
        }
    }
}

impl Monitor for C03 {
    fn id(&self) -> &'static str {
        "C03"
    }
    fn hang_is_violation(&self) -> bool {
        true
    }
    fn streams(&self, tier: Tier, budget: f64) -> Vec<Stream> {
        let (a, b, c) = match tier {
            Tier::Quick => (150_000, 250_000, 100_000),
            Tier::Thorough => (2_000_000, 3_000_000, 1_500_000),
        };
        vec![
            Stream::solo("stress-sizes", 4),
            Stream::new("forced-breakers", (N_BREAKERS * 60) as u64),
            Stream::new("arbitrary-input", scaled(a, budget)),
            Stream::new("breakers", scaled(b, budget)),
            Stream::new("mutated-renderings", scaled(c, budget)),
        ]
    }
    fn rule(&self) -> String {
        "(1) arbitrary bytes / Unicode strings biased to XML-ish fragments, BOMs and encoding labels through all five parse entry points; (2) valid renderings of generated documents damaged by one of 32 well-formedness / namespace-constraint breakers at a random applicable position (must be rejected; document-only breakers must still be accepted by the fragment entry points' rules); (3) byte- and character-level mutations of valid renderings; (3b) after one input in three, probes on the SAME Xot: a document using a prefix the input declared must be rejected again and <probe/> must be in no namespace (no parser state survives a call, accepted or rejected); (4) four stress sizes run alone (depth 5000, 2000 attributes, 1 MiB text, 10^5 siblings). Every call under catch_unwind and a 20 s watchdog; every accepted input must pass the structural walker, validate_well_formed_document, serialise, and reparse equal. Non-trivial = input of >= 8 bytes; distinct by hash of the input".into()
    }
    fn floors(&self, _tier: Tier) -> Vec<(&'static str, u64)> {
        vec![
            ("accepted_inputs_closed_the_loop", 5_000),
            ("breakers_applied", 20_000),
            ("breakers_rejected_as_required", 20_000),
            ("rejected.arbitrary", 1_000),
            ("accepted.arbitrary", 200),
            ("stress_inputs_returned", 4),
            ("state_leak_probes", 5_000),
        ]
    }
    fn assumptions(&self) -> Vec<String> {
        vec![
            "only the ill-formedness classes the statement lists are required to be rejected".into(),
            "hang = no return within 20 s on inputs up to the stated stress sizes".into(),
        ]
    }
    fn extra_evidence(&self, counters: &std::collections::BTreeMap<String, u64>) -> Vec<(String, J)> {
        let kinds: Vec<(String, J)> = counters.iter().filter(|(k, _)| k.starts_with("breaker.")).map(|(k, v)| (k.clone(), J::i(*v))).collect();
        vec![("breaker_kinds_applied".to_string(), J::Obj(kinds))]
    }
    fn run_case(&self, stream: usize, idx: u64, rng: &mut Rng, ctx: &mut Ctx) {
        match stream {
            0 => {
                let text = match idx {
                    0 => {
                        let d = 5000;
                        let mut s = String::new();
                        for _ in 0..d {
                            s.push_str("<a>");
                        }
                        s.push('x');
                        for _ in 0..d {
                            s.push_str("</a>");
                        }
                        s
                    }
                    1 => {
                        let mut s = String::from("<a");
                        for i in 0..2000 {
                            s.push_str(&format!(" k{}=\"v\"", i));
                        }
                        s.push_str("/>");
                        s
                    }
                    2 => format!("<a>{}</a>", "0123456789abcdef &amp; ".repeat(1 << 16)),
                    _ => format!("<a>{}</a>", "<b/>".repeat(100_000)),
                };
                let mut xot = Xot::new();
                match run_ep(&mut xot, PEp::Parse, &Input::Text(&text)) {
                    Ok(Ok(d)) => {
                        let s = ser(&xot, d);
                        match s {
                            Ok(Ok(t2)) => {
                                let mut x2 = Xot::new();
                                match run_ep(&mut x2, PEp::Parse, &Input::Text(&t2)) {
                                    Ok(Ok(_)) => ctx.count("stress_inputs_returned"),
                                    other => ctx.violation("stress input: serialisation not accepted", format!("C03/stress/{}/reparse", idx), J::obj().set("result", J::s(format!("{:?}", other.map(|r| r.map(|_| ()).map_err(|e| format!("{:?}", e))).map_err(|p| p.short()))))),
                                }
                            }
                            other => ctx.violation("stress input: not serialisable", format!("C03/stress/{}/serialise", idx), J::obj().set("result", J::s(format!("{:?}", other.map(|r| r.map(|_| ()).map_err(|e| format!("{:?}", e))).map_err(|p| p.short()))))),
                        }
                    }
                    other => ctx.violation("stress input rejected or panicked", format!("C03/stress/{}/parse", idx), J::obj().set("result", J::s(format!("{:?}", other.map(|r| r.map(|_| ()).map_err(|e| format!("{:?}", e))).map_err(|p| p.short()))))),
                }
            }
            1 | 3 => {
                let (doc, r, frag) = breaker_doc(rng);
                let k = if stream == 1 { (idx as usize) % N_BREAKERS } else { rng.below(N_BREAKERS) };
                // the undamaged rendering must be accepted by its entry points
                let br = match break_it(&doc, &r, k, rng, frag) {
                    Some(b) => b,
                    None => {
                        ctx.count("breaker_not_applicable");
                        return;
                    }
                };
                ctx.count("breakers_applied");
                ctx.count(&format!("breaker.{}", br.breaker));
                if br.text.len() >= 8 {
                    ctx.nontrivial(crate::rng::hash_str(&br.text));
                }
                let mut all_rejected = true;
                for ep in ALL_EPS {
                    if br.doc_only && !ep.is_document() {
                        // document-only constraint: the fragment entry points only must not panic, and what they accept must be sound
                        self.totality_and_loop(ctx, &Input::Text(&br.text), "doc-only-breaker-on-fragment-entry-point", &[ep]);
                        continue;
                    }
                    if frag && ep.is_document() && !br.doc_only {
                        // a fragment rendering is already not a document; nothing to learn
                        continue;
                    }
                    let mut xot = Xot::new();
                    match run_ep(&mut xot, ep, &Input::Text(&br.text)) {
                        Err(p) => {
                            all_rejected = false;
                            ctx.violation(
                                "a parse entry point panicked on ill-formed input",
                                format!("C03/{}/panic/{}/{}", ep.name(), br.breaker, p.sig()),
                                J::obj().set("input", J::s(trunc(&br.text, 1200))).set("breaker", J::s(br.breaker)).set("panic", J::s(p.short())),
                            );
                        }
                        Ok(Ok(_)) => {
                            all_rejected = false;
                            ctx.violation(
                                "ill-formed text was accepted",
                                format!("C03/{}/accepted-ill-formed/{}", if ep.is_document() { "document-entry-points" } else { "fragment-entry-points" }, br.breaker),
                                J::obj().set("input", J::s(trunc(&br.text, 1200))).set("breaker", J::s(br.breaker)).set("entry_point", J::s(ep.name())).set("undamaged", J::s(trunc(&r.text, 600))),
                            );
                        }
                        Ok(Err(_)) => self.no_state_leak(ctx, &mut xot, ep, &Input::Text(&br.text), br.breaker),
                    }
                }
                if all_rejected {
                    ctx.count("breakers_rejected_as_required");
                }
                ctx.sample(|| J::obj().set("breaker", J::s(br.breaker)).set("input", J::s(trunc(&br.text, 400))));
            }
            2 => {
                if rng.bool() {
                    let t = arbitrary_text(rng);
                    if t.len() >= 8 {
                        ctx.nontrivial(crate::rng::hash_str(&t));
                    }
                    self.totality_and_loop(ctx, &Input::Text(&t), "arbitrary", &ALL_EPS);
                } else {
                    let b = arbitrary_bytes(rng);
                    if b.len() >= 8 {
                        ctx.nontrivial(crate::rng::hash_str(&String::from_utf8_lossy(&b)));
                    }
                    self.totality_and_loop(ctx, &Input::Bytes(&b), "arbitrary", &ALL_EPS);
                }
            }
            _ => {
                let (_doc, r, _frag) = breaker_doc(rng);
                if rng.bool() {
                    let t = mutate_text(&r.text, rng);
                    ctx.nontrivial(crate::rng::hash_str(&t));
                    self.totality_and_loop(ctx, &Input::Text(&t), "mutated", &ALL_EPS);
                } else {
                    let b = mutate_bytes(r.text.as_bytes(), rng);
                    ctx.nontrivial(crate::rng::hash_str(&String::from_utf8_lossy(&b)));
                    self.totality_and_loop(ctx, &Input::Bytes(&b), "mutated", &[PEp::Bytes, PEp::Parse, PEp::Fragment]);
                }
            }
        }
    }
}
