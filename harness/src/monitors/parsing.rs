//! C02 (parsing yields exactly the document the text denotes) and C17 (source spans and error
//! positions). Both ride on the lexical renderer, which is its own oracle.

use super::common::*;
use crate::adoc::*;
use crate::engine::{guard, Ctx, Monitor, Stream, Tier};
use crate::gen::{self, GenCfg, NsMode, TextProfile};
use crate::json::J;
use crate::render::{self, Choices, Enc, Odometer, RandomChoices, RenderOpts, Rendered, SpanKind};
use crate::rng::Rng;
use crate::snap::{self, HTree};
use xot::{Node, SpanInfo, SpanInfoKey, Xot};

#[derive(Clone, Copy, PartialEq, Eq)]
pub enum PW {
    C02,
    C17,
}

pub struct Parsing(pub PW);

#[derive(Clone, Copy, PartialEq, Eq, Debug)]
pub enum Ep {
    Parse,
    ParseSpan,
    Fragment,
    FragmentSpan,
    Bytes(Enc),
}

impl Ep {
    fn name(self) -> String {
        match self {
            Ep::Parse => "parse".into(),
            Ep::ParseSpan => "parse_with_span_info".into(),
            Ep::Fragment => "parse_fragment".into(),
            Ep::FragmentSpan => "parse_fragment_with_span_info".into(),
            Ep::Bytes(e) => format!("parse_bytes[{}]", e.name()),
        }
    }
}

pub fn forced_docs() -> Vec<ANode> {
    let e = |n: &str| ANode::elem(QName::plain(n));
    vec![
        // CRLF inside CDATA, text/CDATA/text runs
        ANode::doc(vec![e("a").with_children(vec![ANode::text("x\ny\n\nz]]>w")])]),
        // references for white space inside attributes
        ANode::doc(vec![e("a").with_attr(QName::plain("t"), "1\t2\n3\r4 5  6")]),
        // entity reference inside a namespace URI
        ANode::doc(vec![ANode::elem(QName::new("urn:x&y\"z<w", "a")).with_decl("p", "urn:x&y\"z<w")]),
        // shadowed prefix used on an attribute
        ANode::doc(vec![ANode::elem(QName::new("urn:A", "a")).with_decl("p", "urn:A").with_attr(QName::new("urn:A", "k"), "1").with_children(vec![
            ANode::elem(QName::new("urn:B", "b")).with_decl("p", "urn:B").with_attr(QName::new("urn:B", "k"), "2").with_children(vec![
                ANode::elem(QName::plain("c")).with_decl("q", "urn:A").with_attr(QName::new("urn:A", "k"), "3").with_attr(QName::new("urn:B", "k"), "4"),
            ]),
        ])]),
        // several spaces around an xml:id
        ANode::doc(vec![e("a").with_attr(QName::new(XML_NS, "id"), "a b").with_children(vec![
            e("b").with_attr(QName::new(XML_NS, "id"), "c"),
        ])]),
        // default namespace declared, redeclared, undeclared
        ANode::doc(vec![ANode::elem(QName::new("urn:A", "a")).with_decl("", "urn:A").with_attr(QName::plain("k"), "v").with_children(vec![
            ANode::elem(QName::new("urn:B", "b")).with_decl("", "urn:B").with_children(vec![e("c").with_decl("", "")]),
        ])]),
        // comments / PIs verbatim, around the root
        ANode::doc(vec![
            ANode::comment(" <x>&amp;]]> "),
            ANode::pi("pi", Some("d &lt; ?")),
            e("a").with_children(vec![ANode::comment(""), ANode::pi("t", None), ANode::text("&<>\"'")]),
            ANode::pi("z", Some("x")),
        ]),
        // CR only through references
        ANode::doc(vec![e("a").with_children(vec![ANode::text("\r\n\r")])]),
        // same namespace under two prefixes + default
        ANode::doc(vec![ANode::elem(QName::new("urn:A", "a")).with_decl("p", "urn:A").with_decl("q", "urn:A").with_decl("", "urn:A")
            .with_attr(QName::new("urn:A", "k"), "v").with_children(vec![ANode::elem(QName::new("urn:A", "b"))])]),
    ]
}

fn gen_cfg(rng: &mut Rng, small: bool) -> GenCfg {
    let mut cfg = GenCfg::default();
    cfg.fragment = rng.chance(1, 4);
    cfg.ns_mode = if rng.chance(1, 5) { NsMode::None } else { NsMode::Consistent };
    if small {
        cfg.max_nodes = *rng.pick(&[1, 2, 3]);
        cfg.max_depth = 2;
        cfg.str_len = 2;
        cfg.max_attrs = 1;
        cfg.max_decls = 1;
        cfg.long_strings = false;
    } else {
        cfg.max_nodes = *rng.pick(&[3, 8, 20]);
        cfg.max_depth = *rng.pick(&[2, 4, 6]);
        cfg.str_len = 8;
    }
    cfg.xml_id = rng.chance(1, 3);
    cfg.xml_space = rng.chance(1, 6);
    cfg.pct_hostile_ns = 3;
    if rng.chance(1, 8) {
        cfg.text = TextProfile::Brackets;
    }
    cfg
}

fn node_at<'a>(h: &'a HTree, path: &[usize]) -> Option<&'a HTree> {
    let mut cur = h;
    for i in path {
        cur = cur.children.get(*i)?;
    }
    Some(cur)
}

fn anode_at<'a>(a: &'a ANode, path: &[usize]) -> Option<&'a ANode> {
    let mut cur = a;
    for i in path {
        cur = cur.children.get(*i)?;
    }
    Some(cur)
}

fn features_sig(r: &Rendered) -> String {
    // the most specific feature that is likely responsible, for stable signatures
    for f in [
        "cdata-section",
        "cr-line-end",
        "crlf-line-end",
        "xml-id-extra-spaces",
        "whitespace-reference-in-attribute",
        "literal-tab-lf-cr-in-attribute",
        "xmlns-empty-undeclaration",
        "bom",
        "xml-declaration",
    ] {
        if r.features.contains(&f) {
            return f.to_string();
        }
    }
    "plain".to_string()
}

/// decode the slice of a text span: character data and CDATA parts, references, line ends
fn decode_text_slice(source: &str, start: usize, end: usize) -> Result<String, String> {
    let mut cdata = source[..start].ends_with("<![CDATA[");
    let s = &source[start..end];
    let mut out = String::new();
    let mut i = 0;
    let b = s.as_bytes();
    while i < s.len() {
        let rest = &s[i..];
        if cdata {
            if rest.starts_with("]]>") {
                cdata = false;
                i += 3;
                continue;
            }
        } else {
            if rest.starts_with("<![CDATA[") {
                cdata = true;
                i += 9;
                continue;
            }
            if b[i] == b'&' {
                let semi = rest.find(';').ok_or("unterminated reference in the slice")?;
                let name = &rest[1..semi];
                let c = match name {
                    "lt" => '<',
                    "gt" => '>',
                    "amp" => '&',
                    "apos" => '\'',
                    "quot" => '"',
                    _ => {
                        let v = if let Some(h) = name.strip_prefix("#x") {
                            u32::from_str_radix(h, 16).map_err(|_| "bad hex reference")?
                        } else if let Some(d) = name.strip_prefix('#') {
                            d.parse::<u32>().map_err(|_| "bad decimal reference")?
                        } else {
                            return Err(format!("unknown entity {:?}", name));
                        };
                        char::from_u32(v).ok_or("bad code point")?
                    }
                };
                out.push(c);
                i += semi + 1;
                continue;
            }
        }
        let c = rest.chars().next().unwrap();
        if c == '\r' {
            out.push('\n');
            i += 1;
            if s[i..].starts_with('\n') {
                i += 1;
            }
        } else {
            out.push(c);
            i += c.len_utf8();
        }
    }
    Ok(out)
}

fn decode_attr_slice(s: &str, xml_id: bool) -> Result<String, String> {
    let mut out = String::new();
    let mut i = 0;
    while i < s.len() {
        let rest = &s[i..];
        let c = rest.chars().next().unwrap();
        if c == '&' {
            let semi = rest.find(';').ok_or("unterminated reference in the slice")?;
            let name = &rest[1..semi];
            let ch = match name {
                "lt" => '<',
                "gt" => '>',
                "amp" => '&',
                "apos" => '\'',
                "quot" => '"',
                _ => {
                    let v = if let Some(h) = name.strip_prefix("#x") {
                        u32::from_str_radix(h, 16).map_err(|_| "bad hex reference")?
                    } else if let Some(d) = name.strip_prefix('#') {
                        d.parse::<u32>().map_err(|_| "bad decimal reference")?
                    } else {
                        return Err(format!("unknown entity {:?}", name));
                    };
                    char::from_u32(v).ok_or("bad code point")?
                }
            };
            out.push(ch);
            i += semi + 1;
        } else if c == '\r' {
            out.push(' ');
            i += 1;
            if s[i..].starts_with('\n') {
                i += 1;
            }
        } else if c == '\n' || c == '\t' {
            out.push(' ');
            i += 1;
        } else {
            out.push(c);
            i += c.len_utf8();
        }
    }
    if xml_id {
        out = out.split(' ').filter(|p| !p.is_empty()).collect::<Vec<_>>().join(" ");
    }
    Ok(out)
}

/// Self-consistency of the spans of a parsed tree against the source it was parsed from,
/// independent of any expectation about the tree: every node has its spans, they lie inside the
/// source on character boundaries, and the slice spells / decodes to the node's own value.
pub fn span_self_check(xot: &Xot, doc: Node, si: &SpanInfo, source: &str) -> Option<(&'static str, &'static str, String)> {
    let nodes = match guard(|| snap::bounded(xot.descendants(doc), 200_000)) {
        Ok(Ok(v)) => v,
        _ => return Some(("traversal", "tree", "descendants() failed".to_string())),
    };
    let len = source.len();
    let get = |key: SpanInfoKey, item: &'static str| -> Result<(usize, usize), (&'static str, &'static str, String)> {
        match si.get(key) {
            None => Err(("span-missing", item, format!("a {} in the parsed tree has no span", item))),
            Some(sp) => {
                // the conversions of a span say the same as its fields
                let r1 = sp.range();
                let r2: std::ops::Range<usize> = (*sp).into();
                let back = xot::Span::from(r1.clone());
                if r1 != (sp.start..sp.end) || r2 != r1 || back.start != sp.start || back.end != sp.end {
                    return Err(("span-conversion", item, format!("span {}..{}: range() = {:?}, Range::from = {:?}, Span::from(range) = {}..{}", sp.start, sp.end, r1, r2, back.start, back.end)));
                }
                if sp.start > sp.end || sp.end > len || !source.is_char_boundary(sp.start) || !source.is_char_boundary(sp.end) {
                    Err(("span-out-of-bounds", item, format!("span {}..{} of a {} is outside the source (len {}) or not on character boundaries", sp.start, sp.end, item, len)))
                } else {
                    Ok((sp.start, sp.end))
                }
            }
        }
    };
    for n in nodes {
        let r: Result<(), (&'static str, &'static str, String)> = (|| {
            match xot.value(n) {
                xot::Value::Document => {}
                xot::Value::Element(e) => {
                    let (s, en) = get(SpanInfoKey::ElementStart(n), "element-start")?;
                    let slice = &source[s..en];
                    let local = xot.local_name_str(e.name());
                    if slice.rsplit(':').next() != Some(local) || slice.matches(':').count() > 1 {
                        return Err(("slice-not-the-item", "element-start", format!("slice {:?} is not the qualified name of element {:?}", slice, local)));
                    }
                    let (s, en) = get(SpanInfoKey::ElementEnd(n), "element-end")?;
                    let slice = &source[s..en];
                    let ok = slice == "/>" || (slice.starts_with("</") && slice.ends_with('>') && slice[2..slice.len() - 1].trim_end().rsplit(':').next() == Some(local));
                    if !ok {
                        return Err(("slice-not-the-item", "element-end", format!("slice {:?} is neither '/>' nor the end tag of {:?}", slice, local)));
                    }
                    let names: Vec<(xot::NameId, String)> = xot.attributes(n).iter().map(|(k, v)| (k, v.clone())).collect();
                    for (name, value) in names {
                        let (s, en) = get(SpanInfoKey::AttributeName(n, name), "attribute-name")?;
                        let slice = &source[s..en];
                        let alocal = xot.local_name_str(name);
                        if slice.rsplit(':').next() != Some(alocal) {
                            return Err(("slice-not-the-item", "attribute-name", format!("slice {:?} is not the qualified name of attribute {:?}", slice, alocal)));
                        }
                        let (s, en) = get(SpanInfoKey::AttributeValue(n, name), "attribute-value")?;
                        let slice = &source[s..en];
                        let is_id = name == xot.xml_id_name();
                        match decode_attr_slice(slice, is_id) {
                            Ok(d) if d == value => {}
                            other => {
                                return Err(("slice-does-not-decode-to-value", "attribute-value", format!("slice {:?} decodes to {:?}, the attribute value is {:?}", slice, other, value)));
                            }
                        }
                    }
                }
                xot::Value::Text(t) => {
                    let (s, en) = get(SpanInfoKey::Text(n), "text")?;
                    match decode_text_slice(source, s, en) {
                        Ok(d) if d == t.get() => {}
                        other => {
                            return Err(("slice-does-not-decode-to-value", "text", format!("slice {:?} decodes to {:?}, the text node is {:?}", &source[s..en], other, t.get())));
                        }
                    }
                }
                xot::Value::Comment(c) => {
                    let (s, en) = get(SpanInfoKey::Comment(n), "comment")?;
                    if &source[s..en] != c.get() {
                        return Err(("slice-not-the-item", "comment", format!("slice {:?} is not the comment body {:?}", &source[s..en], c.get())));
                    }
                }
                xot::Value::ProcessingInstruction(pi) => {
                    let (s, en) = get(SpanInfoKey::PiTarget(n), "pi-target")?;
                    if &source[s..en] != xot.local_name_str(pi.target()) {
                        return Err(("slice-not-the-item", "pi-target", format!("slice {:?} is not the PI target", &source[s..en])));
                    }
                    if let Some(d) = pi.data() {
                        let (s, en) = get(SpanInfoKey::PiContent(n), "pi-content")?;
                        if &source[s..en] != d {
                            return Err(("slice-not-the-item", "pi-content", format!("slice {:?} is not the PI content {:?}", &source[s..en], d)));
                        }
                    }
                }
                _ => {}
            }
            Ok(())
        })();
        if let Err(e) = r {
            return Some(e);
        }
    }
    None
}

impl Parsing {
    fn prop(&self) -> &'static str {
        match self.0 {
            PW::C02 => "C02",
            PW::C17 => "C17",
        }
    }

    /// parse `r` through `ep` and apply this monitor's oracle
    /// `stress`: put the Xot through the "used Xot" devices first (not in the enumerating stream, which parses up to
    /// 3000 spellings of one document: 65 536 registrations before each of them would outlast the watchdog)
    fn check(&self, ctx: &mut Ctx, doc: &ANode, r: &Rendered, ep: Ep, stress: bool) -> bool {
        let prop = self.prop();
        let mut xot = Xot::new();
        // a Xot that has been in use: id tables past their first thresholds, now and then two attribute names of one
        // element with ids that coincide modulo 256 / 65 536
        if !stress {
        } else if crate::build::maybe_collide(&mut xot, doc) {
            ctx.count("parsed_into_xot_with_colliding_name_ids");
        } else if crate::build::age_xot(&mut xot, doc) > 0 {
            ctx.count("parsed_into_aged_xot");
        }
        // a Xot that has just REJECTED a document (the same text, cut off after two thirds): prefixes, default
        // namespaces, xml:id values and names of the abandoned parse must not reach the next one
        if stress && doc.structural_hash() % 5 == 1 {
            let mut cut = r.text.len() * 2 / 3;
            while cut > 0 && !r.text.is_char_boundary(cut) {
                cut -= 1;
            }
            let broken = format!("{}<", &r.text[..cut]);
            match guard(|| xot.parse(&broken)) {
                Ok(Err(_)) => ctx.count("parsed_after_a_rejected_parse_on_the_same_xot"),
                _ => ctx.count("truncated_text_not_rejected"),
            }
        }
        // a Xot whose arena has free slots: a document of 30-300 nodes was parsed (or built) and removed again, so the nodes of
        // the next parse land in recycled slots; another document stays alive next to it
        if stress && doc.structural_hash() % 4 == 3 {
            let n = 10 + (doc.structural_hash() / 4 % 90) as usize;
            let junk = format!("<j>{}</j>", "<k a=\"1\">t<l/>u</k>".repeat(n));
            let _ = guard(|| {
                if let Ok(keep) = xot.parse("<stays><here/>text</stays>") {
                    let _ = keep;
                }
                if let Ok(d) = xot.parse(&junk) {
                    let _ = xot.remove(d);
                }
            });
            ctx.count("parsed_into_xot_with_recycled_slots");
        }
        // the parser merges adjacent character data and CDATA whatever the Xot's consolidation switch says
        if doc.structural_hash() % 7 == 2 {
            xot.set_text_consolidation(false);
            ctx.count("parsed_with_text_consolidation_off");
        }
        let epn = ep.name();
        let bytes = match ep {
            Ep::Bytes(enc) => match render::encode(&r.text, enc) {
                Some(b) => Some(b),
                None => {
                    ctx.count("encoding_cannot_express_document");
                    return true;
                }
            },
            _ => None,
        };
        let res = guard(|| -> Result<(Node, Option<SpanInfo>), xot::ParseError> {
            match ep {
                Ep::Parse => xot.parse(&r.text).map(|d| (d, None)),
                Ep::ParseSpan => xot.parse_with_span_info(&r.text).map(|(d, s)| (d, Some(s))),
                Ep::Fragment => xot.parse_fragment(&r.text).map(|d| (d, None)),
                Ep::FragmentSpan => xot.parse_fragment_with_span_info(&r.text).map(|(d, s)| (d, Some(s))),
                Ep::Bytes(_) => xot.parse_bytes(bytes.as_ref().unwrap()).map(|d| (d, None)),
            }
        });
        let base = |what: &str| -> J {
            J::obj()
                .set("abstract_document", doc.to_json())
                .set("text", J::s(trunc(&r.text, 1500)))
                .set("entry_point", J::s(epn.clone()))
                .set("spelling_features", J::Arr(r.features.iter().map(|f| J::s(*f)).collect()))
                .set("what", J::s(what))
        };
        let (d, span_info) = match res {
            Err(p) => {
                ctx.violation(
                    "parser panicked on a well-formed rendering",
                    format!("{}/{}/panic/{}", prop, epn, p.sig()),
                    base(&p.short()),
                );
                return false;
            }
            Ok(Err(e)) => {
                ctx.violation(
                    "a well-formed rendering was rejected",
                    format!("{}/{}/rejected/{}/{}", prop, epn, parse_err_variant(&e), features_sig(r)),
                    base(&format!("{:?}", e)),
                );
                return false;
            }
            Ok(Ok(x)) => x,
        };
        ctx.count(&format!("parsed.{}", epn));
        let got = match guard(|| snap::snap(&xot, d)) {
            Ok(Ok(s)) => s,
            other => {
                ctx.violation(
                    "parsed tree cannot be read back",
                    format!("{}/{}/readback-failed", prop, epn),
                    base(&format!("{:?}", other.map(|r| r.map(|_| ())).map_err(|p| p.short()))),
                );
                return false;
            }
        };
        if self.0 == PW::C17 {
            if let Some(si) = &span_info {
                if let Some((clause, item, what)) = span_self_check(&xot, d, si, &r.text) {
                    ctx.violation(
                        "a recorded span does not point at the right text",
                        format!("{}/{}/self-check/{}/{}", prop, epn, clause, item),
                        base(&what),
                    );
                    return false;
                }
                ctx.count("span_self_checks_passed");
            }
        }
        if got.tree != *doc {
            if self.0 == PW::C02 {
                let dd = first_diff(doc, &got.tree).unwrap_or_default();
                ctx.violation(
                    "parsed tree is not the document the text denotes",
                    format!("{}/{}/differs/{}/{}", prop, epn, diff_class(&dd), features_sig(r)),
                    base(&dd).set("parsed", got.tree.to_json()),
                );
            } else {
                ctx.count("c17_skipped_tree_differs");
            }
            return false;
        }
        ctx.count("trees_equal");
        if self.0 == PW::C02 {
            // xml:id lookups
            let mut ids: Vec<(String, Vec<usize>)> = Vec::new();
            fn collect(a: &ANode, path: &mut Vec<usize>, ids: &mut Vec<(String, Vec<usize>)>) {
                for (q, v) in &a.attrs {
                    if q.ns == XML_NS && q.local == "id" {
                        ids.push((v.clone(), path.clone()));
                    }
                }
                for (i, c) in a.children.iter().enumerate() {
                    path.push(i);
                    collect(c, path, ids);
                    path.pop();
                }
            }
            collect(doc, &mut Vec::new(), &mut ids);
            for (id, path) in &ids {
                let want = node_at(&got.handles, path).map(|h| h.node);
                match guard(|| xot.xml_id_node(d, id)) {
                    Ok(g) if g == want => ctx.count("xml_id_lookups"),
                    other => {
                        ctx.violation(
                            "xml_id_node does not find the element carrying the id",
                            format!("{}/{}/xml_id_node/wrong-node", prop, epn),
                            base(&format!("xml_id_node(doc, {:?}) = {:?}", id, other.map_err(|p| p.short()))),
                        );
                        return false;
                    }
                }
            }
            match guard(|| xot.xml_id_node(d, "no such id")) {
                Ok(None) => {}
                _ => {
                    ctx.violation(
                        "xml_id_node invents an id",
                        format!("{}/{}/xml_id_node/invented", prop, epn),
                        base("xml_id_node(doc, \"no such id\") is not None"),
                    );
                    return false;
                }
            }
            return true;
        }
        // ---------------- C17: spans
        let si = match span_info {
            Some(s) => s,
            None => return true,
        };
        let len = r.text.len();
        let bad = |ctx: &mut Ctx, clause: &str, item: &str, what: String| {
            ctx.violation(
                "a recorded span does not point at the right text",
                format!("{}/{}/{}/{}", prop, epn, clause, item),
                base(&what),
            );
        };
        // every item the renderer wrote
        for s in &r.spans {
            let h = match node_at(&got.handles, &s.path) {
                Some(h) => h,
                None => {
                    ctx.count("harness_path_unresolved");
                    return false;
                }
            };
            let an = anode_at(doc, &s.path);
            let (key, item) = match &s.kind {
                SpanKind::ElemStart => (SpanInfoKey::ElementStart(h.node), "element-start"),
                SpanKind::ElemEnd => (SpanInfoKey::ElementEnd(h.node), "element-end"),
                SpanKind::Text => (SpanInfoKey::Text(h.node), "text"),
                SpanKind::Comment => (SpanInfoKey::Comment(h.node), "comment"),
                SpanKind::PiTarget => (SpanInfoKey::PiTarget(h.node), "pi-target"),
                SpanKind::PiContent => (SpanInfoKey::PiContent(h.node), "pi-content"),
                SpanKind::AttrName(q) | SpanKind::AttrValue(q) => {
                    let ns = xot.add_namespace(&q.ns);
                    let name = xot.add_name_ns(&q.local, ns);
                    if matches!(s.kind, SpanKind::AttrName(_)) {
                        (SpanInfoKey::AttributeName(h.node, name), "attribute-name")
                    } else {
                        (SpanInfoKey::AttributeValue(h.node, name), "attribute-value")
                    }
                }
            };
            let sp = match si.get(key) {
                Some(sp) => *sp,
                None => {
                    bad(ctx, "span-missing", item, format!("no span recorded for {} at path {:?}", item, s.path));
                    return false;
                }
            };
            if sp.start > sp.end || sp.end > len || !r.text.is_char_boundary(sp.start) || !r.text.is_char_boundary(sp.end) {
                bad(ctx, "span-out-of-bounds", item, format!("span {}..{} for {} is outside the source (len {}) or not on character boundaries", sp.start, sp.end, item, len));
                return false;
            }
            let start_ok = sp.start == s.start || Some(sp.start) == s.alt_start;
            let end_ok = sp.end == s.end || Some(sp.end) == s.alt_end;
            if !(start_ok && end_ok) {
                bad(
                    ctx,
                    "span-wrong-offsets",
                    item,
                    format!(
                        "span for {} at path {:?} is {}..{} = {:?}; the item was written at {}..{} = {:?}",
                        item, s.path, sp.start, sp.end, &r.text[sp.start..sp.end], s.start, s.end, &r.text[s.start..s.end]
                    ),
                );
                return false;
            }
            // verbatim items: the slice is the value
            let slice = &r.text[sp.start..sp.end];
            if let Some(an) = an {
                let ok = match &s.kind {
                    SpanKind::Comment => slice == an.text,
                    SpanKind::PiTarget => slice == an.name.local,
                    SpanKind::PiContent => Some(slice) == an.data.as_deref(),
                    SpanKind::ElemStart => slice.rsplit(':').next() == Some(an.name.local.as_str()),
                    SpanKind::ElemEnd => slice == "/>" || (slice.starts_with("</") && slice.ends_with('>')),
                    _ => true,
                };
                if !ok {
                    bad(ctx, "slice-not-the-item", item, format!("slice {:?} is not the spelling of the {}", slice, item));
                    return false;
                }
            }
            ctx.count("spans_checked");
        }
        // every node of the tree has its spans
        fn all_nodes<'a>(a: &'a ANode, h: &'a HTree, out: &mut Vec<(&'a ANode, &'a HTree)>) {
            out.push((a, h));
            for (c, hc) in a.children.iter().zip(h.children.iter()) {
                all_nodes(c, hc, out);
            }
        }
        let mut nodes = Vec::new();
        all_nodes(&got.tree, &got.handles, &mut nodes);
        for (a, h) in nodes {
            let missing: Option<&str> = match a.kind {
                AKind::Doc => None,
                AKind::Elem => {
                    if si.get(SpanInfoKey::ElementStart(h.node)).is_none() {
                        Some("element-start")
                    } else if si.get(SpanInfoKey::ElementEnd(h.node)).is_none() {
                        Some("element-end")
                    } else {
                        let mut m = None;
                        for an in &h.attrs {
                            if let Some(at) = xot.attribute_node(*an) {
                                let name = at.name();
                                if si.get(SpanInfoKey::AttributeName(h.node, name)).is_none() {
                                    m = Some("attribute-name");
                                }
                                if si.get(SpanInfoKey::AttributeValue(h.node, name)).is_none() {
                                    m = Some("attribute-value");
                                }
                            }
                        }
                        m
                    }
                }
                AKind::Text => si.get(SpanInfoKey::Text(h.node)).is_none().then_some("text"),
                AKind::Comment => si.get(SpanInfoKey::Comment(h.node)).is_none().then_some("comment"),
                AKind::Pi => {
                    if si.get(SpanInfoKey::PiTarget(h.node)).is_none() {
                        Some("pi-target")
                    } else if a.data.is_some() && si.get(SpanInfoKey::PiContent(h.node)).is_none() {
                        Some("pi-content")
                    } else {
                        None
                    }
                }
            };
            if let Some(m) = missing {
                bad(ctx, "span-missing", m, format!("a {} in the parsed tree has no span", m));
                return false;
            }
        }
        ctx.count("documents_with_all_spans_right");
        true
    }

    fn fragment_wrap_check(&self, ctx: &mut Ctx, doc: &ANode, r: &Rendered) {
        // parse_fragment(t) == children of parse("<w>" + t + "</w>")
        let wrapped = format!("<w>{}</w>", r.text);
        let mut x1 = Xot::new();
        let mut x2 = Xot::new();
        let a = guard(|| x1.parse_fragment(&r.text));
        let b = guard(|| x2.parse(&wrapped));
        match (a, b) {
            (Ok(Ok(f)), Ok(Ok(d))) => {
                let sf = snap_guarded(&x1, f);
                let sd = snap_guarded(&x2, d);
                if let (Ok(tf), Ok(td)) = (sf, sd) {
                    let kids = td.children.first().map(|w| w.children.clone()).unwrap_or_default();
                    if tf.children != kids {
                        ctx.violation(
                            "parse_fragment differs from parsing the same text wrapped in one element",
                            "C02/parse_fragment/differs-from-wrapped".to_string(),
                            J::obj().set("abstract_document", doc.to_json()).set("text", J::s(trunc(&r.text, 1500))).set("fragment", tf.to_json()).set("wrapped", td.to_json()),
                        );
                    } else {
                        ctx.count("fragment_equals_wrapped");
                    }
                }
            }
            (Ok(a), Ok(b)) => {
                if a.is_ok() != b.is_ok() {
                    ctx.violation(
                        "parse_fragment and parsing the wrapped text disagree on acceptance",
                        "C02/parse_fragment/acceptance-differs-from-wrapped".to_string(),
                        J::obj().set("text", J::s(trunc(&r.text, 1500))).set("fragment_ok", J::Bool(a.is_ok())).set("wrapped_ok", J::Bool(b.is_ok())),
                    );
                }
            }
            _ => {}
        }
    }

    fn eps_for(&self, doc: &ANode, rng: &mut Rng) -> (Vec<Ep>, bool) {
        let wf = gen::is_wf_document(doc);
        if self.0 == PW::C17 {
            return (if wf { vec![Ep::ParseSpan] } else { vec![Ep::FragmentSpan] }, !wf);
        }
        if wf {
            let e = *rng.pick(&[Ep::Parse, Ep::Parse, Ep::ParseSpan, Ep::Bytes(Enc::Utf8), Ep::Bytes(Enc::Utf8Bom)]);
            (vec![e], false)
        } else {
            (vec![*rng.pick(&[Ep::Fragment, Ep::FragmentSpan])], true)
        }
    }
}

impl Monitor for Parsing {
    fn id(&self) -> &'static str {
        self.prop()
    }
    fn streams(&self, tier: Tier, budget: f64) -> Vec<Stream> {
        let (n_enum, n_rand, n_bytes) = match tier {
            Tier::Quick => (4_000, 200_000, 50_000),
            Tier::Thorough => (40_000, 2_500_000, 500_000),
        };
        let mut v = vec![
            Stream::new("forced-interactions", forced_docs().len() as u64 * 40),
            Stream::exhaustive("small-documents-all-spellings", scaled(n_enum, budget)),
            Stream::new("random-spellings", scaled(n_rand, budget)),
        ];
        if self.0 == PW::C02 {
            v.push(Stream::new("byte-encodings", scaled(n_bytes, budget)));
        } else {
            v.push(Stream::new("error-spans", scaled(n_rand, budget)));
        }
        v
    }
    fn rule(&self) -> String {
        match self.0 {
            PW::C02 => "abstract documents (hostile generator, restricted to what XML text can denote) x lexical renderings drawn by the renderer (literal / entity / decimal / hex references, CDATA splitting, LF/CR/CRLF, quote styles, in-tag white space, prefix choice, xmlns interleaving, XML declaration, BOM, xml:id padding) x {parse, parse_with_span_info, parse_fragment(+span), parse_bytes in UTF-8, UTF-8+BOM, UTF-16LE/BE+BOM, ISO-8859-1, windows-1252}; for small documents ALL spellings of a reduced choice set are enumerated (each unit = one document, capped at 3000 renderings); expected tree = the abstract document (declarations and attributes in written order), xml_id_node per id, parse_fragment vs wrapped parse. Non-trivial = rendering with >= 1 spelling feature beyond plain; distinct by hash of the rendered text".into(),
            PW::C17 => "the C02 renderings through parse_with_span_info / parse_fragment_with_span_info: every span the renderer recorded (qualified names, attribute names and values, text runs incl. CDATA parts, comment bodies, PI targets and contents, end tags or '/>') must be reported with exactly those byte offsets, on character boundaries, and every node must have its spans; plus rejected inputs (well-formedness breakers and byte-level mutations) whose ParseError::span() must lie inside the source. Non-trivial = rendering with >= 1 multi-byte character or spelling feature; distinct by hash of the text".into(),
        }
    }
    fn floors(&self, _tier: Tier) -> Vec<(&'static str, u64)> {
        match self.0 {
            PW::C02 => vec![
                ("trees_equal", 20_000),
                ("feature.cdata-section", 1_000),
                ("feature.crlf-line-end", 500),
                ("feature.whitespace-reference-in-attribute", 200),
                ("feature.xml-id-extra-spaces", 200),
                ("xml_id_lookups", 500),
                ("fragment_equals_wrapped", 1_000),
                ("parsed.parse_bytes[utf-16le-bom]", 200),
                ("parsed.parse_bytes[iso-8859-1]", 50),
                ("enumerated_renderings", 20_000),
            ],
            PW::C17 => vec![("spans_checked", 100_000), ("documents_with_all_spans_right", 10_000), ("error_spans_checked", 10_000), ("feature.cdata-section", 1_000)],
        }
    }
    fn assumptions(&self) -> Vec<String> {
        vec![
            "the renderer's bookkeeping of what it wrote and where is correct (validated by the unchanged tree agreeing on >10^5 renderings and by seeded changes)".into(),
            "comment and PI bodies are written with LF line ends only; BOM-less UTF-16 and XML declarations / BOMs in fragments are not generated".into(),
        ]
    }
    fn run_case(&self, stream: usize, idx: u64, rng: &mut Rng, ctx: &mut Ctx) {
        match stream {
            0 => {
                let docs = forced_docs();
                let doc = docs[(idx as usize) % docs.len()].clone();
                if !render::renderable(&doc) {
                    ctx.count("forced_not_renderable");
                    return;
                }
                let opts = RenderOpts { fragment: false, allow_decl: true, allow_bom: true, ..Default::default() };
                let r = render::render(&doc, &mut RandomChoices(rng), &opts);
                for f in &r.features {
                    ctx.count(&format!("feature.{}", f));
                }
                let (eps, _) = self.eps_for(&doc, rng);
                for ep in eps {
                    self.check(ctx, &doc, &r, ep, true);
                }
                ctx.nontrivial(crate::rng::hash_str(&r.text));
            }
            1 => {
                // one small document, all spellings of the reduced choice set
                let doc = loop {
                    let cfg = gen_cfg(rng, true);
                    let d = gen::gen_document(rng, &cfg);
                    if render::renderable(&d) {
                        break d;
                    }
                };
                let wf = gen::is_wf_document(&doc);
                let opts = RenderOpts { fragment: !wf, allow_decl: false, allow_bom: false, enumerating: true, ..Default::default() };
                let mut odo = Odometer::new();
                let mut n = 0u64;
                let cap = 3000;
                let mut complete = false;
                loop {
                    let r = render::render(&doc, &mut odo, &opts);
                    n += 1;
                    for f in &r.features {
                        ctx.count(&format!("feature.{}", f));
                    }
                    let ep = if self.0 == PW::C17 { if wf { Ep::ParseSpan } else { Ep::FragmentSpan } } else if wf { Ep::Parse } else { Ep::Fragment };
                    if !self.check(ctx, &doc, &r, ep, false) {
                        break;
                    }
                    if n == 1 {
                        ctx.nontrivial(crate::rng::hash_str(&r.text));
                    }
                    if !odo.advance() {
                        complete = true;
                        break;
                    }
                    if n >= cap {
                        break;
                    }
                }
                ctx.add("enumerated_renderings", n);
                if complete {
                    ctx.count("documents_with_all_spellings_enumerated");
                } else {
                    ctx.count("documents_enumeration_capped");
                }
                if idx < 2 {
                    ctx.sample(|| J::obj().set("abstract_document", doc.to_json()).set("renderings_enumerated", J::i(n)).set("complete", J::Bool(complete)));
                }
            }
            2 => {
                let doc = loop {
                    let cfg = gen_cfg(rng, false);
                    let d = gen::gen_document(rng, &cfg);
                    if render::renderable(&d) {
                        break d;
                    }
                    ctx.count("generated_not_renderable");
                };
                let mut doc = doc;
                if rng.chance(1, 12) && inject_cr(&mut doc, rng) {
                    ctx.count("feature.carriage-return-in-comment-or-pi");
                }
                let wf = gen::is_wf_document(&doc);
                let opts = RenderOpts { fragment: !wf, allow_decl: wf, allow_bom: wf, ..Default::default() };
                let r = render::render(&doc, &mut RandomChoices(rng), &opts);
                for f in &r.features {
                    ctx.count(&format!("feature.{}", f));
                }
                if !r.features.is_empty() || r.text.len() != r.text.chars().count() {
                    ctx.nontrivial(crate::rng::hash_str(&r.text));
                }
                let (eps, frag) = self.eps_for(&doc, rng);
                for ep in eps {
                    self.check(ctx, &doc, &r, ep, true);
                }
                if self.0 == PW::C02 && (frag || rng.chance(1, 4)) {
                    // any content is also a fragment
                    let fr = if frag { r.clone() } else { render::render(&doc, &mut RandomChoices(rng), &RenderOpts { fragment: true, ..Default::default() }) };
                    self.fragment_wrap_check(ctx, &doc, &fr);
                }
                ctx.sample(|| J::obj().set("abstract_document", doc.to_json()).set("text", J::s(trunc(&r.text, 600))).set("features", J::Arr(r.features.iter().map(|f| J::s(*f)).collect())));
            }
            _ => {
                if self.0 == PW::C02 {
                    // byte encodings (documents only)
                    let enc = *rng.pick(&[Enc::Utf8, Enc::Utf8Bom, Enc::Utf16Le, Enc::Utf16Be, Enc::Latin1, Enc::Win1252]);
                    let doc = loop {
                        let mut cfg = gen_cfg(rng, false);
                        cfg.fragment = false;
                        if matches!(enc, Enc::Latin1 | Enc::Win1252) {
                            cfg.text = TextProfile::Plain;
                        }
                        let mut d = gen::gen_document(rng, &cfg);
                        if matches!(enc, Enc::Latin1 | Enc::Win1252) {
                            // sprinkle characters of the upper half
                            // upper-half characters; some spellings are chosen so that the encoded bytes
                            // happen to be valid UTF-8 (e.g. "Ã©" = C3 A9), which must not fool the decoder
                            let extra = if enc == Enc::Win1252 {
                                *rng.pick(&["é€ÿ\u{a0}Š", "â‚¬", "Ã©", "Â°Ã±", "€"])
                            } else {
                                *rng.pick(&["éÿ\u{a0}ñ", "Ã©", "Â°Ã±", "Ã¿Â\u{a0}", "é"])
                            };
                            d.walk_mut(&mut |n| {
                                if n.kind == AKind::Text {
                                    n.text.push_str(extra);
                                }
                                for (_, v) in n.attrs.iter_mut() {
                                    v.push_str(extra);
                                }
                            });
                        }
                        if render::renderable(&d) && gen::is_wf_document(&d) {
                            break d;
                        }
                    };
                    // the declaration names the encoding by its usual label or by another label of the same encoding
                    let label = enc.label().map(|l| {
                        let alt: &[&str] = match l {
                            "ISO-8859-1" => &["ISO-8859-1", "iso-8859-1", "iso_8859-1", "ISO_8859-1", "latin1"],
                            "windows-1252" => &["windows-1252", "cp1252", "x-cp1252"],
                            _ => &[],
                        };
                        if alt.is_empty() { l.to_string() } else { rng.pick(alt).to_string() }
                    });
                    let opts = RenderOpts { fragment: false, allow_decl: true, allow_bom: false, encoding_label: label, ..Default::default() };
                    let r = render::render(&doc, &mut RandomChoices(rng), &opts);
                    ctx.nontrivial(crate::rng::hash_str(&r.text));
                    self.check(ctx, &doc, &r, Ep::Bytes(enc), true);
                } else {
                    super::c03::error_span_case(rng, ctx);
                }
            }
        }
    }
}
