//! C07 — axes and traversals obey the XPath document-order laws.
//! Ground truth: the handle of every abstract node is recorded while the tree is built, so every
//! expected list is computed by plain recursion over owned data (no traversal API involved).

use super::common::*;
use crate::adoc::*;
use crate::build::{self, AttrStyle, ROUTES};
use crate::engine::{guard, Ctx, Monitor, Stream, Tier};
use crate::gen::{self, GenCfg, NsMode, TextProfile};
use crate::json::J;
use crate::rng::Rng;
use crate::snap::{self, HTree};
use std::collections::HashSet;
use xot::{Axis, LevelOrder, Node, NodeEdge, Xot};

pub struct C07;

#[derive(Clone, Debug)]
struct Info {
    h: Node,
    ord: bool,
    is_attr: bool,
    parent: Option<usize>,
    kids: Vec<usize>,
    nss: Vec<usize>,
    attrs: Vec<usize>,
    is_elem_or_doc: bool,
    size: usize,
}

struct Truth {
    v: Vec<Info>, // in "all" order
}

impl Truth {
    fn from(h: &HTree, xot: &Xot) -> Truth {
        let mut t = Truth { v: Vec::new() };
        t.add(h, None, xot);
        t
    }
    fn add(&mut self, h: &HTree, parent: Option<usize>, xot: &Xot) -> usize {
        let me = self.v.len();
        let eod = xot.is_element(h.node) || xot.is_document(h.node);
        self.v.push(Info {
            h: h.node,
            ord: true,
            is_attr: false,
            parent,
            kids: vec![],
            nss: vec![],
            attrs: vec![],
            is_elem_or_doc: eod,
            size: 1,
        });
        for n in &h.nss {
            let i = self.v.len();
            self.v.push(Info { h: *n, ord: false, is_attr: false, parent: Some(me), kids: vec![], nss: vec![], attrs: vec![], is_elem_or_doc: false, size: 1 });
            self.v[me].nss.push(i);
        }
        for n in &h.attrs {
            let i = self.v.len();
            self.v.push(Info { h: *n, ord: false, is_attr: true, parent: Some(me), kids: vec![], nss: vec![], attrs: vec![], is_elem_or_doc: false, size: 1 });
            self.v[me].attrs.push(i);
        }
        for c in &h.children {
            let i = self.add(c, Some(me), xot);
            self.v[me].kids.push(i);
        }
        self.v[me].size = self.v.len() - me;
        me
    }
    fn hs(&self, idx: &[usize]) -> Vec<Node> {
        idx.iter().map(|i| self.v[*i].h).collect()
    }
    /// proper ancestors, nearest first
    fn ancestors(&self, i: usize) -> Vec<usize> {
        let mut v = Vec::new();
        let mut cur = self.v[i].parent;
        while let Some(p) = cur {
            v.push(p);
            cur = self.v[p].parent;
        }
        v
    }
    fn is_desc_or_self(&self, anc: usize, i: usize) -> bool {
        i >= anc && i < anc + self.v[anc].size
    }
    /// subtree of i in all order (incl. i)
    fn subtree_all(&self, i: usize) -> Vec<usize> {
        (i..i + self.v[i].size).collect()
    }
    fn subtree_ord(&self, i: usize) -> Vec<usize> {
        self.subtree_all(i).into_iter().filter(|j| self.v[*j].ord).collect()
    }
    /// same-category siblings list containing i
    fn sibling_group(&self, i: usize) -> Vec<usize> {
        match self.v[i].parent {
            None => vec![i],
            Some(p) => {
                if self.v[i].ord {
                    self.v[p].kids.clone()
                } else if self.v[i].is_attr {
                    self.v[p].attrs.clone()
                } else {
                    self.v[p].nss.clone()
                }
            }
        }
    }
    fn traverse_edges(&self, i: usize, all: bool, out: &mut Vec<NodeEdge>) {
        out.push(NodeEdge::Start(self.v[i].h));
        if all {
            for a in self.v[i].nss.iter().chain(self.v[i].attrs.iter()) {
                out.push(NodeEdge::Start(self.v[*a].h));
                out.push(NodeEdge::End(self.v[*a].h));
            }
        }
        for k in &self.v[i].kids {
            self.traverse_edges(*k, all, out);
        }
        out.push(NodeEdge::End(self.v[i].h));
    }
}

const LIMIT_FACTOR: usize = 2;

fn collect<T>(it: impl Iterator<Item = T>, n_live: usize) -> Result<Vec<T>, Vec<T>> {
    snap::bounded(it, LIMIT_FACTOR * n_live + 8)
}

struct Checker<'a> {
    xot: &'a Xot,
    t: &'a Truth,
    n: usize,
    tree: String,
    first: Option<(String, String, String)>, // (entry point, start-kind, what)
    checks: u64,
}

impl<'a> Checker<'a> {
    fn fail(&mut self, ep: &str, start: usize, what: String) {
        if self.first.is_none() {
            let sk = if self.t.v[start].ord { "ordinary" } else if self.t.v[start].is_attr { "attribute-node" } else { "namespace-node" };
            self.first = Some((ep.to_string(), sk.to_string(), what));
        }
    }
    fn list(&mut self, ep: &str, start: usize, got: Result<Result<Vec<Node>, Vec<Node>>, crate::engine::PanicInfo>, want: Vec<Node>) {
        self.checks += 1;
        match got {
            Err(p) => self.fail(ep, start, format!("panicked: {}", p.short())),
            Ok(Err(_)) => self.fail(ep, start, format!("does not terminate: yielded more than {} items for a tree of {} nodes", LIMIT_FACTOR * self.n + 8, self.n)),
            Ok(Ok(g)) => {
                if g != want {
                    let x = self.xot;
                    let sg: Vec<String> = g.iter().map(|n| crate::driver::describe(x, *n)).collect();
                    let sw: Vec<String> = want.iter().map(|n| crate::driver::describe(x, *n)).collect();
                    self.fail(ep, start, format!("yielded {:?}, expected {:?}", sg, sw));
                }
            }
        }
    }
    fn opt(&mut self, ep: &str, start: usize, got: Result<Option<Node>, crate::engine::PanicInfo>, want: Option<Node>) {
        self.checks += 1;
        match got {
            Err(p) => self.fail(ep, start, format!("panicked: {}", p.short())),
            Ok(g) => {
                if g != want {
                    self.fail(ep, start, format!("returned {:?}, expected {:?}", g.map(|n| crate::driver::describe(self.xot, n)), want.map(|n| crate::driver::describe(self.xot, n))));
                }
            }
        }
    }

    fn check_node(&mut self, i: usize) {
        let x = self.xot;
        let t = self.t;
        let n = self.n;
        let h = t.v[i].h;
        let ord = t.v[i].ord;
        let root = *t.ancestors(i).last().unwrap_or(&i);
        let all_order: Vec<usize> = (0..t.v.len()).collect();
        let doc_order: Vec<usize> = all_order.iter().copied().filter(|j| t.v[*j].ord).collect();
        let anc = t.ancestors(i);
        let group = t.sibling_group(i);
        let pos = group.iter().position(|g| *g == i).unwrap_or(0);

        // parent, ancestors, root
        self.opt("parent", i, guard(|| x.parent(h)), t.v[i].parent.map(|p| t.v[p].h));
        let mut want_anc = vec![i];
        want_anc.extend(anc.iter().copied());
        self.list("ancestors", i, guard(|| collect(x.ancestors(h), n)), t.hs(&want_anc));
        self.opt("root", i, guard(|| Some(x.root(h))), Some(t.v[root].h));
        self.list("axis(Ancestor)", i, guard(|| collect(x.axis(Axis::Ancestor, h), n)), t.hs(&anc));
        self.list("axis(AncestorOrSelf)", i, guard(|| collect(x.axis(Axis::AncestorOrSelf, h), n)), t.hs(&want_anc));
        self.list("axis(Parent)", i, guard(|| collect(x.axis(Axis::Parent, h), n)), t.hs(&anc.iter().take(1).copied().collect::<Vec<_>>()));
        self.list("axis(Self)", i, guard(|| collect(x.axis(Axis::Self_, h), n)), vec![h]);

        // same-kind siblings
        self.opt("next_sibling", i, guard(|| x.next_sibling(h)), group.get(pos + 1).map(|g| t.v[*g].h));
        self.opt("previous_sibling", i, guard(|| x.previous_sibling(h)), if pos > 0 { Some(t.v[group[pos - 1]].h) } else { None });
        let fol_sib: Vec<usize> = group[pos..].to_vec();
        let pre_sib: Vec<usize> = group[..=pos].iter().rev().copied().collect();
        self.list("following_siblings", i, guard(|| collect(x.following_siblings(h), n)), t.hs(&fol_sib));
        self.list("preceding_siblings", i, guard(|| collect(x.preceding_siblings(h), n)), t.hs(&pre_sib));
        self.list("axis(FollowingSibling)", i, guard(|| collect(x.axis(Axis::FollowingSibling, h), n)), t.hs(&fol_sib[1..]));
        self.list("axis(PrecedingSibling)", i, guard(|| collect(x.axis(Axis::PrecedingSibling, h), n)), t.hs(&pre_sib[1..]));

        // following / preceding (document order laws)
        let following_all: Vec<usize> = all_order.iter().copied().filter(|j| *j > i && !t.is_desc_or_self(i, *j)).collect();
        let following: Vec<usize> = following_all.iter().copied().filter(|j| t.v[*j].ord).collect();
        let preceding: Vec<usize> = doc_order.iter().copied().filter(|j| *j < i && !anc.contains(j)).rev().collect();
        self.list("following", i, guard(|| collect(x.following(h), n)), t.hs(&following));
        self.list("all_following", i, guard(|| collect(x.all_following(h), n)), t.hs(&following_all));
        self.list("preceding", i, guard(|| collect(x.preceding(h), n)), t.hs(&preceding));
        self.list("axis(Following)", i, guard(|| collect(x.axis(Axis::Following, h), n)), t.hs(&following));
        self.list("axis(Preceding)", i, guard(|| collect(x.axis(Axis::Preceding, h), n)), t.hs(&preceding));
        let all_rev_pre: Vec<usize> = all_order.iter().copied().filter(|j| *j <= i).rev().collect();
        self.list("all_reverse_preorder", i, guard(|| collect(x.all_reverse_preorder(h), n)), t.hs(&all_rev_pre));

        let sub_all = t.subtree_all(i);
        self.list("all_descendants", i, guard(|| collect(x.all_descendants(h), n)), t.hs(&sub_all));

        // partition law
        self.checks += 1;
        {
            let desc: Vec<usize> = t.subtree_ord(i).into_iter().filter(|j| *j != i).collect();
            let mut seen: HashSet<usize> = HashSet::new();
            let mut ok = true;
            for j in anc.iter().chain(desc.iter()).chain(preceding.iter()).chain(following.iter()) {
                if !seen.insert(*j) {
                    ok = false;
                }
            }
            if ord {
                ok = ok && seen.insert(i);
            }
            if !ok || seen.len() != doc_order.len() {
                self.fail("partition-law", i, "harness: expected axes do not partition the tree".to_string());
            }
        }

        if !ord {
            // attribute / namespace start node: child-ish axes are empty
            self.list("axis(Child)", i, guard(|| collect(x.axis(Axis::Child, h), n)), vec![]);
            self.list("axis(Descendant)", i, guard(|| collect(x.axis(Axis::Descendant, h), n)), vec![]);
            self.list("axis(Attribute)", i, guard(|| collect(x.axis(Axis::Attribute, h), n)), vec![]);
            self.list("children", i, guard(|| collect(x.children(h), n)), vec![]);
            self.opt("first_child", i, guard(|| x.first_child(h)), None);
            self.opt("last_child", i, guard(|| x.last_child(h)), None);
            self.opt("top_element", i, guard(|| Some(x.top_element(h))), self.top_element(i));
            // edge steps from an attribute / namespace node: it has no children, its siblings are the nodes of its own
            // kind, and after the last of them comes the end of its element (never the element's other nodes)
            let par = t.v[i].parent.map(|p| t.v[p].h);
            let nxt = group.get(pos + 1).map(|g| t.v[*g].h);
            let prv = if pos > 0 { Some(t.v[group[pos - 1]].h) } else { None };
            let steps: [(NodeEdge, bool, Option<NodeEdge>); 4] = [
                (NodeEdge::Start(h), true, Some(NodeEdge::End(h))),
                (NodeEdge::End(h), true, nxt.map(NodeEdge::Start).or(par.map(NodeEdge::End))),
                (NodeEdge::End(h), false, Some(NodeEdge::Start(h))),
                (NodeEdge::Start(h), false, prv.map(NodeEdge::End).or(par.map(NodeEdge::Start))),
            ];
            for (e, forward, want) in steps {
                self.checks += 1;
                match guard(|| if forward { e.next(x) } else { e.previous(x) }) {
                    Ok(g) if g == want => {}
                    other => self.fail(
                        if forward { "NodeEdge::next" } else { "NodeEdge::previous" },
                        i,
                        format!("{} step from {} of an attribute / namespace node gave {:?}, expected {:?}", if forward { "next" } else { "previous" }, kind_edge(&e), other.ok().map(|o| o.map(|q| kind_edge(&q))), want.as_ref().map(kind_edge)),
                    ),
                }
            }
            return;
        }

        // ordinary start node
        let kids = t.v[i].kids.clone();
        self.list("children", i, guard(|| collect(x.children(h), n)), t.hs(&kids));
        let rev: Vec<usize> = kids.iter().rev().copied().collect();
        self.list("reverse_children", i, guard(|| collect(x.reverse_children(h), n)), t.hs(&rev));
        self.opt("first_child", i, guard(|| x.first_child(h)), kids.first().map(|k| t.v[*k].h));
        self.opt("last_child", i, guard(|| x.last_child(h)), kids.last().map(|k| t.v[*k].h));
        self.list("axis(Child)", i, guard(|| collect(x.axis(Axis::Child, h), n)), t.hs(&kids));
        self.list("attribute_nodes", i, guard(|| collect(x.attribute_nodes(h), n)), t.hs(&t.v[i].attrs));
        self.list("axis(Attribute)", i, guard(|| collect(x.axis(Axis::Attribute, h), n)), t.hs(&t.v[i].attrs));
        self.list("attributes().nodes()", i, guard(|| collect(x.attributes(h).nodes(), n)), t.hs(&t.v[i].attrs));
        self.list("namespaces().nodes()", i, guard(|| collect(x.namespaces(h).nodes(), n)), t.hs(&t.v[i].nss));
        for (ci, k) in kids.iter().enumerate() {
            self.checks += 1;
            match guard(|| x.child_index(h, t.v[*k].h)) {
                Ok(Some(g)) if g == ci => {}
                other => self.fail("child_index", i, format!("child_index of child {} returned {:?}", ci, other.ok())),
            }
        }
        if let Some(p) = t.v[i].parent {
            self.checks += 1;
            if let Ok(Some(_)) = guard(|| x.child_index(h, t.v[p].h)) {
                self.fail("child_index", i, "child_index(child, parent) is Some".to_string());
            }
        }
        // attribute and namespace nodes are not children; neither are the node itself, grandchildren or nodes elsewhere
        for k in t.v[i].attrs.iter().chain(t.v[i].nss.iter()) {
            self.checks += 1;
            match guard(|| x.child_index(h, t.v[*k].h)) {
                Ok(None) => {}
                other => self.fail("child_index", i, format!("child_index(element, its attribute / namespace node) returned {:?}", other.ok())),
            }
        }
        let stride = (doc_order.len() / 64).max(1);
        for j in doc_order.iter().copied().step_by(stride) {
            if t.v[j].parent != Some(i) {
                self.checks += 1;
                match guard(|| x.child_index(h, t.v[j].h)) {
                    Ok(None) => {}
                    other => {
                        self.fail("child_index", i, format!("child_index(n, a node that is not a child of n) returned {:?}", other.ok()));
                        break;
                    }
                }
            }
        }
        let sub_ord = t.subtree_ord(i);
        self.list("descendants", i, guard(|| collect(x.descendants(h), n)), t.hs(&sub_ord));
        self.list("axis(DescendantOrSelf)", i, guard(|| collect(x.axis(Axis::DescendantOrSelf, h), n)), t.hs(&sub_ord));
        self.list("axis(Descendant)", i, guard(|| collect(x.axis(Axis::Descendant, h), n)), t.hs(&sub_ord[1..]));
        let rev_pre: Vec<usize> = doc_order.iter().copied().filter(|j| *j <= i).rev().collect();
        self.list("reverse_preorder", i, guard(|| collect(x.reverse_preorder(h), n)), t.hs(&rev_pre));

        // edge traversals
        let mut edges = Vec::new();
        t.traverse_edges(i, false, &mut edges);
        let mut all_edges = Vec::new();
        t.traverse_edges(i, true, &mut all_edges);
        self.edges("traverse", i, guard(|| snap::bounded(x.traverse(h), 4 * n + 8)), edges.clone());
        self.edges("all_traverse", i, guard(|| snap::bounded(x.all_traverse(h), 4 * n + 8)), all_edges.clone());
        let mut r = edges.clone();
        r.reverse();
        self.edges("reverse_traverse", i, guard(|| snap::bounded(x.reverse_traverse(h), 4 * n + 8)), r);
        let mut r = all_edges.clone();
        r.reverse();
        self.edges("reverse_all_traverse", i, guard(|| snap::bounded(x.reverse_all_traverse(h), 4 * n + 8)), r);

        // NodeEdge::next / previous against the whole-tree edge sequence
        let mut whole = Vec::new();
        t.traverse_edges(root, false, &mut whole);
        for e in [NodeEdge::Start(h), NodeEdge::End(h)] {
            let p = whole.iter().position(|w| *w == e).unwrap_or(0);
            self.checks += 2;
            match guard(|| e.next(x)) {
                Ok(g) if g == whole.get(p + 1).copied() => {}
                other => self.fail("NodeEdge::next", i, format!("{:?}.next() = {:?}, expected {:?}", kind_edge(&e), other.ok().map(|o| o.map(|q| kind_edge(&q))), whole.get(p + 1).map(kind_edge))),
            }
            let wantp = if p > 0 { Some(whole[p - 1]) } else { None };
            match guard(|| e.previous(x)) {
                Ok(g) if g == wantp => {}
                other => self.fail("NodeEdge::previous", i, format!("{:?}.previous() = {:?}, expected {:?}", kind_edge(&e), other.ok().map(|o| o.map(|q| kind_edge(&q))), wantp.as_ref().map(kind_edge))),
            }
        }

        // level order: groups of siblings, each closed by End
        {
            let mut want: Vec<LevelOrder> = Vec::new();
            let mut queue = std::collections::VecDeque::new();
            queue.push_back(i);
            let mut last_parent = t.v[i].parent;
            while let Some(q) = queue.pop_front() {
                if t.v[q].parent != last_parent {
                    want.push(LevelOrder::End);
                }
                want.push(LevelOrder::Node(t.v[q].h));
                last_parent = t.v[q].parent;
                for k in &t.v[q].kids {
                    queue.push_back(*k);
                }
            }
            want.push(LevelOrder::End);
            self.checks += 1;
            match guard(|| snap::bounded(x.level_order(h), 4 * n + 8)) {
                Ok(Ok(g)) if g == want => {}
                Ok(Ok(g)) => self.fail("level_order", i, format!("yielded {} items {:?}..., expected {} items", g.len(), g.iter().take(6).collect::<Vec<_>>(), want.len())),
                Ok(Err(_)) => self.fail("level_order", i, "does not terminate".to_string()),
                Err(p) => self.fail("level_order", i, format!("panicked: {}", p.short())),
            }
        }

        // document_element / top_element
        if x.is_document(h) {
            let de = kids.iter().copied().find(|k| x.is_element(t.v[*k].h));
            self.checks += 1;
            match guard(|| x.document_element(h)) {
                Ok(Ok(g)) if Some(g) == de.map(|d| t.v[d].h) => {}
                Ok(Err(_)) if de.is_none() => {}
                other => self.fail("document_element", i, format!("returned {:?}", other.map(|r| r.map(|n| crate::driver::describe(x, n)).map_err(|e| format!("{:?}", e))).map_err(|p| p.short()))),
            }
            if de.is_some() {
                self.opt("top_element", i, guard(|| Some(x.top_element(h))), de.map(|d| t.v[d].h));
            }
        } else {
            // only a document node has a document element, whatever children another node has
            self.checks += 1;
            if let Ok(Ok(g)) = guard(|| x.document_element(h)) {
                self.fail("document_element", i, format!("returned Ok({}) for a node that is not a document", crate::driver::describe(x, g)));
            }
            if let Some(te) = self.top_element(i) {
                self.opt("top_element", i, guard(|| Some(x.top_element(h))), Some(te));
            }
        }
    }

    /// the outermost element on the ancestor-or-self chain, when there is one
    fn top_element(&self, i: usize) -> Option<Node> {
        let mut chain = vec![i];
        chain.extend(self.t.ancestors(i));
        chain
            .iter()
            .rev()
            .copied()
            .find(|j| self.xot.is_element(self.t.v[*j].h))
            .map(|j| self.t.v[j].h)
    }

    fn edges(&mut self, ep: &str, start: usize, got: Result<Result<Vec<NodeEdge>, Vec<NodeEdge>>, crate::engine::PanicInfo>, want: Vec<NodeEdge>) {
        self.checks += 1;
        match got {
            Err(p) => self.fail(ep, start, format!("panicked: {}", p.short())),
            Ok(Err(_)) => self.fail(ep, start, "does not terminate".to_string()),
            Ok(Ok(g)) => {
                // an edge's node() is the node inside it
                if let Some(e) = g.iter().find(|e| match e {
                    NodeEdge::Start(n) | NodeEdge::End(n) => e.node() != *n,
                }) {
                    self.fail("NodeEdge::node", start, format!("{}.node() = {:?}", kind_edge(e), e.node()));
                }
                if g != want {
                    self.fail(ep, start, format!("yielded {} edges {:?}..., expected {} edges {:?}...", g.len(), g.iter().take(6).map(kind_edge).collect::<Vec<_>>(), want.len(), want.iter().take(6).map(kind_edge).collect::<Vec<_>>()));
                }
            }
        }
    }
}

fn kind_edge(e: &NodeEdge) -> String {
    match e {
        NodeEdge::Start(n) => format!("Start({:?})", n),
        NodeEdge::End(n) => format!("End({:?})", n),
    }
}

// ---------------------------------------------------------------------------------------------
// exhaustive shapes

/// all ordered forests with `n` nodes, each tree as nested Vec (children lists)
#[derive(Clone, Debug)]
struct Shape(Vec<Shape>);

fn forests(n: usize) -> Vec<Vec<Shape>> {
    if n == 0 {
        return vec![vec![]];
    }
    let mut out = Vec::new();
    // first tree has k nodes (1..=n), rest forest has n-k
    for k in 1..=n {
        for first_kids in forests(k - 1) {
            for rest in forests(n - k) {
                let mut f = vec![Shape(first_kids.clone())];
                f.extend(rest.into_iter());
                out.push(f);
            }
        }
    }
    out
}

fn all_shapes(max_nodes: usize) -> Vec<Shape> {
    let mut v = Vec::new();
    for n in 1..=max_nodes {
        for kids in forests(n - 1) {
            v.push(Shape(kids));
        }
    }
    v
}

fn shape_to_anode(s: &Shape, leaf_rot: usize, deco: usize, counter: &mut usize) -> ANode {
    *counter += 1;
    let id = *counter;
    if s.0.is_empty() && id > 1 {
        // leaf: rotate kinds
        match (id + leaf_rot) % 4 {
            0 => return ANode::text(&format!("t{}", id)),
            1 => return ANode::comment(&format!("c{}", id)),
            2 => return ANode::pi("pi", Some("d")),
            _ => {}
        }
    }
    let mut e = ANode::elem(QName::plain(&format!("e{}", id)));
    for d in 0..deco {
        e.decls.push((format!("p{}", d), format!("urn:{}", d)));
        e.attrs.push((QName::plain(&format!("a{}", d)), format!("v{}", d)));
    }
    for c in &s.0 {
        e.children.push(shape_to_anode(c, leaf_rot, deco, counter));
    }
    e
}

fn run_tree(ctx: &mut Ctx, a: &ANode, route: build::Route, style: AttrStyle, via_parse: bool) {
    let mut xot = Xot::new();
    xot.set_text_consolidation(false);
    let built = match guard(|| build::build(&mut xot, a, route, style)) {
        Ok(Ok(h)) => h,
        _ => {
            ctx.count("build_failed");
            return;
        }
    };
    let (xot2, handles): (Xot, HTree) = if via_parse {
        let text = match guard(|| xot.to_string(built.node)) {
            Ok(Ok(t)) => t,
            _ => {
                ctx.count("parse_route_skipped_not_serialisable");
                return;
            }
        };
        let mut x2 = Xot::new();
        let d = match guard(|| x2.parse_fragment(&text)) {
            Ok(Ok(d)) => d,
            _ => {
                ctx.count("parse_route_skipped_rejected");
                return;
            }
        };
        match guard(|| snap::snap(&x2, d)) {
            Ok(Ok(s)) => (x2, s.handles),
            _ => {
                ctx.count("parse_route_skipped_unreadable");
                return;
            }
        }
    } else {
        (xot, built)
    };
    let mut xot2 = xot2;
    let mut handles = handles;
    let mut first: Option<(String, String, String)> = None;
    let mut phase = "as-built";
    let mut manipulation = String::new();
    for round in 0..2 {
        if round == 1 {
            // second phase, one tree in three: every traversal has been asked once; now the tree is changed (an element
            // unwrapped, a comment prepended, a subtree removed) and everything is asked again on the tree as read back
            // through first_child / next_sibling, so that an answer remembered from before the change shows
            let hh = a.structural_hash();
            if hh % 3 != 0 {
                break;
            }
            let elems: Vec<Node> = handles.flat().into_iter().filter(|n| xot2.is_element(*n) && xot2.parent(*n).map_or(false, |p| xot2.is_element(p))).collect();
            if elems.is_empty() {
                break;
            }
            let e = elems[((hh / 3) % elems.len() as u64) as usize];
            let parent = xot2.parent(e).unwrap();
            // the very last questions before the change are about the sibling behind e (and asked again right after it)
            let behind = xot2.next_sibling(e);
            if let Some(x) = behind {
                let _ = guard(|| (xot2.child_index(parent, x), xot2.previous_sibling(x), xot2.next_sibling(x)));
            }
            // childless elements with attribute / namespace nodes, for the calls that fill an empty element
            let hollow: Vec<Node> = handles
                .flat()
                .into_iter()
                .filter(|n| xot2.is_element(*n) && xot2.first_child(*n).is_none() && (xot2.attributes(*n).len() > 0 || xot2.namespaces(*n).len() > 0))
                .collect();
            let done = guard(|| match (hh / 11) % 6 {
                0 => xot2.element_unwrap(e).map(|_| "element_unwrap"),
                3 if !hollow.is_empty() => {
                    let t = hollow[((hh / 67) % hollow.len() as u64) as usize];
                    if let Some(v) = xot2.text_content_mut(t) {
                        v.set("tc");
                    }
                    Ok("text_content_mut")
                }
                4 if !hollow.is_empty() => {
                    let t = hollow[((hh / 67) % hollow.len() as u64) as usize];
                    xot2.append_text(t, "at").map(|_| "append_text")
                }
                5 => {
                    let n = xot2.add_name("zzattr");
                    xot2.set_attribute(e, n, "v");
                    let c = xot2.new_comment("zz");
                    xot2.insert_before(e, c).map(|_| "set_attribute+insert_before")
                }
                1 => {
                    let c = xot2.new_comment("zz");
                    xot2.prepend(parent, c).map(|_| "prepend")
                }
                _ => xot2.remove(e).map(|_| "remove"),
            });
            match done {
                Ok(Ok(what)) => manipulation = what.to_string(),
                _ => break,
            }
            if let Some(x) = behind {
                let want = guard(|| xot2.children(parent).position(|n| n == x)).unwrap_or(None);
                let got = guard(|| xot2.child_index(parent, x)).unwrap_or(None);
                if got != want {
                    first = Some((
                        "child_index".to_string(),
                        "ordinary".to_string(),
                        format!("[asked before and right after {} of its previous sibling] child_index = {:?}, position among children() = {:?}", manipulation, got, want),
                    ));
                    phase = "after-manipulation-direct";
                    break;
                }
            }
            handles = match guard(|| snap::snap(&xot2, handles.node)) {
                Ok(Ok(s)) => s.handles,
                _ => break,
            };
            phase = "after-manipulation";
            ctx.count("trees_checked_again_after_manipulation");
        }
        let truth = Truth::from(&handles, &xot2);
        let n = truth.v.len();
        let mut ck = Checker {
            xot: &xot2,
            t: &truth,
            n,
            tree: String::new(),
            first: None,
            checks: 0,
        };
        let _ = &ck.tree;
        for i in 0..n {
            ck.check_node(i);
            if ck.first.is_some() {
                break;
            }
        }
        ctx.add("iterator_runs_compared", ck.checks);
        ctx.add("start_nodes", n as u64);
        if let Some((ep, sk, what)) = ck.first {
            first = Some((ep.to_string(), sk.to_string(), what));
            break;
        }
    }
    if let Some((ep, sk, what)) = first {
        let what = if phase == "as-built" || phase == "after-manipulation-direct" { what } else { format!("[after {} on the tree, every traversal had been asked once before] {}", manipulation, what) };
        let harness = what.starts_with("harness:");
        if harness {
            ctx.count("harness_self_check_failed");
        }
        ctx.violation(
            "a traversal entry point disagrees with the tree structure",
            format!("C07/{}/{}/{}", ep, sk, if what.contains("does not terminate") { "does-not-terminate" } else if what.contains("panicked") { "panic" } else { "wrong-yield" }),
            J::obj().set("tree", a.to_json()).set("entry_point", J::s(ep)).set("start_node_kind", J::s(sk)).set("what", J::s(trunc(&what, 1200))).set("via_parse", J::Bool(via_parse)),
        );
    }
}

impl Monitor for C07 {
    fn id(&self) -> &'static str {
        "C07"
    }
    fn streams(&self, tier: Tier, budget: f64) -> Vec<Stream> {
        let shapes = all_shapes(6).len() as u64;
        let n = match tier {
            Tier::Quick => 150_000,
            Tier::Thorough => 1_000_000,
        };
        vec![
            Stream::exhaustive("all-shapes-up-to-6-nodes", shapes * 3 * 3 * 2),
            Stream::new("random-trees", scaled(n, budget)),
            Stream::new("chains-and-fans", 40),
        ]
    }
    fn rule(&self) -> String {
        "every ordered tree shape with <= 6 ordinary nodes x 3 leaf-kind rotations x {0,1,2} attribute+namespace nodes per element x {parentless, under a document}; random documents / fragments / parentless subtrees <= 60 nodes (also re-parsed); chains of depth 60 and fans of width 30; for EVERY node (incl. attribute and namespace nodes) every traversal entry point and all 12 axes are compared with lists computed from handles recorded at creation time; every iterator is consumed with a bound; one tree in three is then changed (element_unwrap / prepend / remove) and checked once more. Non-trivial = tree with >= 3 nodes; distinct by structural hash".into()
    }
    fn floors(&self, _tier: Tier) -> Vec<(&'static str, u64)> {
        vec![("iterator_runs_compared", 500_000), ("start_nodes", 20_000), ("trees_with_abnormal_nodes", 500), ("trees_checked_again_after_manipulation", 5_000)]
    }
    fn assumptions(&self) -> Vec<String> {
        vec![
            "for attribute / namespace start nodes only the entry points whose meaning the statement fixes are judged (DESIGN §5 C07)".into(),
            "in the re-parsed stream the handle table comes from first_child/next_sibling/attributes()/namespaces(), which the creation-API streams validate".into(),
        ]
    }
    fn run_case(&self, stream: usize, idx: u64, rng: &mut Rng, ctx: &mut Ctx) {
        match stream {
            0 => {
                let shapes = all_shapes(6);
                let si = (idx / 18) as usize % shapes.len();
                let r = idx % 18;
                let (rot, deco, in_doc) = ((r / 6) as usize, ((r / 2) % 3) as usize, r % 2 == 1);
                let mut c = 0;
                let e = shape_to_anode(&shapes[si], rot, deco, &mut c);
                let a = if in_doc { ANode::doc(vec![e]) } else { e };
                if deco > 0 {
                    ctx.count("trees_with_abnormal_nodes");
                }
                ctx.nontrivial(a.structural_hash());
                run_tree(ctx, &a, build::Route::TopDown, AttrStyle::Map, false);
                if idx < 2 {
                    ctx.sample(|| J::obj().set("tree", a.to_json()));
                }
            }
            1 => {
                let mut cfg = GenCfg::default();
                cfg.max_nodes = if crate::engine::legs_mode() { 6 } else { *rng.pick(&[6, 15, 30, 60]) };
                cfg.max_depth = *rng.pick(&[3, 6, 10]);
                cfg.ns_mode = if rng.bool() { NsMode::Consistent } else { NsMode::None };
                cfg.text = TextProfile::Plain;
                cfg.str_len = 3;
                cfg.fragment = rng.chance(1, 3);
                cfg.allow_adjacent_text = true;
                let a = if rng.chance(1, 4) { gen::gen_element(rng, &cfg) } else { gen::gen_document(rng, &cfg) };
                let mut has_abn = false;
                a.walk(&mut |n| {
                    if !n.attrs.is_empty() || !n.decls.is_empty() {
                        has_abn = true
                    }
                });
                if has_abn {
                    ctx.count("trees_with_abnormal_nodes");
                }
                if a.count() >= 3 {
                    ctx.nontrivial(a.structural_hash());
                }
                let route = *rng.pick(&ROUTES);
                let style = *rng.pick(&crate::build::STYLES);
                let via_parse = rng.chance(1, 4);
                if via_parse {
                    ctx.count("trees_via_parse");
                }
                run_tree(ctx, &a, route, style, via_parse);
                ctx.sample(|| J::obj().set("tree", a.to_json()).set("via_parse", J::Bool(via_parse)));
            }
            _ if crate::engine::legs_mode() => {}
            _ => {
                // deep chains and wide fans
                let mut e = ANode::elem(QName::plain("leaf")).with_attr(QName::plain("k"), "v");
                if idx % 2 == 0 {
                    for d in 0..60 {
                        let mut p = ANode::elem(QName::plain(&format!("d{}", d)));
                        if d % 7 == 0 {
                            p = p.with_attr(QName::plain("k"), "v").with_decl("p", "urn:A");
                        }
                        p.children.push(e);
                        if d % 5 == (idx as usize / 2) % 5 {
                            p.children.push(ANode::text("t"));
                        }
                        e = p;
                    }
                } else {
                    let mut p = ANode::elem(QName::plain("fan")).with_decl("p", "urn:A").with_attr(QName::plain("a"), "1").with_attr(QName::plain("b"), "2");
                    for k in 0..30 {
                        p.children.push(match (k + idx as usize) % 3 {
                            0 => ANode::elem(QName::plain("c")).with_attr(QName::plain("k"), "v"),
                            1 => ANode::text("t"),
                            _ => ANode::comment("c"),
                        });
                    }
                    e = ANode::doc(vec![p]);
                }
                ctx.count("trees_with_abnormal_nodes");
                ctx.nontrivial(e.structural_hash());
                run_tree(ctx, &e, build::Route::BottomUp, AttrStyle::Node, false);
            }
        }
    }
}
