//! C11 — attribute and namespace views behave as insertion-ordered maps.

use super::common::*;
use crate::adoc::*;
use crate::engine::{guard, Ctx, Monitor, Stream, Tier};
use crate::json::J;
use crate::rng::Rng;
use crate::xmlread;
use xot::{Entry, NameId, NamespaceId, Node, PrefixId, Xot};

pub struct C11;

const ATTR_KEYS: &[(&str, &str)] = &[("", "k1"), ("", "k2"), ("urn:A", "k1"), ("http://www.w3.org/XML/1998/namespace", "id")];
const NS_KEYS: &[&str] = &["", "p", "q", "r"];
/// size of the key pools in "wide" histories (maps that grow past 16 / 32 entries)
const WIDE_POOL: usize = 40;

fn attr_key(i: usize) -> (String, String) {
    if i < ATTR_KEYS.len() {
        (ATTR_KEYS[i].0.to_string(), ATTR_KEYS[i].1.to_string())
    } else {
        (if i % 3 == 0 { "urn:A".to_string() } else { String::new() }, format!("w{}", i))
    }
}

fn ns_key(i: usize) -> String {
    if i < NS_KEYS.len() {
        NS_KEYS[i].to_string()
    } else {
        format!("w{}", i)
    }
}
/// the last entry (no namespace) is only ever paired with the empty prefix: xmlns=""
const URIS: &[&str] = &["urn:A", "urn:B", "urn:C", ""];
const VALS: &[&str] = &["", "v", "w", "x y", "<&>", " a  b ", "v "];

#[derive(Clone, Debug, PartialEq)]
struct AEntry {
    key: usize, // index into ATTR_KEYS
    val: String,
    node: Option<Node>,
}
#[derive(Clone, Debug, PartialEq)]
struct NEntry {
    key: usize, // index into NS_KEYS
    val: usize, // index into URIS
    node: Option<Node>,
}

struct Elem {
    node: Node,
    attrs: Vec<AEntry>,
    nss: Vec<NEntry>,
}

struct World {
    xot: Xot,
    akeys: Vec<NameId>,
    nkeys: Vec<PrefixId>,
    uris: Vec<NamespaceId>,
    e: [Elem; 2],
    doc: Node,
}

/// compare one view (read-only or mutable have the same method names) with the model
macro_rules! check_view {
    ($view:expr, $model:expr, $keys:expr, $valeq:expr, $label:expr) => {{
        let view = $view;
        let model = $model;
        let mut bad: Option<String> = None;
        if view.len() != model.len() {
            bad = Some(format!("{}: len() = {} but the map has {} entries", $label, view.len(), model.len()));
        }
        if bad.is_none() && view.is_empty() != model.is_empty() {
            bad = Some(format!("{}: is_empty() = {} but the map has {} entries", $label, view.is_empty(), model.len()));
        }
        if bad.is_none() {
            for (ki, k) in $keys.iter().enumerate() {
                let me = model.iter().find(|e| e.key == ki);
                if view.contains_key(*k) != me.is_some() {
                    bad = Some(format!("{}: contains_key(key#{}) = {}", $label, ki, view.contains_key(*k)));
                    break;
                }
                match (view.get(*k), me) {
                    (None, None) => {}
                    (Some(v), Some(e)) if $valeq(v, e) => {}
                    (g, _) => {
                        bad = Some(format!("{}: get(key#{}) = {:?} disagrees with the map", $label, ki, g));
                        break;
                    }
                }
                let gn = view.get_node(*k);
                match (gn, me) {
                    (None, None) => {}
                    (Some(n), Some(e)) if e.node.is_none() || e.node == Some(n) => {}
                    _ => {
                        bad = Some(format!("{}: get_node(key#{}) is not the entry's node", $label, ki));
                        break;
                    }
                }
            }
        }
        if bad.is_none() {
            let it: Vec<_> = view.iter().collect();
            let ks: Vec<_> = view.keys().collect();
            let vs: Vec<_> = view.values().collect();
            let ns: Vec<Node> = view.nodes().collect();
            let tv = view.to_vec();
            let hm = view.to_hashmap();
            if it.len() != model.len() || ks.len() != model.len() || vs.len() != model.len() || ns.len() != model.len() || tv.len() != model.len() || hm.len() != model.len() {
                bad = Some(format!(
                    "{}: iter/keys/values/nodes/to_vec/to_hashmap lengths {}/{}/{}/{}/{}/{} but the map has {} entries",
                    $label, it.len(), ks.len(), vs.len(), ns.len(), tv.len(), hm.len(), model.len()
                ));
            } else {
                for (i, e) in model.iter().enumerate() {
                    let k = $keys[e.key];
                    if it[i].0 != k || !$valeq(it[i].1, e) {
                        bad = Some(format!("{}: iter() position {} is not the map's entry (order or value)", $label, i));
                        break;
                    }
                    if ks[i] != k {
                        bad = Some(format!("{}: keys() position {} differs", $label, i));
                        break;
                    }
                    if !$valeq(vs[i], e) {
                        bad = Some(format!("{}: values() position {} differs", $label, i));
                        break;
                    }
                    if tv[i].0 != k || !$valeq(&tv[i].1, e) {
                        bad = Some(format!("{}: to_vec() position {} differs", $label, i));
                        break;
                    }
                    if let Some(n) = e.node {
                        if ns[i] != n {
                            bad = Some(format!("{}: nodes() position {} is not the entry's node (an update must keep the node)", $label, i));
                            break;
                        }
                    }
                    match hm.get(&k) {
                        Some(v) if $valeq(v, e) => {}
                        _ => {
                            bad = Some(format!("{}: to_hashmap() lacks or mis-values key#{}", $label, e.key));
                            break;
                        }
                    }
                }
            }
        }
        bad
    }};
}

impl World {
    fn new(rng: &mut Rng) -> World {
        let mut xot = Xot::new();
        let mut akeys = Vec::new();
        let pool = if rng.chance(1, 25) { WIDE_POOL } else { 4 };
        for i in 0..pool {
            let (ns, l) = attr_key(i);
            let n = xot.add_namespace(&ns);
            akeys.push(xot.add_name_ns(&l, n));
        }
        let nkeys: Vec<PrefixId> = (0..pool).map(|i| xot.add_prefix(&ns_key(i))).collect();
        let uris: Vec<NamespaceId> = URIS.iter().map(|u| xot.add_namespace(u)).collect();
        let name = xot.add_name("e");
        let e0 = xot.new_element(name);
        let e1 = xot.new_element(name);
        let doc = xot.new_document();
        let root = xot.new_element(name);
        let _ = xot.append(doc, root);
        let _ = xot.append(root, e0);
        let _ = xot.append(root, e1);
        // a child so that start and end tags exist
        let _ = xot.append_text(e0, "t");
        // the common parent binds some of the pool's prefixes itself: an update of a child's own map must not be
        // confused with what the child merely inherits
        for i in 0..pool.min(4) {
            if rng.chance(1, 2) {
                let u = uris[rng.below(3)];
                xot.namespaces_mut(root).insert(nkeys[i], u);
            }
        }
        let mut w = World {
            xot,
            akeys,
            nkeys,
            uris,
            e: [
                Elem { node: e0, attrs: Vec::new(), nss: Vec::new() },
                Elem { node: e1, attrs: Vec::new(), nss: Vec::new() },
            ],
            doc,
        };
        // start with 0-5 namespace and 0-5 attribute nodes (pool of 4 keys each)
        for which in 0..2 {
            let (na, nn) = if pool > 4 { (rng.range(10, pool), rng.range(10, pool)) } else { (rng.range(0, 4), rng.range(0, 4)) };
            let mut ak: Vec<usize> = (0..pool).collect();
            rng.shuffle(&mut ak);
            for k in ak.into_iter().take(na) {
                let v = rng.pick(VALS).to_string();
                w.xot.attributes_mut(w.e[which].node).insert(w.akeys[k], v.clone());
                w.e[which].attrs.push(AEntry { key: k, val: v, node: None });
            }
            let mut nk: Vec<usize> = (0..pool).collect();
            rng.shuffle(&mut nk);
            for k in nk.into_iter().take(nn) {
                let u = if ns_key(k).is_empty() { rng.below(URIS.len()) } else { rng.below(URIS.len() - 1) };
                w.xot.namespaces_mut(w.e[which].node).insert(w.nkeys[k], w.uris[u]);
                w.e[which].nss.push(NEntry { key: k, val: u, node: None });
            }
            w.adopt_nodes(which);
        }
        w
    }

    /// bind entries without a node to the node at their position (new entries only)
    fn adopt_nodes(&mut self, which: usize) {
        let e = self.e[which].node;
        let an: Vec<Node> = self.xot.attributes(e).nodes().collect();
        let nn: Vec<Node> = self.xot.namespaces(e).nodes().collect();
        for (i, a) in self.e[which].attrs.iter_mut().enumerate() {
            if a.node.is_none() {
                a.node = an.get(i).copied();
            }
        }
        for (i, a) in self.e[which].nss.iter_mut().enumerate() {
            if a.node.is_none() {
                a.node = nn.get(i).copied();
            }
        }
    }

    fn check(&mut self, which: usize) -> Option<String> {
        let e = self.e[which].node;
        let uris = self.uris.clone();
        let aeq = |v: &String, en: &AEntry| *v == en.val;
        let neq = move |v: &NamespaceId, en: &NEntry| *v == uris[en.val];
        let r = check_view!(self.xot.attributes(e), &self.e[which].attrs, self.akeys, aeq, "attributes()");
        if r.is_some() {
            return r;
        }
        let r = check_view!(self.xot.namespaces(e), &self.e[which].nss, self.nkeys, neq, "namespaces()");
        if r.is_some() {
            return r;
        }
        {
            let attrs = self.e[which].attrs.clone();
            let akeys = self.akeys.clone();
            let m = self.xot.attributes_mut(e);
            let r = check_view!(&m, &attrs, akeys, aeq, "attributes_mut()");
            if r.is_some() {
                return r;
            }
        }
        {
            let nss = self.e[which].nss.clone();
            let nkeys = self.nkeys.clone();
            let m = self.xot.namespaces_mut(e);
            let r = check_view!(&m, &nss, nkeys, neq, "namespaces_mut()");
            if r.is_some() {
                return r;
            }
        }
        // shorthand accessors
        for (ki, k) in self.akeys.iter().enumerate() {
            let me = self.e[which].attrs.iter().find(|a| a.key == ki).map(|a| a.val.as_str());
            if self.xot.get_attribute(e, *k) != me {
                return Some(format!("get_attribute(key#{}) disagrees with the map", ki));
            }
        }
        for (ki, k) in self.nkeys.iter().enumerate() {
            let me = self.e[which].nss.iter().find(|a| a.key == ki).map(|a| self.uris[a.val]);
            if self.xot.get_namespace(e, *k) != me {
                return Some(format!("get_namespace(key#{}) disagrees with the map", ki));
            }
        }
        None
    }

    /// one random update step; returns (description, Some(problem with a return value))
    fn step(&mut self, rng: &mut Rng) -> (String, Option<String>) {
        let which = if rng.chance(4, 5) { 0 } else { 1 };
        let other = 1 - which;
        let e = self.e[which].node;
        if rng.chance(1, 8) {
            return self.session(rng);
        }
        if rng.chance(1, 9) {
            return self.tree_op(which, rng);
        }
        let k = rng.below(self.akeys.len());
        let v = rng.pick(VALS).to_string();
        let u = if ns_key(k).is_empty() { rng.below(URIS.len()) } else { rng.below(URIS.len() - 1) };
        let attr_side = rng.bool();
        let kind = rng.below(20);
        let mut problem: Option<String> = None;
        let desc;
        if attr_side {
            let key = self.akeys[k];
            let pos = self.e[which].attrs.iter().position(|a| a.key == k);
            let old = pos.map(|p| self.e[which].attrs[p].val.clone());
            let upsert = |w: &mut World, val: String| match pos {
                Some(p) => w.e[which].attrs[p].val = val,
                None => w.e[which].attrs.push(AEntry { key: k, val, node: None }),
            };
            match kind {
                0 | 1 => {
                    desc = format!("attributes_mut(e{}).insert(key#{}, {:?})", which, k, v);
                    let r = self.xot.attributes_mut(e).insert(key, v.clone());
                    if r != old {
                        problem = Some(format!("insert returned {:?}, the previous value was {:?}", r, old));
                    }
                    upsert(self, v);
                }
                2 => {
                    desc = format!("attributes_mut(e{}).remove(key#{})", which, k);
                    let r = self.xot.attributes_mut(e).remove(key);
                    if r != old {
                        problem = Some(format!("remove returned {:?}, the value was {:?}", r, old));
                    }
                    if let Some(p) = pos {
                        self.e[which].attrs.remove(p);
                    }
                }
                3 => {
                    desc = format!("*attributes_mut(e{}).get_mut(key#{}) = {:?}", which, k, v);
                    let mut m = self.xot.attributes_mut(e);
                    match m.get_mut(key) {
                        Some(slot) => {
                            if pos.is_none() {
                                problem = Some("get_mut returned Some for an absent key".into());
                            }
                            *slot = v.clone();
                        }
                        None => {
                            if pos.is_some() {
                                problem = Some("get_mut returned None for a present key".into());
                            }
                        }
                    }
                    if let Some(p) = pos {
                        self.e[which].attrs[p].val = v;
                    }
                }
                4 => {
                    desc = format!("attributes_mut(e{}).clear()", which);
                    self.xot.attributes_mut(e).clear();
                    self.e[which].attrs.clear();
                }
                5 => {
                    desc = format!("attributes_mut(e{}).entry(key#{}).or_insert({:?})", which, k, v);
                    let mut m = self.xot.attributes_mut(e);
                    let got = m.entry(key).or_insert(v.clone()).clone();
                    let want = old.clone().unwrap_or(v.clone());
                    if got != want {
                        problem = Some(format!("or_insert yielded {:?}, expected {:?}", got, want));
                    }
                    if pos.is_none() {
                        upsert(self, v);
                    }
                }
                6 => {
                    desc = format!("attributes_mut(e{}).entry(key#{}).or_insert_with(|| {:?})", which, k, v);
                    let mut m = self.xot.attributes_mut(e);
                    let vv = v.clone();
                    let got = m.entry(key).or_insert_with(move || vv).clone();
                    let want = old.clone().unwrap_or(v.clone());
                    if got != want {
                        problem = Some(format!("or_insert_with yielded {:?}, expected {:?}", got, want));
                    }
                    if pos.is_none() {
                        upsert(self, v);
                    }
                }
                7 => {
                    desc = format!("attributes_mut(e{}).entry(key#{}).or_default()", which, k);
                    let mut m = self.xot.attributes_mut(e);
                    let got = m.entry(key).or_default().clone();
                    let want = old.clone().unwrap_or_default();
                    if got != want {
                        problem = Some(format!("or_default yielded {:?}, expected {:?}", got, want));
                    }
                    if pos.is_none() {
                        upsert(self, String::new());
                    }
                }
                8 => {
                    desc = format!("attributes_mut(e{}).entry(key#{}).and_modify(push '!').or_insert({:?})", which, k, v);
                    let mut m = self.xot.attributes_mut(e);
                    let en = m.entry(key);
                    if *en.key() != key {
                        problem = Some("Entry::key() is not the requested key".into());
                    }
                    en.and_modify(|s| s.push('!')).or_insert(v.clone());
                    match pos {
                        Some(p) => self.e[which].attrs[p].val.push('!'),
                        None => upsert(self, v),
                    }
                }
                9 => {
                    desc = format!("match attributes_mut(e{}).entry(key#{}) {{ Occupied: get/get_mut/insert({:?}); Vacant: insert }}", which, k, v);
                    let mut m = self.xot.attributes_mut(e);
                    match m.entry(key) {
                        Entry::Occupied(mut o) => {
                            if pos.is_none() {
                                problem = Some("entry() is Occupied for an absent key".into());
                            } else {
                                if Some(o.get().clone()) != old {
                                    problem = Some("OccupiedEntry::get() is not the value".into());
                                }
                                o.get_mut().push('?');
                                let prev = o.insert(v.clone());
                                if Some(prev.clone()) != old.clone().map(|s| s + "?") {
                                    problem = Some(format!("OccupiedEntry::insert returned {:?}", prev));
                                }
                                if *o.key() != key {
                                    problem = Some("OccupiedEntry::key() differs".into());
                                }
                            }
                        }
                        Entry::Vacant(vac) => {
                            if pos.is_some() {
                                problem = Some("entry() is Vacant for a present key".into());
                            }
                            if *vac.key() != key {
                                problem = Some("VacantEntry::key() differs".into());
                            }
                            let slot = vac.insert(v.clone());
                            if *slot != v {
                                problem = Some("VacantEntry::insert returned another value".into());
                            }
                        }
                    }
                    upsert(self, v);
                }
                10 => {
                    desc = format!("match attributes_mut(e{}).entry(key#{}) {{ Occupied: remove / into_mut }}", which, k);
                    let mut m = self.xot.attributes_mut(e);
                    let rm = rng.bool();
                    match m.entry(key) {
                        Entry::Occupied(o) => {
                            if rm {
                                let r = o.remove();
                                if Some(r) != old {
                                    problem = Some("OccupiedEntry::remove returned another value".into());
                                }
                                if let Some(p) = pos {
                                    self.e[which].attrs.remove(p);
                                }
                            } else {
                                let slot = o.into_mut();
                                slot.push('#');
                                if let Some(p) = pos {
                                    self.e[which].attrs[p].val.push('#');
                                }
                            }
                        }
                        Entry::Vacant(_) => {
                            if pos.is_some() {
                                problem = Some("entry() is Vacant for a present key".into());
                            }
                        }
                    }
                }
                11 => {
                    desc = format!("set_attribute(e{}, key#{}, {:?})", which, k, v);
                    self.xot.set_attribute(e, key, v.clone());
                    upsert(self, v);
                }
                12 => {
                    desc = format!("remove_attribute(e{}, key#{})", which, k);
                    self.xot.remove_attribute(e, key);
                    if let Some(p) = pos {
                        self.e[which].attrs.remove(p);
                    }
                }
                13 | 14 => {
                    let any = kind == 14;
                    desc = format!("{}(e{}, new_attribute_node(key#{}, {:?}))", if any { "any_append" } else { "append_attribute_node" }, which, k, v);
                    let n = self.xot.new_attribute_node(key, v.clone());
                    let r = if any { self.xot.any_append(e, n) } else { self.xot.append_attribute_node(e, n) };
                    match r {
                        Ok(ret) => match pos {
                            Some(p) => {
                                if self.e[which].attrs[p].node.is_some() && Some(ret) != self.e[which].attrs[p].node {
                                    problem = Some("appending a node for an existing key must return the existing entry's node".into());
                                }
                                self.e[which].attrs[p].val = v;
                            }
                            None => {
                                if ret != n {
                                    problem = Some("appending a node for a new key must return that node".into());
                                }
                                self.e[which].attrs.push(AEntry { key: k, val: v, node: Some(n) });
                            }
                        },
                        Err(er) => problem = Some(format!("refused: {:?}", er)),
                    }
                }
                15 | 16 => {
                    // detach / remove an attribute node
                    if let Some(p) = pos {
                        let n = self.e[which].attrs[p].node;
                        if let Some(n) = n {
                            desc = format!("{}(attribute node key#{} of e{})", if kind == 15 { "detach" } else { "remove" }, k, which);
                            let r = if kind == 15 { self.xot.detach(n) } else { self.xot.remove(n) };
                            if let Err(er) = r {
                                problem = Some(format!("refused: {:?}", er));
                            }
                            self.e[which].attrs.remove(p);
                        } else {
                            desc = "noop".into();
                        }
                    } else {
                        desc = "noop".into();
                    }
                }
                _ => {
                    // move an attribute node in from the other element
                    let opos = self.e[other].attrs.iter().position(|a| a.key == k);
                    if let Some(op) = opos {
                        let src = self.e[other].attrs[op].clone();
                        if let Some(n) = src.node {
                            desc = format!("append_attribute_node(e{}, attribute node key#{} of e{})", which, k, other);
                            match self.xot.append_attribute_node(e, n) {
                                Ok(ret) => match pos {
                                    Some(p) => {
                                        // key present: value overwritten, node stays where it was
                                        if self.e[which].attrs[p].node.is_some() && Some(ret) != self.e[which].attrs[p].node {
                                            problem = Some("existing key: must return the existing entry's node".into());
                                        }
                                        self.e[which].attrs[p].val = src.val.clone();
                                    }
                                    None => {
                                        if ret != n {
                                            problem = Some("new key: must return the moved node".into());
                                        }
                                        self.e[other].attrs.remove(op);
                                        self.e[which].attrs.push(src);
                                    }
                                },
                                Err(er) => problem = Some(format!("refused: {:?}", er)),
                            }
                        } else {
                            desc = "noop".into();
                        }
                    } else {
                        desc = "noop".into();
                    }
                }
            }
        } else {
            let key = self.nkeys[k];
            let uri = self.uris[u];
            let pos = self.e[which].nss.iter().position(|a| a.key == k);
            let old = pos.map(|p| self.uris[self.e[which].nss[p].val]);
            let upsert = |w: &mut World, val: usize| match pos {
                Some(p) => w.e[which].nss[p].val = val,
                None => w.e[which].nss.push(NEntry { key: k, val, node: None }),
            };
            match kind {
                0 | 1 => {
                    desc = format!("namespaces_mut(e{}).insert(prefix#{}, uri#{})", which, k, u);
                    let r = self.xot.namespaces_mut(e).insert(key, uri);
                    if r != old {
                        problem = Some(format!("insert returned {:?}, previous value {:?}", r, old));
                    }
                    upsert(self, u);
                }
                2 => {
                    desc = format!("namespaces_mut(e{}).remove(prefix#{})", which, k);
                    let r = self.xot.namespaces_mut(e).remove(key);
                    if r != old {
                        problem = Some(format!("remove returned {:?}, value was {:?}", r, old));
                    }
                    if let Some(p) = pos {
                        self.e[which].nss.remove(p);
                    }
                }
                3 => {
                    desc = format!("*namespaces_mut(e{}).get_mut(prefix#{}) = uri#{}", which, k, u);
                    let mut m = self.xot.namespaces_mut(e);
                    match m.get_mut(key) {
                        Some(slot) => {
                            if pos.is_none() {
                                problem = Some("get_mut returned Some for an absent key".into());
                            }
                            *slot = uri;
                        }
                        None => {
                            if pos.is_some() {
                                problem = Some("get_mut returned None for a present key".into());
                            }
                        }
                    }
                    if let Some(p) = pos {
                        self.e[which].nss[p].val = u;
                    }
                }
                4 => {
                    desc = format!("namespaces_mut(e{}).clear()", which);
                    self.xot.namespaces_mut(e).clear();
                    self.e[which].nss.clear();
                }
                5 | 6 => {
                    desc = format!("namespaces_mut(e{}).entry(prefix#{}).or_insert(uri#{})", which, k, u);
                    let mut m = self.xot.namespaces_mut(e);
                    let got = if kind == 5 { *m.entry(key).or_insert(uri) } else { *m.entry(key).or_insert_with(|| uri) };
                    let want = old.unwrap_or(uri);
                    if got != want {
                        problem = Some("or_insert yielded another value".into());
                    }
                    if pos.is_none() {
                        upsert(self, u);
                    }
                }
                7 | 8 => {
                    desc = format!("namespaces_mut(e{}).entry(prefix#{}).and_modify(set uri#{}).or_insert(uri#{})", which, k, u, u);
                    let mut m = self.xot.namespaces_mut(e);
                    m.entry(key).and_modify(|s| *s = uri).or_insert(uri);
                    upsert(self, u);
                }
                9 | 10 => {
                    desc = format!("match namespaces_mut(e{}).entry(prefix#{}) {{ Occupied: insert(uri#{}) / remove; Vacant: insert }}", which, k, u);
                    let mut m = self.xot.namespaces_mut(e);
                    match m.entry(key) {
                        Entry::Occupied(mut o) => {
                            if Some(*o.get()) != old {
                                problem = Some("OccupiedEntry::get() is not the value".into());
                            }
                            if kind == 9 {
                                let prev = o.insert(uri);
                                if Some(prev) != old {
                                    problem = Some("OccupiedEntry::insert returned another value".into());
                                }
                                if let Some(p) = pos {
                                    self.e[which].nss[p].val = u;
                                }
                            } else {
                                let r = o.remove();
                                if Some(r) != old {
                                    problem = Some("OccupiedEntry::remove returned another value".into());
                                }
                                if let Some(p) = pos {
                                    self.e[which].nss.remove(p);
                                }
                            }
                        }
                        Entry::Vacant(vac) => {
                            if pos.is_some() {
                                problem = Some("entry() is Vacant for a present key".into());
                            }
                            vac.insert(uri);
                            upsert(self, u);
                        }
                    }
                }
                11 => {
                    desc = format!("set_namespace(e{}, prefix#{}, uri#{})", which, k, u);
                    self.xot.set_namespace(e, key, uri);
                    upsert(self, u);
                }
                12 => {
                    desc = format!("remove_namespace(e{}, prefix#{})", which, k);
                    self.xot.remove_namespace(e, key);
                    if let Some(p) = pos {
                        self.e[which].nss.remove(p);
                    }
                }
                13 | 14 | 19 => {
                    let how = match kind {
                        13 => "append_namespace_node",
                        14 => "any_append",
                        _ => "append_namespace",
                    };
                    desc = format!("{}(e{}, namespace prefix#{} -> uri#{})", how, which, k, u);
                    let (r, n) = if kind == 19 {
                        let cn = xot::xmlname::CreateNamespace::new(&mut self.xot, &ns_key(k), URIS[u]);
                        (self.xot.append_namespace(e, &cn), None)
                    } else {
                        let n = self.xot.new_namespace_node(key, uri);
                        (if kind == 14 { self.xot.any_append(e, n) } else { self.xot.append_namespace_node(e, n) }, Some(n))
                    };
                    match r {
                        Ok(ret) => match pos {
                            Some(p) => {
                                if self.e[which].nss[p].node.is_some() && Some(ret) != self.e[which].nss[p].node {
                                    problem = Some("appending a namespace node for an existing prefix must return the existing entry's node".into());
                                }
                                self.e[which].nss[p].val = u;
                            }
                            None => {
                                if let Some(n) = n {
                                    if ret != n {
                                        problem = Some("appending a namespace node for a new prefix must return that node".into());
                                    }
                                }
                                self.e[which].nss.push(NEntry { key: k, val: u, node: Some(ret) });
                            }
                        },
                        Err(er) => problem = Some(format!("refused: {:?}", er)),
                    }
                }
                15 | 16 => {
                    if let Some(p) = pos {
                        if let Some(n) = self.e[which].nss[p].node {
                            desc = format!("{}(namespace node prefix#{} of e{})", if kind == 15 { "detach" } else { "remove" }, k, which);
                            let r = if kind == 15 { self.xot.detach(n) } else { self.xot.remove(n) };
                            if let Err(er) = r {
                                problem = Some(format!("refused: {:?}", er));
                            }
                            self.e[which].nss.remove(p);
                        } else {
                            desc = "noop".into();
                        }
                    } else {
                        desc = "noop".into();
                    }
                }
                _ => {
                    let opos = self.e[other].nss.iter().position(|a| a.key == k);
                    if let Some(op) = opos {
                        let src = self.e[other].nss[op].clone();
                        if let Some(n) = src.node {
                            desc = format!("append_namespace_node(e{}, namespace node prefix#{} of e{})", which, k, other);
                            match self.xot.append_namespace_node(e, n) {
                                Ok(ret) => match pos {
                                    Some(p) => {
                                        if self.e[which].nss[p].node.is_some() && Some(ret) != self.e[which].nss[p].node {
                                            problem = Some("existing prefix: must return the existing entry's node".into());
                                        }
                                        self.e[which].nss[p].val = src.val;
                                    }
                                    None => {
                                        if ret != n {
                                            problem = Some("new prefix: must return the moved node".into());
                                        }
                                        self.e[other].nss.remove(op);
                                        self.e[which].nss.push(src);
                                    }
                                },
                                Err(er) => problem = Some(format!("refused: {:?}", er)),
                            }
                        } else {
                            desc = "noop".into();
                        }
                    } else {
                        desc = "noop".into();
                    }
                }
            }
        }
        self.adopt_nodes(0);
        self.adopt_nodes(1);
        (desc, problem)
    }

    /// Calls from the tree-manipulation side on and around the element: ordinary children come and go (also children that
    /// carry attributes and declarations of their own, with the same keys). None of it may change the element's own maps.
    fn tree_op(&mut self, which: usize, rng: &mut Rng) -> (String, Option<String>) {
        let e = self.e[which].node;
        let name = self.xot.add_name("zzchild");
        let mut problem: Option<String> = None;
        let kind = rng.below(10);
        let desc;
        // a child element that carries entries under the same keys as its parent (other values)
        let decorated = |w: &mut World, rng: &mut Rng| -> Node {
            let c = w.xot.new_element(name);
            for _ in 0..rng.range(1, 3) {
                let k = rng.below(w.akeys.len().min(4));
                w.xot.attributes_mut(c).insert(w.akeys[k], "child-value".to_string());
            }
            if rng.bool() {
                let k = rng.below(w.nkeys.len().min(4));
                if !ns_key(k).is_empty() {
                    w.xot.namespaces_mut(c).insert(w.nkeys[k], w.uris[0]);
                }
            }
            c
        };
        let r: Result<(), xot::Error> = match kind {
            0 => {
                desc = format!("prepend(e{}, new comment)", which);
                let c = self.xot.new_comment("zz");
                self.xot.prepend(e, c)
            }
            1 => {
                desc = format!("prepend(e{}, empty element with attributes / declarations); remove(that element)", which);
                let c = decorated(self, rng);
                match self.xot.prepend(e, c) {
                    Ok(()) => {
                        if let Some(p) = self.check(which) {
                            problem = Some(format!("after the prepend: {}", p));
                        }
                        self.xot.remove(c)
                    }
                    Err(er) => Err(er),
                }
            }
            2 => {
                desc = format!("append(e{}, element with attributes / declarations and a child); element_unwrap(that element)", which);
                let c = decorated(self, rng);
                let t = self.xot.new_comment("inner");
                let _ = self.xot.append(c, t);
                match if rng.bool() { self.xot.prepend(e, c) } else { self.xot.append(e, c) } {
                    Ok(()) => self.xot.element_unwrap(c),
                    Err(er) => Err(er),
                }
            }
            3 => match self.xot.first_child(e) {
                Some(f) => {
                    desc = format!("element_wrap(first child of e{}); element_unwrap(wrapper)", which);
                    match self.xot.element_wrap(f, name) {
                        Ok(w) => {
                            if let Some(p) = self.check(which) {
                                problem = Some(format!("after the wrap: {}", p));
                            }
                            self.xot.element_unwrap(w)
                        }
                        Err(er) => Err(er),
                    }
                }
                None => {
                    desc = "noop".into();
                    Ok(())
                }
            },
            4 => match self.xot.first_child(e) {
                Some(f) => {
                    desc = format!("replace(first child of e{}, new element with attributes)", which);
                    let c = decorated(self, rng);
                    self.xot.replace(f, c)
                }
                None => {
                    desc = "noop".into();
                    Ok(())
                }
            },
            5 => match self.xot.first_child(e) {
                Some(f) => {
                    desc = format!("insert_before(first child of e{}, new comment)", which);
                    let c = self.xot.new_comment("zz");
                    self.xot.insert_before(f, c)
                }
                None => {
                    desc = "noop".into();
                    Ok(())
                }
            },
            6 => {
                desc = format!("remove every ordinary child of e{}", which);
                let kids: Vec<Node> = self.xot.children(e).collect();
                let mut r = Ok(());
                for k in kids {
                    if let Err(er) = self.xot.remove(k) {
                        r = Err(er);
                    }
                }
                r
            }
            7 => {
                desc = format!("text_content_mut(e{}) / append_text", which);
                if let Some(t) = self.xot.text_content_mut(e) {
                    t.set("tc");
                }
                self.xot.append_text(e, "more").map(|_| ())
            }
            8 => {
                // an attribute or namespace node of the element as the reference of insert_after / insert_before: whatever the
                // call answers, both maps stay as they are
                let refs: Vec<Node> = self.xot.attributes(e).nodes().chain(self.xot.namespaces(e).nodes()).collect();
                if refs.is_empty() {
                    desc = "noop".into();
                } else {
                    let r = refs[rng.below(refs.len())];
                    let c = self.xot.new_comment("zz");
                    let after = rng.bool();
                    desc = format!("insert_{}(attribute / namespace node of e{}, new comment)", if after { "after" } else { "before" }, which);
                    let res = if after { self.xot.insert_after(r, c) } else { self.xot.insert_before(r, c) };
                    if res.is_err() {
                        let _ = self.xot.remove(c);
                    }
                }
                Ok(())
            }
            _ => {
                desc = format!("detach(e{}); put it back in front of / behind its sibling", which);
                let sib = self.e[1 - which].node;
                match self.xot.detach(e) {
                    Ok(()) => {
                        if let Some(p) = self.check(which) {
                            problem = Some(format!("while detached: {}", p));
                        }
                        if which == 0 {
                            self.xot.insert_before(sib, e)
                        } else {
                            self.xot.insert_after(sib, e)
                        }
                    }
                    Err(er) => Err(er),
                }
            }
        };
        if let Err(er) = r {
            problem = problem.or(Some(format!("refused: {:?}", er)));
        }
        if desc == "noop" {
            return (desc, problem);
        }
        (format!("tree: {}", desc), problem)
    }

    /// ONE mutable view kept alive over several updates and reads (a view that remembers something about the map
    /// must keep it up to date itself)
    fn session(&mut self, rng: &mut Rng) -> (String, Option<String>) {
        let which = if rng.chance(4, 5) { 0 } else { 1 };
        let e = self.e[which].node;
        let n_ops = rng.range(2, 6);
        let mut desc = String::new();
        let mut problem: Option<String> = None;
        if rng.bool() {
            desc.push_str(&format!("attributes_mut(e{}) session:", which));
            let mut model: Vec<AEntry> = self.e[which].attrs.clone();
            let keys = self.akeys.clone();
            {
                let mut m = self.xot.attributes_mut(e);
                for _ in 0..n_ops {
                    let k = rng.below(keys.len());
                    let v = rng.pick(VALS).to_string();
                    match rng.below(6) {
                        0 => {
                            desc.push_str(" len;");
                        }
                        1 | 2 => {
                            desc.push_str(&format!(" insert(key#{}, {:?});", k, v));
                            let old = model.iter().position(|a| a.key == k);
                            let r = m.insert(keys[k], v.clone());
                            if r != old.map(|p| model[p].val.clone()) {
                                problem = Some(format!("insert returned {:?}", r));
                            }
                            match old {
                                Some(p) => model[p].val = v,
                                None => model.push(AEntry { key: k, val: v, node: None }),
                            }
                        }
                        3 => {
                            desc.push_str(&format!(" remove(key#{});", k));
                            let old = model.iter().position(|a| a.key == k);
                            let r = m.remove(keys[k]);
                            if r != old.map(|p| model[p].val.clone()) {
                                problem = Some(format!("remove returned {:?}", r));
                            }
                            if let Some(p) = old {
                                model.remove(p);
                            }
                        }
                        4 => {
                            desc.push_str(" clear;");
                            m.clear();
                            model.clear();
                        }
                        _ => {
                            desc.push_str(&format!(" contains_key(key#{});", k));
                            if m.contains_key(keys[k]) != model.iter().any(|a| a.key == k) {
                                problem = Some("contains_key disagrees".into());
                            }
                        }
                    }
                    // reads through the SAME view after every update
                    let want: Vec<(NameId, String)> = model.iter().map(|a| (keys[a.key], a.val.clone())).collect();
                    let got: Vec<(NameId, String)> = m.iter().map(|(k, v)| (k, v.clone())).collect();
                    if problem.is_none() && (m.len() != model.len() || m.is_empty() != model.is_empty() || got != want || m.keys().count() != model.len()) {
                        problem = Some(format!("the same view reports len {} / is_empty {} / {} entries, the map holds {} entries", m.len(), m.is_empty(), got.len(), model.len()));
                    }
                    if problem.is_some() {
                        break;
                    }
                }
            }
            self.e[which].attrs = model;
        } else {
            desc.push_str(&format!("namespaces_mut(e{}) session:", which));
            let mut model: Vec<NEntry> = self.e[which].nss.clone();
            let keys = self.nkeys.clone();
            let uris = self.uris.clone();
            {
                let mut m = self.xot.namespaces_mut(e);
                for _ in 0..n_ops {
                    let k = rng.below(keys.len());
                    let u = if ns_key(k).is_empty() { rng.below(URIS.len()) } else { rng.below(URIS.len() - 1) };
                    match rng.below(6) {
                        0 => {
                            desc.push_str(" len;");
                        }
                        1 | 2 => {
                            desc.push_str(&format!(" insert(prefix#{}, uri#{});", k, u));
                            let old = model.iter().position(|a| a.key == k);
                            let r = m.insert(keys[k], uris[u]);
                            if r != old.map(|p| uris[model[p].val]) {
                                problem = Some(format!("insert returned {:?}", r.is_some()));
                            }
                            match old {
                                Some(p) => model[p].val = u,
                                None => model.push(NEntry { key: k, val: u, node: None }),
                            }
                        }
                        3 => {
                            desc.push_str(&format!(" remove(prefix#{});", k));
                            let old = model.iter().position(|a| a.key == k);
                            let r = m.remove(keys[k]);
                            if r != old.map(|p| uris[model[p].val]) {
                                problem = Some(format!("remove returned {:?}", r.is_some()));
                            }
                            if let Some(p) = old {
                                model.remove(p);
                            }
                        }
                        4 => {
                            desc.push_str(" clear;");
                            m.clear();
                            model.clear();
                        }
                        _ => {
                            desc.push_str(&format!(" contains_key(prefix#{});", k));
                            if m.contains_key(keys[k]) != model.iter().any(|a| a.key == k) {
                                problem = Some("contains_key disagrees".into());
                            }
                        }
                    }
                    let want: Vec<(PrefixId, NamespaceId)> = model.iter().map(|a| (keys[a.key], uris[a.val])).collect();
                    let got: Vec<(PrefixId, NamespaceId)> = m.iter().map(|(k, v)| (k, *v)).collect();
                    if problem.is_none() && (m.len() != model.len() || m.is_empty() != model.is_empty() || got != want || m.keys().count() != model.len()) {
                        problem = Some(format!("the same view reports len {} / is_empty {} / {} entries, the map holds {} entries", m.len(), m.is_empty(), got.len(), model.len()));
                    }
                    if problem.is_some() {
                        break;
                    }
                }
            }
            self.e[which].nss = model;
        }
        self.adopt_nodes(0);
        self.adopt_nodes(1);
        (desc, problem)
    }

    /// the element serialised on its own (it is the top node): own declarations in map order (inherited ones may be
    /// written among them), attributes in map order
    fn check_serialised_alone(&self, which: usize) -> Option<String> {
        let text = match self.xot.to_string(self.e[which].node) {
            Ok(t) => t,
            Err(_) => return None,
        };
        let d = match xmlread::read(&text, true) {
            Ok(d) => d,
            Err(e) => return Some(format!("serialisation {:?} of the element alone unreadable: {}", text, e)),
        };
        let el = d.children.iter().find(|c| c.is_elem())?;
        let want_d: Vec<(String, String)> = self.e[which].nss.iter().map(|n| (ns_key(n.key), URIS[n.val].to_string())).collect();
        let own: Vec<(String, String)> = el.decls.iter().filter(|(p, _)| want_d.iter().any(|(wp, _)| wp == p)).cloned().collect();
        if own != want_d {
            return Some(format!("start tag of e{} serialised alone lists its own declarations as {:?}, the map is {:?} (text {:?})", which, own, want_d, text));
        }
        let want_a: Vec<(QName, String)> = self.e[which]
            .attrs
            .iter()
            .map(|a| {
                let (ns, l) = attr_key(a.key);
                (QName::new(&ns, &l), a.val.clone())
            })
            .collect();
        if el.attrs != want_a {
            return Some(format!("start tag of e{} serialised alone lists attributes {:?}, the map order is {:?} (text {:?})", which, el.attrs, want_a, text));
        }
        None
    }

    /// serialised order of declarations and attributes in the start tags of e0 / e1
    fn check_serialised(&self) -> Option<String> {
        let text = match self.xot.to_string(self.doc) {
            Ok(t) => t,
            Err(_) => return None, // missing prefix for an attribute namespace: not this property's business
        };
        let doc = match xmlread::read(&text, false) {
            Ok(d) => d,
            Err(e) => return Some(format!("serialisation {:?} unreadable: {}", text, e)),
        };
        let root = doc.children.iter().find(|c| c.is_elem())?;
        let es: Vec<&ANode> = root.children.iter().filter(|c| c.is_elem()).collect();
        if es.len() != 2 {
            return Some(format!("serialisation {:?} does not show the two elements", text));
        }
        for which in 0..2 {
            let want_d: Vec<(String, String)> = self.e[which].nss.iter().map(|n| (ns_key(n.key), URIS[n.val].to_string())).collect();
            if es[which].decls != want_d {
                return Some(format!("start tag of e{} lists declarations {:?}, the map order is {:?} (text {:?})", which, es[which].decls, want_d, text));
            }
            let want_a: Vec<(QName, String)> = self.e[which]
                .attrs
                .iter()
                .map(|a| {
                    let (ns, l) = attr_key(a.key);
                    (QName::new(&ns, &l), a.val.clone())
                })
                .collect();
            if es[which].attrs != want_a {
                return Some(format!("start tag of e{} lists attributes {:?}, the map order is {:?} (text {:?})", which, es[which].attrs, want_a, text));
            }
        }
        None
    }
}

/// "On any element": elements as the parser hands them over. Start tags with 2-5 attributes written through two
/// prefixes of one namespace (declared on the element, on an ancestor, or one each) and without prefix. Whatever the
/// parser accepts must start life as a map: unique keys, every accessor agreeing, entries in the order written.
fn parsed_elements_case(rng: &mut Rng, ctx: &mut Ctx) {
    let layout = rng.below(6);
    let (on_root, on_el) = match layout {
        // the same prefix (or the default namespace) declared twice on the element, with different URIs
        4 => ("", " xmlns:p=\"u\" xmlns:q=\"u\" xmlns:p=\"w\""),
        5 => (" xmlns:p=\"u\" xmlns:q=\"u\"", " xmlns=\"u\" xmlns=\"w\""),
        0 => (" xmlns:p=\"u\" xmlns:q=\"u\"", ""),
        1 => ("", " xmlns:p=\"u\" xmlns:q=\"u\""),
        2 => (" xmlns:p=\"u\"", " xmlns:q=\"u\""),
        _ => (" xmlns:q=\"u\" xmlns:p=\"w\"", " xmlns:p=\"u\""),
    };
    let pool = ["p:x", "q:x", "p:y", "q:y", "x", "y", "q:z"];
    let mut idx: Vec<usize> = (0..pool.len()).collect();
    rng.shuffle(&mut idx);
    let n = rng.range(2, 5);
    let written: Vec<(&str, String)> = idx.iter().take(n).enumerate().map(|(i, k)| (pool[*k], format!("v{}", i))).collect();
    let mut tag = String::new();
    let decl_first = rng.bool();
    if decl_first {
        tag.push_str(on_el);
    }
    for (name, v) in &written {
        tag.push_str(&format!(" {}=\"{}\"", name, v));
    }
    if !decl_first {
        tag.push_str(on_el);
    }
    let text = format!("<r{}><m><a{}/></m></r>", on_root, tag);
    let expanded = |n: &str| -> (String, String) {
        match n.split_once(':') {
            Some((_, l)) => ("u".to_string(), l.to_string()),
            None => (String::new(), n.to_string()),
        }
    };
    let want: Vec<((String, String), String)> = written.iter().map(|(n, v)| (expanded(n), v.clone())).collect();
    let mut uniq = std::collections::HashSet::new();
    let has_dup = !want.iter().all(|(k, _)| uniq.insert(k.clone()));
    let mut xot = Xot::new();
    let doc = match guard(|| xot.parse(&text)) {
        Ok(Ok(d)) => d,
        Ok(Err(_)) => {
            ctx.count(if has_dup { "parsed_elements.duplicate_rejected" } else { "parsed_elements.rejected" });
            return;
        }
        Err(p) => {
            ctx.violation("parse panicked", format!("C11/parsed-element/panic/{}", p.sig()), J::obj().set("text", J::s(text)).set("panic", J::s(p.short())));
            return;
        }
    };
    let a = match guard(|| {
        let r = xot.document_element(doc).ok()?;
        let m = xot.first_child(r)?;
        xot.first_child(m)
    }) {
        Ok(Some(a)) => a,
        _ => return,
    };
    let bad: Option<String> = guard(|| {
        let view = xot.attributes(a);
        let got: Vec<((String, String), String)> = view
            .iter()
            .map(|(k, v)| {
                let (l, u) = xot.name_ns_str(k);
                ((u.to_string(), l.to_string()), v.clone())
            })
            .collect();
        let mut seen = std::collections::HashSet::new();
        if !got.iter().all(|(k, _)| seen.insert(k.clone())) {
            return Some(format!("the element starts with two entries under one key: {:?}", got));
        }
        if view.len() != got.len() || view.to_hashmap().len() != got.len() || view.keys().count() != got.len() || view.nodes().count() != got.len() || view.to_vec().len() != got.len() {
            return Some(format!("len / to_hashmap / keys / nodes / to_vec disagree about {:?}", got));
        }
        for (k, v) in view.iter() {
            if view.get(k) != Some(v) || !view.contains_key(k) || view.get_node(k).is_none() {
                return Some("get / contains_key / get_node miss a key that iter() lists".to_string());
            }
        }
        if !has_dup && got != want {
            return Some(format!("entries {:?}, written {:?}", got, want));
        }
        // the declarations of the element: a map as well
        let nview = xot.namespaces(a);
        let prefixes: Vec<xot::PrefixId> = nview.keys().collect();
        let mut seen = std::collections::HashSet::new();
        if !prefixes.iter().all(|p| seen.insert(*p)) {
            return Some(format!("the element starts with two declarations of one prefix: {:?}", prefixes.iter().map(|p| xot.prefix_str(*p).to_string()).collect::<Vec<_>>()));
        }
        if nview.len() != prefixes.len() || nview.to_hashmap().len() != prefixes.len() || nview.nodes().count() != prefixes.len() {
            return Some("len / to_hashmap / nodes of the namespace view disagree".to_string());
        }
        None
    })
    .unwrap_or_else(|p| Some(format!("panic: {}", p.short())));
    match bad {
        None => ctx.count("parsed_elements.views_checked"),
        Some(b) => ctx.violation(
            "an element handed over by the parser is not an insertion-ordered map with unique keys",
            "C11/parsed-element/view".to_string(),
            J::obj().set("text", J::s(text)).set("what", J::s(b)),
        ),
    }
}

fn op_class(desc: &str) -> String {
    if desc.starts_with("tree: ") {
        return "tree_op".to_string();
    }
    if desc.contains(" session:") {
        return format!("{}.session", desc.split('(').next().unwrap_or("view"));
    }
    let d = desc.trim_start_matches("match ").trim_start_matches('*');
    let head: String = d.chars().take_while(|c| *c != '{').collect();
    let mut out = String::new();
    let mut depth = 0;
    for c in head.chars() {
        match c {
            '(' => depth += 1,
            ')' => depth -= 1,
            c if depth == 0 && (c.is_ascii_alphanumeric() || c == '_' || c == '.') => out.push(c),
            _ => {}
        }
    }
    out
}

impl Monitor for C11 {
    fn id(&self) -> &'static str {
        "C11"
    }
    fn streams(&self, tier: Tier, budget: f64) -> Vec<Stream> {
        let n = match tier {
            Tier::Quick => 200_000,
            Tier::Thorough => 3_000_000,
        };
        vec![Stream::new("forced-empty-and-single", 8), Stream::new("histories", scaled(n, budget))]
    }
    fn rule(&self) -> String {
        "two sibling elements starting with 0-4 namespace and 0-4 attribute entries (keys from pools of 4; one history in twenty-five uses pools of 40 keys and starts with 10-40 entries per map, so that maps grow past 16 and 32 entries); histories of 1-40 map-style and node-style updates (insert, remove, get_mut, clear, every Entry path, set_/remove_ shorthands, append_*_node, any_append, append_namespace, detach/remove of entry nodes, moving an entry node in from the sibling); one step in nine is a call from the tree side on or around the element (prepend / append / replace / element_wrap / element_unwrap / remove of ordinary children, also children carrying attributes and declarations under the same keys; text_content_mut; detaching the element and putting it back), which must leave both maps as they are; one step in eight is a session of 2-6 updates and reads through ONE mutable view kept alive; the common parent binds some of the same prefixes; after every step every accessor of the read-only and the mutable view of both maps is compared with an ordered-map model, and the start tags of the serialisation of the document and of each element on its own are read by the independent XML reader. One case in twelve instead parses a start tag with 2-5 attributes written through two prefixes of one namespace (declared on the element, an ancestor, or one each): whatever the parser accepts must have unique keys, agreeing accessors and the written order. Non-trivial = >= 3 effective steps; distinct by hash of the step list".into()
    }
    fn floors(&self, _tier: Tier) -> Vec<(&'static str, u64)> {
        vec![("steps_checked", 100_000), ("serialisations_checked", 10_000), ("views_compared_nonempty", 10_000), ("views_compared_empty", 1_000), ("wide_pool_histories", 500), ("parsed_elements.views_checked", 500), ("step.tree_op", 2_000)]
    }
    fn assumptions(&self) -> Vec<String> {
        vec!["key pools of 4 (or 40) attribute names / prefixes; values from a small pool".into()]
    }
    fn run_case(&self, stream: usize, idx: u64, rng: &mut Rng, ctx: &mut Ctx) {
        if stream == 1 && rng.chance(1, 12) {
            parsed_elements_case(rng, ctx);
            return;
        }
        let mut w = match guard(|| World::new(rng)) {
            Ok(w) => w,
            Err(p) => {
                ctx.violation("setting up two elements panicked", format!("C11/setup/panic/{}", p.sig()), J::obj().set("panic", J::s(p.short())));
                return;
            }
        };
        if w.akeys.len() > 4 {
            ctx.count("wide_pool_histories");
        }
        if stream == 0 {
            // forced: empty maps and single-entry maps on e0
            let e = w.e[0].node;
            w.xot.attributes_mut(e).clear();
            w.xot.namespaces_mut(e).clear();
            w.e[0].attrs.clear();
            w.e[0].nss.clear();
            if idx % 2 == 1 {
                w.xot.set_attribute(e, w.akeys[0], "v");
                w.e[0].attrs.push(AEntry { key: 0, val: "v".into(), node: None });
                w.xot.set_namespace(e, w.nkeys[1], w.uris[0]);
                w.e[0].nss.push(NEntry { key: 1, val: 0, node: None });
                w.adopt_nodes(0);
            }
        }
        let steps = if stream == 0 { idx as usize / 2 } else { rng.range(1, 40) };
        let mut log: Vec<String> = Vec::new();
        let start = format!(
            "e0: {} ns + {} attrs, e1: {} ns + {} attrs",
            w.e[0].nss.len(), w.e[0].attrs.len(), w.e[1].nss.len(), w.e[1].attrs.len()
        );
        let mut effective = 0;
        for s in 0..=steps {
            let mut last = "initial state".to_string();
            if s > 0 {
                let r = guard(|| w.step(rng));
                match r {
                    Ok((desc, problem)) => {
                        if desc == "noop" {
                            continue;
                        }
                        effective += 1;
                        ctx.count(&format!("step.{}", op_class(&desc)));
                        log.push(desc.clone());
                        last = desc;
                        if let Some(p) = problem {
                            ctx.violation(
                                "an update returned something else than an ordered map would",
                                format!("C11/{}/return-value", op_class(&last)),
                                J::obj().set("start", J::s(start.clone())).set("steps", J::Arr(log.iter().map(|s| J::s(s.clone())).collect())).set("what", J::s(p)),
                            );
                            return;
                        }
                    }
                    Err(p) => {
                        ctx.violation(
                            "a map update panicked",
                            format!("C11/update/panic/{}", p.sig()),
                            J::obj().set("start", J::s(start.clone())).set("steps", J::Arr(log.iter().map(|s| J::s(s.clone())).collect())).set("panic", J::s(p.short())),
                        );
                        return;
                    }
                }
            }
            for which in 0..2 {
                match guard(|| w.check(which)) {
                    Ok(None) => {
                        ctx.count("steps_checked");
                        if w.e[which].attrs.is_empty() || w.e[which].nss.is_empty() {
                            ctx.count("views_compared_empty");
                        }
                        if !w.e[which].attrs.is_empty() || !w.e[which].nss.is_empty() {
                            ctx.count("views_compared_nonempty");
                        }
                    }
                    Ok(Some(bad)) => {
                        let accessor: String = bad.split(':').take(2).collect::<Vec<_>>().join(":").chars().take_while(|c| *c != '=' ).filter(|c| !c.is_whitespace() && !c.is_ascii_digit() && *c != '#').collect();
                        ctx.violation(
                            "a view disagrees with the ordered-map model",
                            format!("C11/{}/view/{}", op_class(&last), accessor),
                            J::obj()
                                .set("start", J::s(start.clone()))
                                .set("steps", J::Arr(log.iter().map(|s| J::s(s.clone())).collect()))
                                .set("element", J::i(which as u64))
                                .set("what", J::s(bad)),
                        );
                        return;
                    }
                    Err(p) => {
                        ctx.violation(
                            "an accessor of a view panicked",
                            format!("C11/view/panic/{}", p.sig()),
                            J::obj().set("steps", J::Arr(log.iter().map(|s| J::s(s.clone())).collect())).set("panic", J::s(p.short())),
                        );
                        return;
                    }
                }
            }
            match guard(|| w.check_serialised_alone(0).or_else(|| w.check_serialised_alone(1))) {
                Ok(None) => ctx.count("serialisations_alone_checked"),
                Ok(Some(bad)) => {
                    ctx.violation(
                        "start tag of the element serialised on its own differs from the map",
                        format!("C11/{}/serialised-alone", op_class(&last)),
                        J::obj().set("start", J::s(start.clone())).set("steps", J::Arr(log.iter().map(|s| J::s(s.clone())).collect())).set("what", J::s(bad)),
                    );
                    return;
                }
                Err(p) => {
                    ctx.violation("serialisation panicked", format!("C11/serialise/panic/{}", p.sig()), J::obj().set("panic", J::s(p.short())));
                    return;
                }
            }
            match guard(|| w.check_serialised()) {
                Ok(None) => ctx.count("serialisations_checked"),
                Ok(Some(bad)) => {
                    ctx.violation(
                        "start tag order differs from the map order",
                        format!("C11/{}/serialised-order", op_class(&last)),
                        J::obj().set("start", J::s(start.clone())).set("steps", J::Arr(log.iter().map(|s| J::s(s.clone())).collect())).set("what", J::s(bad)),
                    );
                    return;
                }
                Err(p) => {
                    ctx.violation("serialisation panicked", format!("C11/serialise/panic/{}", p.sig()), J::obj().set("panic", J::s(p.short())));
                    return;
                }
            }
        }
        if effective >= 3 {
            let mut h = std::collections::hash_map::DefaultHasher::new();
            use std::hash::{Hash, Hasher};
            start.hash(&mut h);
            log.hash(&mut h);
            ctx.nontrivial(h.finish());
        }
        ctx.sample(|| J::obj().set("start", J::s(start.clone())).set("steps", J::Arr(log.iter().map(|s| J::s(s.clone())).collect())));
    }
}
