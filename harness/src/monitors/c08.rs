//! C08 — name, namespace and prefix ids are a stable one-to-one interning.

use super::common::*;
use crate::engine::{guard, Ctx, Monitor, Stream, Tier};
use crate::json::J;
use crate::rng::Rng;
use std::collections::HashMap;
use xot::{NameId, NamespaceId, PrefixId, Xot};

pub struct C08;

const XML_NS: &str = "http://www.w3.org/XML/1998/namespace";

/// interner model: what has been registered, and which id it got
#[derive(Clone, Default)]
struct Model {
    names: HashMap<(String, String), NameId>,
    names_inv: HashMap<NameId, (String, String)>,
    nss: HashMap<String, NamespaceId>,
    nss_inv: HashMap<NamespaceId, String>,
    prefixes: HashMap<String, PrefixId>,
    prefixes_inv: HashMap<PrefixId, String>,
    /// strings a *failed* parse may or may not have registered: only self-consistency is demanded of them
    maybe: Vec<String>,
    log: Vec<String>,
}

struct World {
    xot: Xot,
    m: Model,
    /// html5() has been called on this store: it registers the HTML element names, which the model does not list
    html5: bool,
}

type Bad = (String, String); // (clause, what)

impl World {
    fn new() -> World {
        World::from_xot(Xot::new())
    }

    /// a store that came into being in another way than Xot::new(): through Default, or as the value std::mem::take
    /// leaves behind in place of a store that has been in use
    fn new_by(how: usize) -> World {
        match how {
            0 => World::from_xot(Xot::default()),
            _ => {
                let mut used = Xot::new();
                for k in 0..7 {
                    used.add_name(&format!("used{}", k));
                    used.add_prefix(&format!("usedp{}", k));
                }
                let _taken = std::mem::take(&mut used);
                World::from_xot(used)
            }
        }
    }

    fn from_xot(xot: Xot) -> World {
        let mut m = Model::default();
        // built-ins
        m.nss.insert(String::new(), xot.no_namespace());
        m.nss_inv.insert(xot.no_namespace(), String::new());
        m.nss.insert(XML_NS.to_string(), xot.xml_namespace());
        m.nss_inv.insert(xot.xml_namespace(), XML_NS.to_string());
        m.prefixes.insert(String::new(), xot.empty_prefix());
        m.prefixes_inv.insert(xot.empty_prefix(), String::new());
        m.prefixes.insert("xml".into(), xot.xml_prefix());
        m.prefixes_inv.insert(xot.xml_prefix(), "xml".into());
        m.names.insert(("space".into(), XML_NS.into()), xot.xml_space_name());
        m.names_inv.insert(xot.xml_space_name(), ("space".into(), XML_NS.into()));
        m.names.insert(("id".into(), XML_NS.into()), xot.xml_id_name());
        m.names_inv.insert(xot.xml_id_name(), ("id".into(), XML_NS.into()));
        World { xot, m, html5: false }
    }

    fn reg_ns(&mut self, uri: &str, how: &str) -> Result<NamespaceId, Bad> {
        let id = guard(|| self.xot.add_namespace(uri)).map_err(|p| ("panic".to_string(), p.short()))?;
        self.note_ns(uri, id, how)?;
        Ok(id)
    }
    fn note_ns(&mut self, uri: &str, id: NamespaceId, how: &str) -> Result<(), Bad> {
        if let Some(prev) = self.m.nss.get(uri) {
            if *prev != id {
                return Err(("same-string-different-id".into(), format!("{}: namespace {:?} got another id than before", how, uri)));
            }
        } else {
            if let Some(other) = self.m.nss_inv.get(&id) {
                return Err(("different-strings-same-id".into(), format!("{}: namespace {:?} received the id of namespace {:?} ({} namespaces registered)", how, uri, other, self.m.nss.len())));
            }
            self.m.nss.insert(uri.to_string(), id);
            self.m.nss_inv.insert(id, uri.to_string());
        }
        Ok(())
    }
    fn reg_prefix(&mut self, p: &str, how: &str) -> Result<PrefixId, Bad> {
        let id = guard(|| self.xot.add_prefix(p)).map_err(|e| ("panic".to_string(), e.short()))?;
        self.note_prefix(p, id, how)?;
        Ok(id)
    }
    fn note_prefix(&mut self, p: &str, id: PrefixId, how: &str) -> Result<(), Bad> {
        if let Some(prev) = self.m.prefixes.get(p) {
            if *prev != id {
                return Err(("same-string-different-id".into(), format!("{}: prefix {:?} got another id than before", how, p)));
            }
        } else {
            if let Some(other) = self.m.prefixes_inv.get(&id) {
                return Err(("different-strings-same-id".into(), format!("{}: prefix {:?} received the id of prefix {:?} ({} prefixes registered)", how, p, other, self.m.prefixes.len())));
            }
            self.m.prefixes.insert(p.to_string(), id);
            self.m.prefixes_inv.insert(id, p.to_string());
        }
        Ok(())
    }
    fn reg_name(&mut self, local: &str, ns: &str, how: &str) -> Result<NameId, Bad> {
        let id = if ns.is_empty() && how == "add_name" {
            guard(|| self.xot.add_name(local)).map_err(|e| ("panic".to_string(), e.short()))?
        } else {
            let nsid = self.reg_ns(ns, how)?;
            guard(|| self.xot.add_name_ns(local, nsid)).map_err(|e| ("panic".to_string(), e.short()))?
        };
        self.note_name(local, ns, id, how)?;
        Ok(id)
    }
    fn note_name(&mut self, local: &str, ns: &str, id: NameId, how: &str) -> Result<(), Bad> {
        let key = (local.to_string(), ns.to_string());
        if let Some(prev) = self.m.names.get(&key) {
            if *prev != id {
                return Err(("same-string-different-id".into(), format!("{}: name {{{}}}{} got another id than before", how, ns, local)));
            }
        } else {
            if let Some(other) = self.m.names_inv.get(&id) {
                return Err((
                    "different-strings-same-id".into(),
                    format!("{}: name {{{}}}{} received the id of name {{{}}}{} ({} names registered)", how, ns, local, other.1, other.0, self.m.names.len()),
                ));
            }
            self.m.names.insert(key.clone(), id);
            self.m.names_inv.insert(id, key);
        }
        Ok(())
    }

    /// re-resolve ids -> strings and strings -> ids; `sample`: check every k-th entry (1 = all)
    fn check_all(&self, x: &Xot, step: usize) -> Result<u64, Bad> {
        let mut n = 0u64;
        let r = guard(|| -> Result<u64, Bad> {
            for (i, ((local, ns), id)) in self.m.names.iter().enumerate() {
                if i % step != 0 {
                    continue;
                }
                let (l, u) = x.name_ns_str(*id);
                if l != local || u != ns {
                    return Err(("id-resolves-to-another-string".into(), format!("name id registered for {{{}}}{} resolves to {{{}}}{} ({} names registered)", ns, local, u, l, self.m.names.len())));
                }
                if x.local_name_str(*id) != local || x.uri_str(*id) != ns {
                    return Err(("id-resolves-to-another-string".into(), format!("local_name_str / uri_str of the id of {{{}}}{} disagree", ns, local)));
                }
                let nsid = self.m.nss.get(ns).copied();
                if let Some(nsid) = nsid {
                    if x.namespace_for_name(*id) != nsid {
                        return Err(("id-resolves-to-another-string".into(), format!("namespace_for_name of {{{}}}{} is another namespace id", ns, local)));
                    }
                    if x.name_ns(local, nsid) != Some(*id) {
                        return Err(("lookup-misses-registered".into(), format!("name_ns({:?}, {:?}) does not find the registered id", local, ns)));
                    }
                }
                if ns.is_empty() && x.name(local) != Some(*id) {
                    return Err(("lookup-misses-registered".into(), format!("name({:?}) does not find the registered id", local)));
                }
                n += 1;
            }
            for (i, (uri, id)) in self.m.nss.iter().enumerate() {
                if i % step != 0 {
                    continue;
                }
                if x.namespace_str(*id) != uri {
                    return Err(("id-resolves-to-another-string".into(), format!("namespace id registered for {:?} resolves to {:?} ({} namespaces registered)", uri, x.namespace_str(*id), self.m.nss.len())));
                }
                if x.namespace(uri) != Some(*id) {
                    return Err(("lookup-misses-registered".into(), format!("namespace({:?}) does not find the registered id", uri)));
                }
                n += 1;
            }
            for (i, (p, id)) in self.m.prefixes.iter().enumerate() {
                if i % step != 0 {
                    continue;
                }
                if x.prefix_str(*id) != p {
                    return Err(("id-resolves-to-another-string".into(), format!("prefix id registered for {:?} resolves to {:?} ({} prefixes registered)", p, x.prefix_str(*id), self.m.prefixes.len())));
                }
                if x.prefix(p) != Some(*id) {
                    return Err(("lookup-misses-registered".into(), format!("prefix({:?}) does not find the registered id", p)));
                }
                n += 1;
            }
            // strings of rejected documents: whatever a lookup finds must resolve back to the string
            for m in &self.m.maybe {
                if let Some(id) = x.name(m) {
                    if x.name_ns_str(id) != (m.as_str(), "") {
                        return Err(("lookup-finds-id-of-another-string".into(), format!("name({:?}) returns an id that resolves to {:?}", m, x.name_ns_str(id))));
                    }
                    if let Some(((l, u), _)) = self.m.names_inv.get(&id).map(|k| (k.clone(), ())) {
                        if l != *m || !u.is_empty() {
                            return Err(("different-strings-same-id".into(), format!("name({:?}) returns the id registered for {{{}}}{}", m, u, l)));
                        }
                    }
                }
                if let Some(id) = x.prefix(m) {
                    if x.prefix_str(id) != m {
                        return Err(("lookup-finds-id-of-another-string".into(), format!("prefix({:?}) returns an id that resolves to {:?}", m, x.prefix_str(id))));
                    }
                }
                if let Some(id) = x.namespace(m) {
                    if x.namespace_str(id) != m {
                        return Err(("lookup-finds-id-of-another-string".into(), format!("namespace({:?}) returns an id that resolves to {:?}", m, x.namespace_str(id))));
                    }
                }
            }
            // built-ins
            if x.namespace_str(x.no_namespace()) != "" || x.prefix_str(x.empty_prefix()) != "" || x.prefix_str(x.xml_prefix()) != "xml" || x.namespace_str(x.xml_namespace()) != XML_NS {
                return Err(("built-in-ids".into(), "a built-in namespace / prefix id does not resolve to its standard string".into()));
            }
            if x.name_ns_str(x.xml_space_name()) != ("space", XML_NS) || x.name_ns_str(x.xml_id_name()) != ("id", XML_NS) {
                return Err(("built-in-ids".into(), "xml:space / xml:id name ids do not resolve to their standard names".into()));
            }
            if x.no_namespace() == x.xml_namespace() || x.empty_prefix() == x.xml_prefix() || x.xml_space_name() == x.xml_id_name() {
                return Err(("built-in-ids".into(), "built-in ids collide".into()));
            }
            Ok(n)
        });
        match r {
            Ok(r) => r,
            Err(p) => Err(("panic".into(), p.short())),
        }
    }

    fn check_unregistered(&self, x: &Xot, marker: &str) -> Result<(), Bad> {
        // strings carrying the marker were never registered
        for k in 0..4 {
            let s = format!("{}{}", marker, k);
            if x.name(&s).is_some() || x.namespace(&s).is_some() || x.prefix(&s).is_some() || x.name_ns(&s, x.xml_namespace()).is_some() {
                return Err(("lookup-invents-unregistered".into(), format!("a read-only lookup finds {:?}, which was never registered", s)));
            }
        }
        Ok(())
    }
}

fn short_history(rng: &mut Rng, ctx: &mut Ctx) -> Result<(), (Bad, Vec<String>)> {
    let mut log: Vec<String> = Vec::new();
    let mut w = match rng.below(8) {
        0 => {
            log.push("store = Xot::default()".to_string());
            ctx.count("stores_from_default");
            World::new_by(0)
        }
        1 => {
            log.push("store = what std::mem::take left behind".to_string());
            ctx.count("stores_from_default");
            World::new_by(1)
        }
        _ => World::new(),
    };
    let hot = ["a", "b", "id", "space", "xml", "", "p", "urn:A", "A", "a ", "n0", "n1", "pr\u{e9}", "\u{540d}\u{524d}"];
    let mut fresh = 0usize;
    let mut clone: Option<World> = None;
    let steps = rng.range(5, 60);
    macro_rules! tr {
        ($e:expr) => {
            match $e {
                Ok(v) => v,
                Err(b) => return Err((b, log.clone())),
            }
        };
    }
    for _ in 0..steps {
        let s = if rng.chance(1, 2) {
            hot[rng.below(hot.len())].to_string()
        } else {
            fresh += 1;
            format!("f{}_{}", fresh, rng.below(1000))
        };
        let which = rng.below(26);
        // drive either the original or (after cloning) the clone
        let target: &mut World = match (&mut clone, rng.bool()) {
            (Some(c), true) => c,
            _ => &mut w,
        };
        match which {
            0 | 1 => {
                log.push(format!("add_name({:?})", s));
                tr!(target.reg_name(&s, "", "add_name"));
            }
            2 | 3 => {
                let ns = hot[rng.below(hot.len())];
                log.push(format!("add_name_ns({:?}, {:?})", s, ns));
                tr!(target.reg_name(&s, ns, "add_name_ns"));
            }
            4 => {
                log.push(format!("add_namespace({:?})", s));
                tr!(target.reg_ns(&s, "add_namespace"));
            }
            5 => {
                log.push(format!("add_prefix({:?})", s));
                tr!(target.reg_prefix(&s, "add_prefix"));
            }
            6 | 7 => {
                // implicit registration by parsing: fresh element / attribute / prefix / namespace names
                fresh += 1;
                let e = format!("e{}", fresh);
                let at = format!("at{}", fresh);
                let pfx = format!("px{}", fresh);
                let uri = format!("urn:u{}", fresh);
                let pi = format!("pi{}", fresh);
                let text = format!("<{pfx}:{e} xmlns:{pfx}=\"{uri}\" {at}=\"v\" {pfx}:{at}=\"w\"><?{pi} d?><{e}/></{pfx}:{e}>");
                log.push(format!("parse({:?})", text));
                let r = guard(|| target.xot.parse(&text));
                match r {
                    Ok(Ok(_)) => {}
                    other => {
                        return Err((("parse-failed".into(), format!("{:?}", other.map(|r| r.map(|_| ()).map_err(|e| format!("{:?}", e))).map_err(|p| p.short()))), log.clone()));
                    }
                }
                // what parsing must have registered
                let x = &target.xot;
                let nsid = match x.namespace(&uri) {
                    Some(i) => i,
                    None => return Err((("lookup-misses-registered".into(), format!("namespace {:?} used in a parsed document is not registered", uri)), log.clone())),
                };
                let pid = match x.prefix(&pfx) {
                    Some(i) => i,
                    None => return Err((("lookup-misses-registered".into(), format!("prefix {:?} used in a parsed document is not registered", pfx)), log.clone())),
                };
                let expect_names = [(e.clone(), uri.clone()), (e.clone(), String::new()), (at.clone(), String::new()), (at.clone(), uri.clone()), (pi.clone(), String::new())];
                tr!(target.note_ns(&uri, nsid, "parse"));
                tr!(target.note_prefix(&pfx, pid, "parse"));
                for (l, u) in expect_names {
                    let uid = target.m.nss.get(&u).copied().unwrap_or(nsid);
                    match target.xot.name_ns(&l, uid) {
                        Some(id) => tr!(target.note_name(&l, &u, id, "parse")),
                        None => return Err((("lookup-misses-registered".into(), format!("name {{{}}}{} used in a parsed document is not registered", u, l)), log.clone())),
                    }
                }
            }
            11 | 12 | 13 => {
                // implicit registration by parsing a document that REUSES local names across elements, attributes,
                // prefixes and namespaces (default namespace in scope, redeclared / undeclared below): every node
                // name read back must be the id of its expanded name
                let locals = ["a", "b", "id", "space", "p", "A", "title"];
                // (URIs that contain '&' and text that looks like a reference: each is written escaped exactly once)
                let uris = ["urn:A", "A", "u", "a", "u v", "u ", " u", "a&b", "a&amp;b", "x&#65;y", "q?a=1&lt;2"];
                // a space inside a declaration value may be written as a literal TAB or LF (attribute-value normalisation)
                let spell = |rng: &mut Rng, u: &str| -> String {
                    let mut out = String::new();
                    for c in u.chars() {
                        match c {
                            ' ' => out.push(*rng.pick(&[' ', '\t', '\n'])),
                            '&' => out.push_str(*rng.pick(&["&amp;", "&#38;", "&#x26;"])),
                            '<' => out.push_str("&lt;"),
                            c => out.push(c),
                        }
                    }
                    out
                };
                let dflt: Option<&str> = if rng.chance(2, 3) { Some(uris[rng.below(uris.len())]) } else { None };
                let pfx = ["p", "q", "a", "XML", "Xml"][rng.below(5)];
                let puri = uris[rng.below(uris.len())];
                // (qname, expected expanded name) of elements in document order, with their attributes
                let mut expect: Vec<((String, String), Vec<(String, String)>)> = Vec::new();
                let mut pis: Vec<String> = Vec::new();
                let mut text = String::new();
                let root_local = locals[rng.below(locals.len())];
                let root_pref = rng.chance(1, 3);
                let root_q = if root_pref { format!("{}:{}", pfx, root_local) } else { root_local.to_string() };
                text.push_str(&format!("<{} xmlns:{}=\"{}\"", root_q, pfx, spell(rng, puri)));
                if let Some(d) = dflt {
                    text.push_str(&format!(" xmlns=\"{}\"", spell(rng, d)));
                }
                text.push('>');
                expect.push(((root_local.to_string(), if root_pref { puri.to_string() } else { dflt.unwrap_or("").to_string() }), Vec::new()));
                for _ in 0..rng.range(1, 5) {
                    let l = locals[rng.below(locals.len())];
                    let pref = rng.chance(1, 3);
                    // own default (re)declaration: another namespace, or the undeclaration
                    let own: Option<&str> = if rng.chance(1, 4) { Some(if rng.bool() { "" } else { uris[rng.below(uris.len())] }) } else { None };
                    let eff = own.or(dflt).unwrap_or("");
                    let q = if pref { format!("{}:{}", pfx, l) } else { l.to_string() };
                    text.push_str(&format!("<{}", q));
                    if let Some(o) = own {
                        text.push_str(&format!(" xmlns=\"{}\"", spell(rng, o)));
                    }
                    let mut attrs: Vec<(String, String)> = Vec::new();
                    let mut seen: Vec<String> = Vec::new();
                    for _ in 0..rng.below(4) {
                        let al = locals[rng.below(locals.len())];
                        let ap = rng.chance(1, 3);
                        let aq = if ap { format!("{}:{}", pfx, al) } else { al.to_string() };
                        if seen.contains(&aq) {
                            continue;
                        }
                        seen.push(aq.clone());
                        text.push_str(&format!(" {}=\"v\"", aq));
                        attrs.push((al.to_string(), if ap { puri.to_string() } else { String::new() }));
                    }
                    text.push_str("/>");
                    expect.push(((l.to_string(), if pref { puri.to_string() } else { eff.to_string() }), attrs));
                    // a processing instruction whose target is also used as an element / attribute name:
                    // targets are names in no namespace whatever default namespace is in scope
                    if rng.chance(1, 3) {
                        let t = locals[rng.below(locals.len())];
                        text.push_str(&format!("<?{} d?>", t));
                        pis.push(t.to_string());
                    }
                }
                text.push_str(&format!("</{}>", root_q));
                log.push(format!("parse({:?})", text));
                let doc = match guard(|| target.xot.parse(&text)) {
                    Ok(Ok(d)) => d,
                    other => {
                        return Err((("parse-failed".into(), format!("{:?}", other.map(|r| r.map(|_| ()).map_err(|e| format!("{:?}", e))).map_err(|p| p.short()))), log.clone()));
                    }
                };
                // namespaces and the prefix the document used
                for u in expect.iter().flat_map(|(e, a)| std::iter::once(&e.1).chain(a.iter().map(|x| &x.1))).cloned().collect::<Vec<_>>() {
                    match target.xot.namespace(&u) {
                        Some(i) => tr!(target.note_ns(&u, i, "parse")),
                        None => return Err((("lookup-misses-registered".into(), format!("namespace {:?} used in a parsed document is not registered", u)), log.clone())),
                    }
                }
                match target.xot.prefix(pfx) {
                    Some(i) => tr!(target.note_prefix(pfx, i, "parse")),
                    None => return Err((("lookup-misses-registered".into(), format!("prefix {:?} used in a parsed document is not registered", pfx)), log.clone())),
                }
                // read the ids back from the tree
                let read = guard(|| {
                    let x = &target.xot;
                    let mut out: Vec<(NameId, Vec<NameId>)> = Vec::new();
                    let mut pi_ids: Vec<NameId> = Vec::new();
                    for n in x.descendants(doc) {
                        if x.is_element(n) {
                            out.push((x.node_name(n).unwrap(), x.attributes(n).keys().collect()));
                        } else if let Some(pi) = x.processing_instruction(n) {
                            pi_ids.push(pi.target());
                        }
                    }
                    (out, pi_ids)
                });
                let (read, pi_ids) = match read {
                    Ok(r) => r,
                    Err(p) => return Err((("panic".into(), p.short()), log.clone())),
                };
                if pi_ids.len() != pis.len() {
                    return Err((("parsed-name-id-wrong".into(), format!("{} processing instructions read back, {} written", pi_ids.len(), pis.len())), log.clone()));
                }
                for (id, t) in pi_ids.iter().zip(pis.iter()) {
                    let got = target.xot.name_ns_str(*id);
                    if (got.0, got.1) != (t.as_str(), "") {
                        return Err((("parsed-name-id-wrong".into(), format!("processing instruction target {} carries the id of {{{}}}{}", t, got.1, got.0)), log.clone()));
                    }
                    tr!(target.note_name(t, "", *id, "parse"));
                    if target.xot.name(t) != Some(*id) {
                        return Err((("lookup-misses-registered".into(), format!("name({:?}) does not find the id of the parsed PI target", t)), log.clone()));
                    }
                }
                if read.len() != expect.len() {
                    return Err((("parsed-name-id-wrong".into(), format!("{} elements read back, {} written", read.len(), expect.len())), log.clone()));
                }
                for ((eid, aids), (ename, anames)) in read.iter().zip(expect.iter()) {
                    let got = target.xot.name_ns_str(*eid);
                    if (got.0, got.1) != (ename.0.as_str(), ename.1.as_str()) {
                        return Err((("parsed-name-id-wrong".into(), format!("element written as {{{}}}{} carries the id of {{{}}}{}", ename.1, ename.0, got.1, got.0)), log.clone()));
                    }
                    tr!(target.note_name(&ename.0, &ename.1, *eid, "parse"));
                    if aids.len() != anames.len() {
                        return Err((("parsed-name-id-wrong".into(), format!("{} attributes read back, {} written", aids.len(), anames.len())), log.clone()));
                    }
                    for (aid, an) in aids.iter().zip(anames.iter()) {
                        let got = target.xot.name_ns_str(*aid);
                        if (got.0, got.1) != (an.0.as_str(), an.1.as_str()) {
                            return Err((("parsed-name-id-wrong".into(), format!("attribute written as {{{}}}{} carries the id of {{{}}}{}", an.1, an.0, got.1, got.0)), log.clone()));
                        }
                        tr!(target.note_name(&an.0, &an.1, *aid, "parse"));
                    }
                }
                ctx.count("hostile_parses_read_back");
            }
            16..=21 => {
                // the xmlname layer on top of the registration calls: CreateName / CreateNamespace / OwnedName
                use xot::xmlname::{CreateName, CreateNamespace, NameStrInfo, OwnedName};
                let ns = hot[rng.below(hot.len())].to_string();
                let pfx = hot[rng.below(hot.len())].to_string();
                match which {
                    16 => {
                        log.push(format!("CreateName::name({:?})", s));
                        let id = match guard(|| CreateName::name(&mut target.xot, &s).name_id()) {
                            Ok(i) => i,
                            Err(p) => return Err((("panic".into(), p.short()), log.clone())),
                        };
                        tr!(target.note_name(&s, "", id, "CreateName::name"));
                    }
                    17 => {
                        log.push(format!("CreateNamespace::new({:?}, {:?}); CreateName::namespaced({:?}, ..)", pfx, ns, s));
                        let r = guard(|| {
                            let cn = CreateNamespace::new(&mut target.xot, &pfx, &ns);
                            let n = CreateName::namespaced(&mut target.xot, &s, &cn);
                            (cn.prefix_id(), cn.namespace_id(), n.name_id())
                        });
                        let (pid, nid, id) = match r {
                            Ok(x) => x,
                            Err(p) => return Err((("panic".into(), p.short()), log.clone())),
                        };
                        tr!(target.note_prefix(&pfx, pid, "CreateNamespace::new"));
                        tr!(target.note_ns(&ns, nid, "CreateNamespace::new"));
                        tr!(target.note_name(&s, &ns, id, "CreateName::namespaced"));
                    }
                    18 => {
                        // parse_full_name with a lookup that binds the empty prefix (a default namespace) or not
                        let dflt = if rng.bool() { Some(ns.clone()) } else { None };
                        let prefixed = rng.bool() && !pfx.is_empty() && !pfx.contains(':');
                        let full = if prefixed { format!("{}:{}", pfx, s) } else { s.clone() };
                        // (whether a degenerate qualified name - empty local part, stray colon - is refused is left open)
                        if s.contains(':') || s.is_empty() {
                            continue;
                        }
                        log.push(format!("CreateName::parse_full_name({:?}, default -> {:?}, {:?} -> \"urn:A\")", full, dflt, pfx));
                        let d_id = match &dflt {
                            Some(d) => Some(tr!(target.reg_ns(d, "add_namespace"))),
                            None => None,
                        };
                        let p_id = tr!(target.reg_ns("urn:A", "add_namespace"));
                        let pfx2 = pfx.clone();
                        let r = guard(|| CreateName::parse_full_name(&mut target.xot, &full, |p| if p.is_empty() { d_id } else if p == pfx2 { Some(p_id) } else { None }).map(|n| n.name_id()));
                        match r {
                            Err(p) => return Err((("panic".into(), p.short()), log.clone())),
                            Ok(Ok(id)) => {
                                let want_ns = if prefixed { "urn:A".to_string() } else { dflt.clone().unwrap_or_default() };
                                if !prefixed && dflt.is_none() {
                                    return Err((("xmlname-layer".into(), format!("parse_full_name({:?}) succeeded although the lookup knows no binding for the empty prefix", full)), log.clone()));
                                }
                                tr!(target.note_name(&s, &want_ns, id, "CreateName::parse_full_name"));
                            }
                            Ok(Err(_)) => {
                                if prefixed || dflt.is_some() {
                                    return Err((("xmlname-layer".into(), format!("parse_full_name({:?}) failed although the lookup binds its prefix", full)), log.clone()));
                                }
                            }
                        }
                    }
                    19 => {
                        log.push(format!("OwnedName::new({:?}, {:?}, {:?}).to_ref()", s, ns, pfx));
                        let on = OwnedName::new(s.clone(), ns.clone(), pfx.clone());
                        let r = guard(|| {
                            let r = on.to_ref(&mut target.xot);
                            let back = r.to_owned();
                            let round = (back.local_name().to_string(), back.namespace().to_string(), back.prefix().to_string(), r.has_unprefixed_namespace(), back.in_default_namespace(), back == on);
                            (r.name_id(), r.namespace_id(), r.prefix_id(), r.local_name().to_string(), r.namespace().to_string(), r.prefix().to_string(), round)
                        });
                        let (id, nid, pid, l, u, p, round) = match r {
                            Ok(x) => x,
                            Err(p) => return Err((("panic".into(), p.short()), log.clone())),
                        };
                        let unprefixed_ns = !ns.is_empty() && pfx.is_empty();
                        if (round.0.as_str(), round.1.as_str(), round.2.as_str()) != (s.as_str(), ns.as_str(), pfx.as_str()) || round.3 != unprefixed_ns || round.4 != unprefixed_ns || !round.5 {
                            return Err((("xmlname-layer".into(), format!("RefName::to_owned / has_unprefixed_namespace / in_default_namespace of ({:?}, {:?}, {:?}) give {:?}", s, ns, pfx, round)), log.clone()));
                        }
                        if (l.as_str(), u.as_str(), p.as_str()) != (s.as_str(), ns.as_str(), pfx.as_str()) {
                            return Err((("xmlname-layer".into(), format!("to_ref of ({:?}, {:?}, {:?}) reads back as ({:?}, {:?}, {:?})", s, ns, pfx, l, u, p)), log.clone()));
                        }
                        tr!(target.note_prefix(&pfx, pid, "OwnedName::to_ref"));
                        tr!(target.note_ns(&ns, nid, "OwnedName::to_ref"));
                        tr!(target.note_name(&s, &ns, id, "OwnedName::to_ref"));
                    }
                    20 => {
                        log.push(format!("OwnedName::new({:?}, {:?}, {:?}).maybe_to_ref()", s, ns, pfx));
                        let on = OwnedName::new(s.clone(), ns.clone(), pfx.clone());
                        let want = target.m.names.get(&(s.clone(), ns.clone())).copied();
                        let ns_known = target.m.nss.contains_key(&ns);
                        let r = guard(|| on.maybe_to_ref(&target.xot).map(|r| (r.name_id(), r.prefix_id())));
                        match r {
                            Err(p) => return Err((("panic".into(), p.short()), log.clone())),
                            Ok(got) => {
                                let unknown_to_model = want.is_none() && got.is_some() && target.html5;
                                if got.map(|g| g.0) != want && !unknown_to_model && !target.m.maybe.contains(&s) && !target.m.maybe.contains(&ns) {
                                    let what = format!("maybe_to_ref of {{{}}}{} gives {:?}; registered: {:?} (namespace registered: {})", ns, s, got.map(|_| "Some"), want.map(|_| "Some"), ns_known);
                                    return Err((("xmlname-layer".into(), what), log.clone()));
                                }
                                if let Some((_, pid)) = got {
                                    let want_p = target.m.prefixes.get(&pfx).copied().unwrap_or(target.xot.empty_prefix());
                                    if pid != want_p && !target.m.maybe.contains(&pfx) {
                                        return Err((("xmlname-layer".into(), format!("maybe_to_ref reports another prefix id than the one registered for {:?}", pfx)), log.clone()));
                                    }
                                }
                            }
                        }
                    }
                    _ => {
                        log.push(format!("OwnedName::new({:?}, {:?}, {:?}).to_create()", s, ns, pfx));
                        let on = OwnedName::new(s.clone(), ns.clone(), pfx.clone());
                        let id = match guard(|| on.to_create(&mut target.xot).name_id()) {
                            Ok(i) => i,
                            Err(p) => return Err((("panic".into(), p.short()), log.clone())),
                        };
                        match target.xot.namespace(&ns) {
                            Some(nid) => tr!(target.note_ns(&ns, nid, "OwnedName::to_create")),
                            None => return Err((("lookup-misses-registered".into(), format!("namespace {:?} is not registered after to_create", ns)), log.clone())),
                        }
                        tr!(target.note_name(&s, &ns, id, "OwnedName::to_create"));
                    }
                }
                ctx.count("xmlname_layer_calls");
            }
            22 | 23 => {
                // an OwnedName that has already been resolved once, then changed (with_suffix / with_default_namespace) or
                // taken to the other store: every resolution is judged on its own
                use xot::xmlname::OwnedName;
                let ns = hot[rng.below(hot.len())].to_string();
                // with_default_namespace only applies to a name without prefix AND without namespace: all four combinations
                let (ns, pfx) = if which == 23 {
                    match rng.below(5) {
                        0 | 1 => (String::new(), String::new()),
                        2 => (ns, String::new()),
                        3 => (String::new(), hot[rng.below(hot.len())].to_string()),
                        _ => (ns, hot[rng.below(hot.len())].to_string()),
                    }
                } else {
                    (ns, hot[rng.below(hot.len())].to_string())
                };
                let on = OwnedName::new(s.clone(), ns.clone(), pfx.clone());
                log.push(format!("OwnedName::new({:?}, {:?}, {:?}).to_create(); then .with_suffix() / .with_default_namespace(\"urn:A\") .to_create()", s, ns, pfx));
                let id0 = match guard(|| on.to_create(&mut target.xot).name_id()) {
                    Ok(i) => i,
                    Err(p) => return Err((("panic".into(), p.short()), log.clone())),
                };
                match target.xot.namespace(&ns) {
                    Some(nid) => tr!(target.note_ns(&ns, nid, "OwnedName::to_create")),
                    None => return Err((("lookup-misses-registered".into(), format!("namespace {:?} is not registered after to_create", ns)), log.clone())),
                }
                tr!(target.note_name(&s, &ns, id0, "OwnedName::to_create"));
                let changed = if which == 22 { on.clone().with_suffix() } else { on.clone().with_default_namespace("urn:A") };
                let (want_l, want_ns) = if which == 22 {
                    (format!("{}*", s), ns.clone())
                } else if ns.is_empty() && pfx.is_empty() {
                    (s.clone(), "urn:A".to_string())
                } else {
                    (s.clone(), ns.clone())
                };
                let id1 = match guard(|| changed.to_create(&mut target.xot).name_id()) {
                    Ok(i) => i,
                    Err(p) => return Err((("panic".into(), p.short()), log.clone())),
                };
                match target.xot.namespace(&want_ns) {
                    Some(nid) => tr!(target.note_ns(&want_ns, nid, "OwnedName::to_create")),
                    None => return Err((("lookup-misses-registered".into(), format!("namespace {:?} is not registered after to_create", want_ns)), log.clone())),
                }
                tr!(target.note_name(&want_l, &want_ns, id1, "OwnedName::to_create after with_suffix / with_default_namespace"));
                ctx.count("xmlname_layer_calls");
            }
            24 => {
                // create_missing_prefixes generates and registers prefixes (n0, n1, ...): a registration path like any other
                fresh += 1;
                let uri = format!("urn:cmp{}", fresh);
                log.push(format!("element in {:?} without a declaration; create_missing_prefixes", uri));
                let r = guard(|| {
                    let ns = target.xot.add_namespace(&uri);
                    let name = target.xot.add_name_ns("e", ns);
                    let e = target.xot.new_element(name);
                    let at = target.xot.add_name_ns("k", ns);
                    target.xot.attributes_mut(e).insert(at, "v".to_string());
                    let ok = target.xot.create_missing_prefixes(e).is_ok();
                    let decls: Vec<(PrefixId, String)> = target.xot.namespaces(e).iter().map(|(p, _)| (p, target.xot.prefix_str(p).to_string())).collect();
                    (ns, name, at, ok, decls)
                });
                let (ns, name, at, ok, decls) = match r {
                    Ok(x) => x,
                    Err(p) => return Err((("panic".into(), p.short()), log.clone())),
                };
                tr!(target.note_ns(&uri, ns, "add_namespace"));
                tr!(target.note_name("e", &uri, name, "add_name_ns"));
                tr!(target.note_name("k", &uri, at, "add_name_ns"));
                if ok {
                    for (pid, pstr) in decls {
                        tr!(target.note_prefix(&pstr, pid, "create_missing_prefixes"));
                    }
                }
                ctx.count("create_missing_prefixes_registrations");
            }
            10 => {
                // a rejected document that mentions fresh names: afterwards ids must still be one-to-one
                fresh += 1;
                let (e, at, pfx) = (format!("fe{}", fresh), format!("fat{}", fresh), format!("fpx{}", fresh));
                let uri = format!("urn:fu{}", fresh);
                let text = match rng.below(6) {
                    0 => format!("<{e} {at}=\"v\"><{pfx}:x xmlns:{pfx}=\"{uri}\"></{e}>"),
                    1 => format!("<{e} {at}=\"v\" {at}=\"w\"/>"),
                    // abandoned while elements with a default namespace / a hot prefix are still open
                    2 => format!("<{e} xmlns=\"{uri}\"><x>"),
                    3 => format!("<{e} xmlns=\"{uri}\" xmlns:p=\"{uri}\"><y></{e}>"),
                    4 => format!("<{e} xmlns=\"{uri}\"><x><y xmlns=\"urn:A\">t"),
                    _ => format!("<{e}><{pfx}:y/></{e}>"),
                };
                log.push(format!("parse({:?}) [rejected]", text));
                let r = guard(|| target.xot.parse(&text));
                match r {
                    Ok(Err(_)) => {}
                    Ok(Ok(_)) => return Err((("parse-accepted-ill-formed".into(), text), log.clone())),
                    Err(p) => return Err((("panic".into(), p.short()), log.clone())),
                }
                for m in [e, at, pfx, uri, "x".to_string(), "y".to_string(), "p".to_string(), "urn:A".to_string()] {
                    target.m.maybe.push(m);
                }
                // the very next registrations are fresh strings
                fresh += 1;
                let f1 = format!("after{}", fresh);
                log.push(format!("add_name({:?}); add_prefix({:?}); add_namespace({:?})", f1, f1, f1));
                tr!(target.reg_name(&f1, "", "add_name"));
                tr!(target.reg_prefix(&f1, "add_prefix"));
                tr!(target.reg_ns(&f1, "add_namespace"));
            }
            8 => {
                log.push("html5()".to_string());
                let _ = guard(|| {
                    let _h = target.xot.html5();
                });
                target.html5 = true;
            }
            9 => {
                if clone.is_none() {
                    log.push("clone()".to_string());
                    let c = World { xot: w.xot.clone(), m: w.m.clone(), html5: w.html5 };
                    clone = Some(c);
                }
            }
            25 => {
                // OwnedName's own constructors and value semantics, then resolution of what they built; and the
                // conversions of the id-carrying name types
                use xot::xmlname::{CreateName, NameStrInfo, OwnedName};
                use std::hash::{Hash, Hasher};
                let ns = hot[rng.below(hot.len())].to_string();
                let pfx = hot[rng.below(hot.len())].to_string();
                if s.contains(':') || pfx.contains(':') || s.is_empty() {
                    continue;
                }
                log.push(format!("OwnedName::name / namespaced / prefixed / parse_full_name for ({:?}, {:?}, {:?}); ==, Hash; NameId::from", s, ns, pfx));
                let hash_of = |n: &OwnedName| {
                    let mut h = std::collections::hash_map::DefaultHasher::new();
                    n.hash(&mut h);
                    h.finish()
                };
                let r = guard(|| {
                    let plain = OwnedName::name(&s);
                    let a = OwnedName::namespaced(s.clone(), ns.clone(), |u| if u == ns { Some(pfx.clone()) } else { None });
                    let a_none = OwnedName::namespaced(s.clone(), ns.clone(), |_| None);
                    let b = OwnedName::prefixed(&pfx, &s, |p| if p == pfx { Some(ns.clone()) } else { None });
                    let b_none = OwnedName::prefixed(&pfx, &s, |_| None);
                    let full = if pfx.is_empty() { s.clone() } else { format!("{}:{}", pfx, s) };
                    let c = OwnedName::parse_full_name(&full, |p| if p == pfx { Some(ns.clone()) } else { None });
                    (plain, a, a_none.is_err(), b, b_none.is_err(), c)
                });
                let (plain, a, a_none_err, b, b_none_err, c) = match r {
                    Ok(x) => x,
                    Err(p) => return Err((("panic".into(), p.short()), log.clone())),
                };
                let triple = |n: &OwnedName| (n.local_name().to_string(), n.namespace().to_string(), n.prefix().to_string());
                let want = (s.clone(), ns.clone(), pfx.clone());
                if triple(&plain) != (s.clone(), String::new(), String::new()) || !a_none_err || !b_none_err {
                    return Err((("xmlname-layer".into(), format!("OwnedName::name({:?}) = {:?}; a failing lookup gave Ok: {} / {}", s, triple(&plain), !a_none_err, !b_none_err)), log.clone()));
                }
                let reference = OwnedName::new(s.clone(), ns.clone(), "zzother".to_string());
                for (how, built) in [("namespaced", a), ("prefixed", b), ("parse_full_name", c)] {
                    let n = match built {
                        Ok(n) => n,
                        Err(e) => return Err((("xmlname-layer".into(), format!("OwnedName::{} refused ({:?}, {:?}, {:?}): {:?}", how, s, ns, pfx, e)), log.clone())),
                    };
                    if triple(&n) != want {
                        return Err((("xmlname-layer".into(), format!("OwnedName::{} built {:?}, expected {:?}", how, triple(&n), want)), log.clone()));
                    }
                    // equality and hashing go by the expanded name, whatever the prefix
                    if n != reference || hash_of(&n) != hash_of(&reference) || (n == plain) != ns.is_empty() {
                        return Err((("xmlname-layer".into(), format!("OwnedName equality / hash of {:?} against the same expanded name under another prefix, or against the no-namespace name", want)), log.clone()));
                    }
                    let ids = guard(|| {
                        let cn = n.to_create(&mut target.xot);
                        let id = cn.name_id();
                        let via_from: NameId = cn.into();
                        let plain_cn = CreateName::name(&mut target.xot, &s);
                        let plain_id: NameId = plain_cn.into();
                        let (r_from, r_eq, r_hash_eq) = {
                            let r1 = n.to_ref(&mut target.xot);
                            let id1: NameId = r1.into();
                            (id1, true, true)
                        };
                        (id, via_from, plain_id, r_from, r_eq, r_hash_eq)
                    });
                    let (id, via_from, plain_id, r_from, _, _) = match ids {
                        Ok(x) => x,
                        Err(p) => return Err((("panic".into(), p.short()), log.clone())),
                    };
                    if via_from != id || r_from != id {
                        return Err((("xmlname-layer".into(), format!("NameId::from(CreateName / RefName) differs from name_id() for {:?}", want)), log.clone()));
                    }
                    match target.xot.namespace(&ns) {
                        Some(nid) => tr!(target.note_ns(&ns, nid, "OwnedName::to_create")),
                        None => return Err((("lookup-misses-registered".into(), format!("namespace {:?} is not registered after to_create", ns)), log.clone())),
                    }
                    if let Some(pid) = target.xot.prefix(&pfx) {
                        tr!(target.note_prefix(&pfx, pid, "OwnedName::to_ref"));
                    }
                    tr!(target.note_name(&s, &ns, id, "OwnedName::to_create"));
                    tr!(target.note_name(&s, "", plain_id, "CreateName::name"));
                }
                // two references to one name under different prefixes are equal and hash alike; another name is not
                let pair = guard(|| {
                    let n1 = target.xot.add_namespace(&ns);
                    let id = target.xot.add_name_ns(&s, n1);
                    let other = target.xot.add_name_ns(&format!("{}zz", s), n1);
                    let p1 = target.xot.add_prefix("zzp1");
                    let p2 = target.xot.add_prefix("zzp2");
                    let e1 = target.xot.new_element(id);
                    let e2 = target.xot.new_element(id);
                    let e3 = target.xot.new_element(other);
                    target.xot.namespaces_mut(e1).insert(p1, n1);
                    target.xot.namespaces_mut(e2).insert(p2, n1);
                    target.xot.namespaces_mut(e3).insert(p1, n1);
                    let verdict = {
                        let x = &target.xot;
                        match (x.node_name_ref(e1), x.node_name_ref(e2), x.node_name_ref(e3)) {
                            (Ok(Some(r1)), Ok(Some(r2)), Ok(Some(r3))) => {
                                let h = |r: &xot::xmlname::RefName| {
                                    let mut h = std::collections::hash_map::DefaultHasher::new();
                                    r.hash(&mut h);
                                    h.finish()
                                };
                                Some(r1 == r2 && h(&r1) == h(&r2) && r1 != r3)
                            }
                            _ => None,
                        }
                    };
                    for e in [e1, e2, e3] {
                        let _ = target.xot.remove(e);
                    }
                    (verdict, other, p1, p2)
                });
                match pair {
                    Ok((Some(true), other, p1, p2)) | Ok((None, other, p1, p2)) => {
                        tr!(target.note_name(&format!("{}zz", s), &ns, other, "add_name_ns"));
                        tr!(target.note_prefix("zzp1", p1, "add_prefix"));
                        tr!(target.note_prefix("zzp2", p2, "add_prefix"));
                        match target.xot.namespace(&ns) {
                            Some(nid) => tr!(target.note_ns(&ns, nid, "add_namespace")),
                            None => {}
                        }
                    }
                    Ok((Some(false), ..)) => return Err((("xmlname-layer".into(), format!("RefName == / Hash: the same name under two prefixes must be equal, another name unequal ({:?} in {:?})", s, ns)), log.clone())),
                    Err(p) => return Err((("panic".into(), p.short()), log.clone())),
                }
                ctx.count("xmlname_layer_calls");
                ctx.count("xmlname_value_semantics");
            }
            _ => {
                log.push("check".to_string());
            }
        }
        // after every step: both stores against their own model
        let n = tr!(w.check_all(&w.xot, 1));
        ctx.add("id_resolutions_checked", n);
        tr!(w.check_unregistered(&w.xot, "zz_never_"));
        if let Some(c) = &clone {
            let n = tr!(c.check_all(&c.xot, 1));
            ctx.add("id_resolutions_checked", n);
            ctx.count("clone_checks");
        }
        // Clone::clone_from into a store with another history must give the same store
        if rng.chance(1, 6) {
            let mut t = Xot::new();
            for k in 0..rng.range(0, 5) {
                t.add_prefix(&format!("old{}", k));
                t.add_name(&format!("oldn{}", k));
                t.add_namespace(&format!("urn:old{}", k));
            }
            if guard(|| t.clone_from(&w.xot)).is_err() {
                return Err((("panic".into(), "Xot::clone_from panicked".into()), log.clone()));
            }
            let n = tr!(w.check_all(&t, 1));
            ctx.add("id_resolutions_checked", n);
            ctx.count("clone_from_checks");
        }
    }
    ctx.add("registrations", (w.m.names.len() + w.m.nss.len() + w.m.prefixes.len()) as u64);
    if steps >= 5 {
        let mut h = std::collections::hash_map::DefaultHasher::new();
        use std::hash::{Hash, Hasher};
        log.hash(&mut h);
        ctx.nontrivial(h.finish());
    }
    ctx.sample(|| J::Arr(log.iter().take(30).map(|s| J::s(s.clone())).collect()));
    Ok(())
}

/// one long history: `n` distinct strings of one kind; all earlier ids re-resolved at the checkpoints
fn long_history(kind: usize, ctx: &mut Ctx) -> Result<(), Bad> {
    let mut w = World::new();
    let n: usize = match kind {
        0 | 3 => 200_000,
        _ => 70_000,
    };
    let checkpoints = [65_535usize, 65_536, 65_537, 131_072, n];
    let ns_for_names = w.reg_ns("urn:long", "add_namespace")?;
    let _ = ns_for_names;
    let mut pending = String::new();
    for i in 1..=n {
        match kind {
            0 => {
                w.reg_name(&format!("n{}", i), if i % 2 == 0 { "urn:long" } else { "" }, "add_name_ns")?;
            }
            1 => {
                w.reg_ns(&format!("urn:ns:{}", i), "add_namespace")?;
            }
            2 => {
                w.reg_prefix(&format!("p{}", i), "add_prefix")?;
            }
            _ => {
                // names arriving through parse, 500 at a time
                pending.push_str(&format!("<q{}/>", i));
                if i % 500 == 0 || i == n {
                    let text = format!("<r>{}</r>", pending);
                    pending.clear();
                    let r = guard(|| w.xot.parse(&text));
                    match r {
                        Ok(Ok(d)) => {
                            // keep the arena small
                            let _ = guard(|| w.xot.remove(d));
                        }
                        other => return Err(("parse-failed".into(), format!("{:?}", other.map(|r| r.map(|_| ()).map_err(|e| format!("{:?}", e))).map_err(|p| p.short())))),
                    }
                    let lo = if i % 500 == 0 { i - 499 } else { i - (i % 500) + 1 };
                    for j in lo..=i {
                        let l = format!("q{}", j);
                        match w.xot.name(&l) {
                            Some(id) => w.note_name(&l, "", id, "parse")?,
                            None => return Err(("lookup-misses-registered".into(), format!("name {:?} used in a parsed document is not registered", l))),
                        }
                    }
                }
            }
        }
        if checkpoints.contains(&i) {
            let k = w.check_all(&w.xot, 1)?;
            ctx.add("id_resolutions_checked", k);
            ctx.count("long_history_checkpoints");
            // the clone denotes the same
            let c = w.xot.clone();
            let k = w.check_all(&c, 7)?;
            ctx.add("id_resolutions_checked", k);
        }
    }
    w.check_unregistered(&w.xot, "zz_never_")?;
    ctx.add("registrations", n as u64);
    ctx.count(&format!("long_history_done.{}", ["names", "namespaces", "prefixes", "names-through-parse"][kind]));
    Ok(())
}

impl Monitor for C08 {
    fn id(&self) -> &'static str {
        "C08"
    }
    fn streams(&self, tier: Tier, budget: f64) -> Vec<Stream> {
        let n = match tier {
            Tier::Quick => 8_000,
            Tier::Thorough => 300_000,
        };
        vec![Stream::new("long-histories", 4), Stream::new("short-histories", scaled(n, budget))]
    }
    fn rule(&self) -> String {
        "four long histories (2*10^5 distinct names, 7*10^4 namespaces, 7*10^4 prefixes, 2*10^5 names arriving through parse) with ALL earlier ids re-resolved both ways at 65 535, 65 536, 65 537, 131 072 registrations and at the end, in the store and in a clone of it; short histories of 5-60 steps of add_name / add_name_ns / add_namespace / add_prefix / parse (fresh element, attribute, PI, prefix, namespace names; and documents that reuse a small pool of local names across elements, prefixed and unprefixed attributes, default / redeclared / undeclared default namespaces, with every element and attribute name id read back from the tree and compared with its written expanded name) / rejected parse / the xmlname layer (CreateName::name / namespaced / parse_full_name, CreateNamespace::new, OwnedName::to_ref / maybe_to_ref / to_create, also after with_suffix / with_default_namespace) / create_missing_prefixes (generated prefixes) / html5() / Xot::clone over a pool of hot and fresh strings, with every id <-> string pair and the built-ins re-checked after every step in the store and its clone, and read-only lookups of never-registered strings. Non-trivial = history with >= 5 steps; distinct by hash of the step list".into()
    }
    fn floors(&self, _tier: Tier) -> Vec<(&'static str, u64)> {
        vec![
            ("long_history_done.names", 1),
            ("long_history_done.namespaces", 1),
            ("long_history_done.prefixes", 1),
            ("long_history_done.names-through-parse", 1),
            ("long_history_checkpoints", 16),
            ("id_resolutions_checked", 1_000_000),
            ("clone_checks", 1_000),
            ("clone_from_checks", 500),
            ("hostile_parses_read_back", 1_000),
            ("xmlname_layer_calls", 5_000),
            ("create_missing_prefixes_registrations", 1_000),
        ]
    }
    fn assumptions(&self) -> Vec<String> {
        vec!["ids beyond 2*10^5 registrations per kind are not exercised (3x the former 16-bit width)".into()]
    }
    fn run_case(&self, stream: usize, idx: u64, rng: &mut Rng, ctx: &mut Ctx) {
        if stream == 0 {
            if let Err((clause, what)) = long_history(idx as usize, ctx) {
                ctx.violation(
                    "interning is not one-to-one / not stable in a long history",
                    format!("C08/long-history-{}/{}", ["names", "namespaces", "prefixes", "names-through-parse"][idx as usize % 4], clause),
                    J::obj().set("what", J::s(what)),
                );
            }
            ctx.nontrivial(idx ^ 0xC08);
            return;
        }
        if let Err(((clause, what), log)) = short_history(rng, ctx) {
            ctx.violation(
                "interning is not one-to-one / not stable",
                format!("C08/short-history/{}", clause),
                J::obj().set("what", J::s(what)).set("steps", J::Arr(log.iter().map(|s| J::s(s.clone())).collect())),
            );
        }
    }
}
