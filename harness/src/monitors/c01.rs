//! C01 — serialise-then-parse returns the same tree.

use super::common::*;
use crate::adoc::*;
use crate::build::{self, AttrStyle, ROUTES};
use crate::engine::{guard, Ctx, Monitor, Stream, Tier};
use crate::gen::{self, GenCfg, NsMode, Scope, TextProfile};
use crate::json::J;
use crate::rng::Rng;
use xot::Xot;

pub struct C01;

fn forced_docs() -> Vec<ANode> {
    let e = |n: &str| ANode::elem(QName::plain(n));
    vec![
        // CR in text (F01), TAB/LF/CR in attribute (F02)
        ANode::doc(vec![e("a").with_children(vec![ANode::text("x\ry")])]),
        ANode::doc(vec![e("a").with_attr(QName::plain("t"), "1\t2\n3\r4")]),
        // hostile namespace URI (F03/F04)
        ANode::doc(vec![ANode::elem(QName::new(gen::NS_HOSTILE, "a")).with_decl("p", gen::NS_HOSTILE)]),
        // ]]> and friends
        ANode::doc(vec![e("a").with_children(vec![ANode::text("]]>]]]>&<>\"'")])]),
        ANode::doc(vec![e("a").with_attr(QName::plain("t"), "<&>\"'")]),
        // shadowing
        ANode::doc(vec![ANode::elem(QName::new("urn:A", "a")).with_decl("p", "urn:A").with_children(vec![
            ANode::elem(QName::new("urn:B", "b")).with_decl("p", "urn:B").with_children(vec![
                ANode::elem(QName::new("urn:B", "c")).with_attr(QName::new("urn:B", "t"), "v"),
            ]),
        ])]),
        // default namespace + xmlns=""
        ANode::doc(vec![ANode::elem(QName::new("urn:A", "a")).with_decl("", "urn:A").with_children(vec![
            e("b").with_decl("", ""),
        ])]),
        // no-namespace element under default namespace without undeclaration (F29)
        ANode::doc(vec![ANode::elem(QName::new("urn:A", "a")).with_decl("", "urn:A").with_children(vec![e("b")])]),
        // attribute in the default namespace's URI needs the prefixed binding
        ANode::doc(vec![ANode::elem(QName::new("urn:A", "a"))
            .with_decl("", "urn:A")
            .with_decl("p", "urn:A")
            .with_attr(QName::new("urn:A", "t"), "v")]),
        // non-BMP and edge code points
        ANode::doc(vec![e("a").with_children(vec![ANode::text("\u{10000}\u{10ffff}\u{d7ff}\u{e000}\u{fffd}\u{85}\u{2028}")])]),
        // comments and PIs around the root
        ANode::doc(vec![
            ANode::comment(" lead "),
            ANode::pi("pi", Some("d ?")),
            e("a"),
            ANode::comment("trail"),
            ANode::pi("t", None),
        ]),
    ]
}

pub fn gen_cfg(rng: &mut Rng) -> GenCfg {
    let mut cfg = GenCfg::default();
    cfg.fragment = rng.chance(1, 4);
    cfg.ns_mode = if rng.chance(1, 5) { NsMode::None } else { NsMode::Consistent };
    cfg.max_nodes = *rng.pick(&[3, 8, 20, 40]);
    cfg.max_depth = *rng.pick(&[2, 4, 8]);
    cfg.pct_unns_under_default = 2;
    cfg.pct_hostile_ns = 2;
    cfg.xml_space = rng.chance(1, 4);
    cfg.xml_id = rng.chance(1, 4);
    if rng.chance(1, 10) {
        cfg.text = TextProfile::Brackets;
    }
    cfg
}

/// hypothesis behind ledger F29: a no-namespace element under an in-scope default binding is
/// written unprefixed and therefore reparses in the default namespace
fn apply_unns_hypothesis(doc: &ANode) -> ANode {
    fn rec(n: &mut ANode, scope: &mut Scope) {
        if n.kind == AKind::Elem {
            let pushed = scope.push_all(&n.decls);
            if n.name.ns.is_empty() {
                if let Some(d) = scope.lookup("") {
                    n.name.ns = d.to_string();
                }
            }
            for c in n.children.iter_mut() {
                rec(c, scope);
            }
            scope.pop_n(pushed);
        } else {
            for c in n.children.iter_mut() {
                rec(c, scope);
            }
        }
    }
    let mut d = doc.clone();
    rec(&mut d, &mut Scope::new());
    d
}

pub fn roundtrip_check(
    ctx: &mut Ctx,
    xot: &mut Xot,
    root: xot::Node,
    orig: &ANode,
    how: &str,
) {
    let prop = ctx.prop;
    let wf = gen::is_wf_document(orig);
    let text = match ser(xot, root) {
        Err(p) => {
            ctx.violation(
                "serialisation panicked",
                format!("{}/{}/to_string/panic/{}", prop, how, p.sig()),
                J::obj().set("tree", orig.to_json()).set("panic", J::s(p.short())),
            );
            return;
        }
        Ok(Err(e)) => {
            ctx.violation(
                "serialisation of a representable tree failed",
                format!("{}/{}/to_string/error/{}", prop, how, err_variant(&e)),
                J::obj().set("tree", orig.to_json()).set("error", J::s(format!("{:?}", e))),
            );
            return;
        }
        Ok(Ok(t)) => t,
    };
    ctx.count("serialised");
    // write() must give the same bytes
    // (every other case through a writer that takes only a few bytes per call, as a pipe or socket may)
    let mut cw = ChunkWriter::new(if ctx.cur_case % 2 == 0 { usize::MAX } else { 1 + (ctx.cur_case % 11) as usize });
    let wr = guard(|| xot.write(root, &mut cw));
    let buf = cw.buf;
    match wr {
        Ok(Ok(())) => {
            if buf != text.as_bytes() {
                ctx.violation(
                    "write() and to_string() differ",
                    format!("{}/{}/write-vs-to_string/bytes-differ", prop, how),
                    J::obj().set("tree", orig.to_json()).set("to_string", J::s(text.clone())),
                );
            }
        }
        other => {
            ctx.violation(
                "write() failed where to_string() succeeded",
                format!("{}/{}/write/failed", prop, how),
                J::obj().set("tree", orig.to_json()).set("result", J::s(format!("{:?}", other.map(|r| r.map_err(|e| format!("{:?}", e))).map_err(|p| p.short())))),
            );
        }
    }
    let mut entry_points: Vec<&str> = Vec::new();
    if wf {
        entry_points.push("parse");
        if ctx.cur_case % 4 == 0 {
            entry_points.push("parse_fragment");
        }
        if ctx.cur_case % 3 == 0 {
            // the bytes write() produced, through the byte entry point (encoding detection must see UTF-8)
            entry_points.push("parse_bytes");
        }
    } else {
        entry_points.push("parse_fragment");
    }
    let expected = orig.norm_sets();
    for ep in entry_points {
        let mut x2 = Xot::new();
        let r = guard(|| match ep {
            "parse" => x2.parse(&text),
            "parse_bytes" => x2.parse_bytes(&buf),
            _ => x2.parse_fragment(&text),
        });
        let doc2 = match r {
            Err(p) => {
                ctx.violation(
                    "parser panicked on serialiser output",
                    format!("{}/{}/{}/panic/{}", prop, how, ep, p.sig()),
                    J::obj().set("tree", orig.to_json()).set("text", J::s(text.clone())).set("panic", J::s(p.short())),
                );
                continue;
            }
            Ok(Err(e)) => {
                ctx.violation(
                    "serialiser output rejected by the parser",
                    format!("{}/{}/{}/rejected/{}", prop, how, ep, parse_err_variant(&e)),
                    J::obj().set("tree", orig.to_json()).set("text", J::s(text.clone())).set("error", J::s(format!("{:?}", e))),
                );
                continue;
            }
            Ok(Ok(d)) => d,
        };
        ctx.count("reparsed");
        match snap_guarded(&x2, doc2) {
            Err(e) => ctx.violation(
                "reparsed tree cannot be read back",
                format!("{}/{}/{}/readback-failed", prop, how, ep),
                J::obj().set("text", J::s(text.clone())).set("error", J::s(e)),
            ),
            Ok(got) => {
                let got_n = got.norm_sets();
                if got_n != expected {
                    let d = first_diff(&expected, &got_n).unwrap_or_default();
                    let class = diff_class(&d);
                    let cause = if gen::has_unns_under_default(orig)
                        && apply_unns_hypothesis(orig).norm_sets() == got_n
                    {
                        "unns-element-under-default-binding-reparsed-in-default-ns".to_string()
                    } else {
                        "unclassified".to_string()
                    };
                    let sig = if cause == "unclassified" {
                        format!("{}/{}/{}/differs/{}/{}", prop, how, ep, class, cause)
                    } else {
                        format!("{}/reparse-differs/{}/{}", prop, class, cause)
                    };
                    ctx.violation(
                        "reparsed tree differs from the original",
                        sig,
                        J::obj()
                            .set("tree", orig.to_json())
                            .set("text", J::s(text.clone()))
                            .set("reparsed", got.to_json())
                            .set("first_difference", J::s(d)),
                    );
                } else {
                    ctx.count("roundtrips_equal");
                }
            }
        }
    }
}

impl Monitor for C01 {
    fn id(&self) -> &'static str {
        "C01"
    }
    fn streams(&self, tier: Tier, budget: f64) -> Vec<Stream> {
        let n = match tier {
            Tier::Quick => 400_000,
            Tier::Thorough => 3_000_000,
        };
        vec![
            Stream::new("forced", (forced_docs().len() * ROUTES.len()) as u64),
            Stream::new("api", scaled(n, budget)),
            Stream::new("via-parse", scaled(n / 4, budget)),
            Stream::new("via-manipulation", scaled(n / 8, budget)),
        ]
    }
    fn rule(&self) -> String {
        "abstract documents/fragments drawn from the hostile generator (DESIGN §3.1), filtered to the XML-representable \
         domain, realised through the creation API in one of four construction orders and three attribute styles; \
         a case is non-trivial when the tree has >= 3 nodes and serialised successfully; distinct by structural hash \
         of the abstract tree"
            .to_string()
    }
    fn floors(&self, _tier: Tier) -> Vec<(&'static str, u64)> {
        vec![("serialised", 1000), ("reparsed", 1000), ("feature.namespaced", 100), ("feature.fragment", 100), ("trees_obtained_by_parsing", 1000), ("trees_obtained_by_manipulation", 1000)]
    }
    fn assumptions(&self) -> Vec<String> {
        vec![
            "the harness's own read-back (snap) and abstract-tree equality are correct".into(),
            "tree sizes <= 40 ordinary nodes, depth <= 8, strings <= 12 pieces of the hostile alphabet".into(),
        ]
    }
    fn run_case(&self, stream: usize, idx: u64, rng: &mut Rng, ctx: &mut Ctx) {
        if stream == 2 {
            // trees obtained by parsing a random spelling
            let cfg = gen_cfg(rng);
            let doc = gen::gen_document(rng, &cfg);
            if !crate::render::renderable(&doc) {
                ctx.count("outside_domain");
                return;
            }
            let wf = gen::is_wf_document(&doc);
            let opts = crate::render::RenderOpts { fragment: !wf, allow_decl: wf, allow_bom: false, ..Default::default() };
            let r = crate::render::render(&doc, &mut crate::render::RandomChoices(rng), &opts);
            let mut xot = Xot::new();
            let parsed = guard(|| if wf { xot.parse(&r.text) } else { xot.parse_fragment(&r.text) });
            if let Ok(Ok(d)) = parsed {
                if let Ok(t) = snap_guarded(&xot, d) {
                    if gen::c01_domain(&t).is_ok() {
                        ctx.count("in_domain");
                        ctx.count("trees_obtained_by_parsing");
                        if t.count() >= 3 {
                            ctx.nontrivial(t.structural_hash());
                        }
                        roundtrip_check(ctx, &mut xot, d, &t, "parsed");
                    }
                }
            }
            return;
        }
        if stream == 3 {
            // trees obtained by manipulation: a random forest, 1-10 precondition-satisfying calls, every tree that
            // is still inside the representable domain afterwards
            use crate::driver::{exec, Forest, OpGen};
            let mut f = match guard(|| Forest::random(rng, false, true)) {
                Ok(Ok(f)) => f,
                _ => return,
            };
            let gen_ops = OpGen { legal_only: true, allow_consolidation_toggle: false, allow_unmodelled: true };
            for _ in 0..rng.range(1, 10) {
                if let Ok(Some(op)) = guard(|| gen_ops.gen(&f, rng)) {
                    let _ = exec(&mut f.xot, &op);
                }
            }
            let roots: Vec<xot::Node> = f.live_handles().into_iter().filter(|n| f.xot.parent(*n).is_none() && f.xot.is_document(*n)).collect();
            for r in roots {
                if let Ok(t) = snap_guarded(&f.xot, r) {
                    if gen::c01_domain(&t).is_ok() && !t.children.is_empty() {
                        ctx.count("in_domain");
                        ctx.count("trees_obtained_by_manipulation");
                        if t.count() >= 3 {
                            ctx.nontrivial(t.structural_hash());
                        }
                        let mut x = std::mem::take(&mut f.xot);
                        roundtrip_check(ctx, &mut x, r, &t, "manipulated");
                        f.xot = x;
                    } else {
                        ctx.count("outside_domain");
                    }
                }
            }
            return;
        }
        let (doc, route) = if stream == 0 {
            let docs = forced_docs();
            let d = docs[(idx as usize) / ROUTES.len()].clone();
            (d, ROUTES[(idx as usize) % ROUTES.len()])
        } else {
            let cfg = gen_cfg(rng);
            (gen::gen_document(rng, &cfg), *rng.pick(&ROUTES))
        };
        if let Err(why) = gen::c01_domain(&doc) {
            ctx.count("outside_domain");
            ctx.count(&format!("outside_domain.{}", why.split(' ').take(3).collect::<Vec<_>>().join("_")));
            return;
        }
        ctx.count("in_domain");
        let mut doc = doc;
        if stream != 0 && rng.chance(1, 15) && gen::is_wf_document(&doc) {
            // a leading processing instruction that looks like an XML declaration to a careless encoding sniffer
            let t = *rng.pick(&["xml-stylesheet", "xml-model", "xmlx"]);
            let d = *rng.pick(&[" encoding=\"ISO-8859-1\" title=\"\u{e9}\u{44f}\"", "version=\"1.0\" encoding='koi8-r' \u{e9}", "encoding=\"UTF-16\" \u{20ac}"]);
            doc.children.insert(0, ANode::pi(t, Some(d.trim_start())));
            ctx.count("leading_pi_resembling_a_declaration");
        }
        if stream != 0 && rng.chance(1, 20) && add_xml_alias(&mut doc, rng) {
            // a second binding of the XML namespace (prefix zx, or as the default namespace): only xmlns:xml may be left out
            ctx.count("trees_with_a_second_binding_of_the_xml_namespace");
        }
        if rng.chance(1, 12) && inject_cr(&mut doc, rng) {
            ctx.count("carriage_return_in_comment_or_pi");
        }
        let style = *rng.pick(&crate::build::STYLES);
        let mut xot = Xot::new();
        let built = match guard(|| build::build(&mut xot, &doc, route, style)) {
            Ok(Ok(h)) => h,
            Ok(Err(e)) => {
                ctx.violation(
                    "construction through the creation API failed",
                    format!("C01/build/{:?}/error", route),
                    J::obj().set("tree", doc.to_json()).set("error", J::s(e)),
                );
                return;
            }
            Err(p) => {
                ctx.violation(
                    "construction through the creation API panicked",
                    format!("C01/build/{:?}/panic/{}", route, p.sig()),
                    J::obj().set("tree", doc.to_json()).set("panic", J::s(p.short())),
                );
                return;
            }
        };
        // the built tree must read back as the abstract document (otherwise nothing below means anything)
        match snap_guarded(&xot, built.node) {
            Ok(t) if t == doc => {}
            Ok(t) => {
                ctx.violation(
                    "tree built through the creation API does not read back as requested",
                    format!("C01/build/{:?}/readback-differs/{}", route, diff_class(&first_diff(&doc, &t).unwrap_or_default())),
                    J::obj().set("tree", doc.to_json()).set("read_back", t.to_json()),
                );
                return;
            }
            Err(e) => {
                ctx.violation(
                    "tree built through the creation API cannot be read back",
                    format!("C01/build/{:?}/readback-failed", route),
                    J::obj().set("tree", doc.to_json()).set("error", J::s(e)),
                );
                return;
            }
        }
        if doc.count() >= 3 {
            ctx.nontrivial(doc.structural_hash());
        }
        let mut has_ns = false;
        doc.walk(&mut |n| {
            if !n.decls.is_empty() {
                has_ns = true
            }
        });
        if has_ns {
            ctx.count("feature.namespaced");
        }
        if !gen::is_wf_document(&doc) {
            ctx.count("feature.fragment");
        }
        if gen::has_unns_under_default(&doc) {
            ctx.count("feature.unns_under_default");
        }
        roundtrip_check(ctx, &mut xot, built.node, &doc, "api");
        // an inner element serialised on its own (it stays in its tree): the text must be accepted and mean the same
        // subtree; the serialiser adds the inherited declarations the names need on the top element
        if !ctx.has_violation_in_case() && !gen::has_unns_under_default(&doc) {
            let pairs: Vec<(xot::Node, &ANode)> = {
                fn rec<'a>(a: &'a ANode, h: &crate::snap::HTree, out: &mut Vec<(xot::Node, &'a ANode)>, top: bool) {
                    if a.kind == AKind::Elem && !top {
                        out.push((h.node, a));
                    }
                    for (c, hc) in a.children.iter().zip(h.children.iter()) {
                        rec(c, hc, out, false);
                    }
                }
                let mut v = Vec::new();
                rec(&doc, &built, &mut v, true);
                v
            };
            if !pairs.is_empty() {
                let (n, sub) = pairs[rng.below(pairs.len())];
                match ser(&xot, n) {
                    Ok(Ok(text)) => {
                        let mut x2 = Xot::new();
                        match guard(|| x2.parse(&text)).map(|r| r.map_err(|e| format!("{:?}", e))) {
                            Ok(Ok(d2)) => {
                                if let Ok(got) = snap_guarded(&x2, d2) {
                                    let want = ANode::doc(vec![sub.clone()]).canon();
                                    if got.canon() != want {
                                        ctx.violation(
                                            "an inner element serialised on its own reparses to another subtree",
                                            format!("C01/inner-element/parse/differs/{}", diff_class(&first_diff(&want, &got.canon()).unwrap_or_default())),
                                            J::obj().set("tree", doc.to_json()).set("element", sub.to_json()).set("text", J::s(trunc(&text, 800))),
                                        );
                                        return;
                                    }
                                    ctx.count("inner_elements_roundtripped");
                                }
                            }
                            other => {
                                ctx.violation(
                                    "the serialisation of an inner element is rejected by the parser",
                                    "C01/inner-element/parse/rejected".to_string(),
                                    J::obj().set("tree", doc.to_json()).set("element", sub.to_json()).set("text", J::s(trunc(&text, 800))).set("outcome", J::s(format!("{:?}", other.map(|r| r.map(|_| ())).map_err(|p| p.short())))),
                                );
                                return;
                            }
                        }
                    }
                    Ok(Err(e)) => {
                        ctx.violation(
                            "an inner element of a representable tree does not serialise on its own",
                            format!("C01/inner-element/to_string/error/{}", err_variant(&e)),
                            J::obj().set("tree", doc.to_json()).set("element", sub.to_json()).set("error", J::s(format!("{:?}", e))),
                        );
                        return;
                    }
                    Err(p) => {
                        ctx.violation("serialisation of an inner element panicked", format!("C01/inner-element/to_string/panic/{}", p.sig()), J::obj().set("tree", doc.to_json()).set("panic", J::s(p.short())));
                        return;
                    }
                }
            }
        }
        ctx.sample(|| J::obj().set("tree", doc.to_json()).set("route", J::s(format!("{:?}", route))));
    }
}
