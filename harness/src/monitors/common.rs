//! helpers shared by the monitors

use crate::adoc::ANode;
use crate::engine::{guard, PanicInfo};
use crate::snap;
use xot::{Node, Xot};

pub fn scaled(base: u64, budget: f64) -> u64 {
    ((base as f64) * budget).max(1.0) as u64
}

pub fn err_variant(e: &xot::Error) -> String {
    let s = format!("{:?}", e);
    s.split(|c: char| !c.is_ascii_alphanumeric()).next().unwrap_or("").to_string()
}

pub fn parse_err_variant(e: &xot::ParseError) -> String {
    let s = format!("{:?}", e);
    s.split(|c: char| !c.is_ascii_alphanumeric()).next().unwrap_or("").to_string()
}

/// to_string under guard
pub fn ser(xot: &Xot, n: Node) -> Result<Result<String, xot::Error>, PanicInfo> {
    guard(|| xot.to_string(n))
}

/// guarded snapshot
pub fn snap_guarded(xot: &Xot, n: Node) -> Result<ANode, String> {
    match guard(|| snap::snap_tree(xot, n)) {
        Ok(r) => r,
        Err(p) => Err(format!("panic while reading the tree back: {}", p.short())),
    }
}

pub fn trunc(s: &str, n: usize) -> String {
    if s.chars().count() > n {
        let t: String = s.chars().take(n).collect();
        format!("{}…", t)
    } else {
        s.to_string()
    }
}

/// coarse class of a first_diff message: which feature differs
pub fn diff_class(d: &str) -> &'static str {
    if d.contains(": kind ") {
        "node-kind"
    } else if d.contains(": name ") {
        "name"
    } else if d.contains(": declarations ") {
        "declarations"
    } else if d.contains(": attributes ") {
        "attributes"
    } else if d.contains(": content ") {
        "content"
    } else if d.contains(": PI data ") {
        "pi-data"
    } else if d.contains(" children ") {
        "child-sequence"
    } else {
        "other"
    }
}
