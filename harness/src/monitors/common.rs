//! helpers shared by the monitors

use crate::adoc::ANode;
use crate::engine::{guard, PanicInfo};
use crate::snap;
use xot::{Node, Xot};

pub fn scaled(base: u64, budget: f64) -> u64 {
    ((base as f64) * budget).max(1.0) as u64
}

pub fn err_variant(e: &xot::Error) -> String {
    let s = format!("{:?}", e);
    s.split(|c: char| !c.is_ascii_alphanumeric()).next().unwrap_or("").to_string()
}

pub fn parse_err_variant(e: &xot::ParseError) -> String {
    let s = format!("{:?}", e);
    s.split(|c: char| !c.is_ascii_alphanumeric()).next().unwrap_or("").to_string()
}

/// to_string under guard
pub fn ser(xot: &Xot, n: Node) -> Result<Result<String, xot::Error>, PanicInfo> {
    guard(|| xot.to_string(n))
}

/// guarded snapshot
pub fn snap_guarded(xot: &Xot, n: Node) -> Result<ANode, String> {
    match guard(|| snap::snap_tree(xot, n)) {
        Ok(r) => r,
        Err(p) => Err(format!("panic while reading the tree back: {}", p.short())),
    }
}

pub fn trunc(s: &str, n: usize) -> String {
    if s.chars().count() > n {
        let t: String = s.chars().take(n).collect();
        format!("{}…", t)
    } else {
        s.to_string()
    }
}

/// coarse class of a first_diff message: which feature differs
pub fn diff_class(d: &str) -> &'static str {
    if d.contains(": kind ") {
        "node-kind"
    } else if d.contains(": name ") {
        "name"
    } else if d.contains(": declarations ") {
        "declarations"
    } else if d.contains(": attributes ") {
        "attributes"
    } else if d.contains(": content ") {
        "content"
    } else if d.contains(": PI data ") {
        "pi-data"
    } else if d.contains(" children ") {
        "child-sequence"
    } else {
        "other"
    }
}

/// wrap the (first) top-level element of `doc` in a chain of `depth` unmixed no-namespace elements
pub fn wrap_deep(doc: &mut crate::adoc::ANode, names: &[&str], depth: usize) {
    use crate::adoc::*;
    if let Some(i) = doc.children.iter().position(|c| c.kind == AKind::Elem) {
        let mut cur = doc.children[i].clone();
        for k in 0..depth {
            cur = ANode::elem(QName::plain(names[k % names.len()])).with_children(vec![cur]);
        }
        doc.children[i] = cur;
    }
}

/// insert up to `n` EMPTY text nodes as children of elements, never next to another text node
pub fn sprinkle_empty_text(a: &mut crate::adoc::ANode, rng: &mut crate::rng::Rng, n: &mut usize) {
    use crate::adoc::*;
    if a.kind == AKind::Elem && *n > 0 && rng.chance(1, 3) {
        let pos = rng.below(a.children.len() + 1);
        let left_text = pos > 0 && a.children[pos - 1].kind == AKind::Text;
        let right_text = pos < a.children.len() && a.children[pos].kind == AKind::Text;
        if !left_text && !right_text {
            a.children.insert(pos, ANode::text(""));
            *n -= 1;
        }
    }
    for c in a.children.iter_mut() {
        sprinkle_empty_text(c, rng, n);
    }
}

/// give one element of the tree `n` more attributes (no-namespace names w0, w1, ...): maps beyond 16 / 32 entries
pub fn widen_attrs(a: &mut crate::adoc::ANode, rng: &mut crate::rng::Rng, n: usize) -> bool {
    use crate::adoc::*;
    fn elems(a: &ANode, path: &mut Vec<usize>, out: &mut Vec<Vec<usize>>) {
        if a.kind == AKind::Elem {
            out.push(path.clone());
        }
        for (i, c) in a.children.iter().enumerate() {
            path.push(i);
            elems(c, path, out);
            path.pop();
        }
    }
    let mut paths = Vec::new();
    elems(a, &mut Vec::new(), &mut paths);
    if paths.is_empty() {
        return false;
    }
    let p = paths[rng.below(paths.len())].clone();
    let mut cur = a;
    for i in p {
        cur = &mut cur.children[i];
    }
    for k in 0..n {
        let q = QName::plain(&format!("w{}", k));
        if !cur.attrs.iter().any(|(x, _)| *x == q) {
            cur.attrs.push((q, format!("v{}", k % 3)));
        }
    }
    true
}

/// A normalizer that really changes text and attribute values, like NFD / NFKC would: U+226E becomes '<' + U+0338,
/// the full-width '<' and '&' become the ASCII ones, the ligature U+FB01 becomes "fi". ASCII is left alone.
#[derive(Clone, Copy)]
pub struct TestNormalizer;

pub fn test_normalize(s: &str) -> String {
    let mut out = String::with_capacity(s.len());
    for c in s.chars() {
        match c {
            '\u{226e}' => out.push_str("<\u{338}"),
            '\u{ff1c}' => out.push('<'),
            '\u{ff06}' => out.push('&'),
            '\u{fb01}' => out.push_str("fi"),
            '\u{ff1e}' => out.push('>'),
            '\u{226f}' => out.push_str(">\u{338}"),
            c => out.push(c),
        }
    }
    out
}

impl xot::output::Normalizer for TestNormalizer {
    fn normalize<'a>(&self, content: std::borrow::Cow<'a, str>) -> std::borrow::Cow<'a, str> {
        if content.chars().any(|c| matches!(c, '\u{226e}' | '\u{ff1c}' | '\u{ff06}' | '\u{fb01}' | '\u{ff1e}' | '\u{226f}')) {
            std::borrow::Cow::Owned(test_normalize(&content))
        } else {
            content
        }
    }
}

/// the abstract tree as it looks after normalisation of text and attribute values
pub fn normalize_tree(a: &crate::adoc::ANode) -> crate::adoc::ANode {
    use crate::adoc::*;
    let mut b = a.clone();
    b.walk_mut(&mut |n| {
        if n.kind == AKind::Text {
            n.text = test_normalize(&n.text);
        }
        for (_, v) in n.attrs.iter_mut() {
            *v = test_normalize(v);
        }
    });
    b
}

/// put a carriage return into the body of one comment or processing instruction: the statements treat those bodies
/// as verbatim strings of XML Chars (no line-end normalisation there)
pub fn inject_cr(a: &mut crate::adoc::ANode, rng: &mut crate::rng::Rng) -> bool {
    use crate::adoc::*;
    let mut n = 0;
    a.walk(&mut |x| {
        if x.kind == AKind::Comment || (x.kind == AKind::Pi && x.data.is_some()) {
            n += 1;
        }
    });
    if n == 0 {
        return false;
    }
    let target = rng.below(n);
    let piece = *rng.pick(&["\rz", "\r\nz", "y\r", "\r\r\n"]);
    let mut seen = 0;
    a.walk_mut(&mut |x| {
        if x.kind == AKind::Comment {
            if seen == target {
                x.text.push_str(piece);
                if x.text.ends_with('-') {
                    x.text.push('b');
                }
            }
            seen += 1;
        } else if x.kind == AKind::Pi && x.data.is_some() {
            if seen == target {
                if let Some(d) = x.data.as_mut() {
                    d.push_str(piece);
                }
            }
            seen += 1;
        }
    });
    true
}

/// split up to `n` text nodes into two ADJACENT text nodes (trees only the API can build, with consolidation off);
/// a split right after "]]" or "]" is preferred
pub fn split_text_nodes(a: &mut crate::adoc::ANode, rng: &mut crate::rng::Rng, n: &mut usize) {
    use crate::adoc::*;
    let mut i = 0;
    while i < a.children.len() {
        if *n > 0 && a.children[i].kind == AKind::Text && a.children[i].text.chars().count() >= 2 && rng.chance(1, 2) {
            let chars: Vec<char> = a.children[i].text.chars().collect();
            let mut cut = 1 + rng.below(chars.len() - 1);
            if let Some(p) = a.children[i].text.find("]]") {
                let c = a.children[i].text[..p + 2].chars().count();
                if c < chars.len() && rng.chance(2, 3) {
                    cut = c;
                }
            }
            let left: String = chars[..cut].iter().collect();
            let right: String = chars[cut..].iter().collect();
            a.children[i].text = left;
            a.children.insert(i + 1, ANode::text(&right));
            *n -= 1;
            i += 1;
        }
        i += 1;
    }
    for c in a.children.iter_mut() {
        split_text_nodes(c, rng, n);
    }
}

/// give up to two declaration-free elements the (redundant, legal) declaration xmlns:xml="http://www.w3.org/XML/1998/namespace"
/// as their ONLY declaration: serialisers never write it, scope stacks must still stay balanced around it
pub fn add_xml_only_decl(a: &mut crate::adoc::ANode, rng: &mut crate::rng::Rng) -> bool {
    use crate::adoc::*;
    let mut n = 0;
    a.walk(&mut |x| {
        if x.kind == AKind::Elem && x.decls.is_empty() {
            n += 1;
        }
    });
    if n == 0 {
        return false;
    }
    let t1 = rng.below(n);
    let t2 = rng.below(n);
    let mut seen = 0;
    a.walk_mut(&mut |x| {
        if x.kind == AKind::Elem && x.decls.is_empty() {
            if seen == t1 || seen == t2 {
                x.decls.push(("xml".to_string(), XML_NS.to_string()));
            }
            seen += 1;
        }
    });
    true
}

/// An `io::Write` that takes at most `limit` bytes per call, as pipes, sockets and rate-limited writers do: whoever
/// writes to it has to look at the count `write` returns (or use `write_all`)
pub struct ChunkWriter {
    pub buf: Vec<u8>,
    pub limit: usize,
    pub calls: u64,
}

impl ChunkWriter {
    pub fn new(limit: usize) -> Self {
        ChunkWriter { buf: Vec::new(), limit: limit.max(1), calls: 0 }
    }
}

impl std::io::Write for ChunkWriter {
    fn write(&mut self, data: &[u8]) -> std::io::Result<usize> {
        self.calls += 1;
        let n = data.len().min(self.limit);
        self.buf.extend_from_slice(&data[..n]);
        Ok(n)
    }
    fn flush(&mut self) -> std::io::Result<()> {
        Ok(())
    }
}

/// Bind the XML namespace a second time: another prefix (`zx`) declared on a random element with an attribute of the
/// XML namespace on it or below it, or - on an element without element children - the XML namespace as the default
/// namespace with the element itself in it. Only `xmlns:xml` may be left out of the output; these may not.
pub fn add_xml_alias(a: &mut crate::adoc::ANode, rng: &mut crate::rng::Rng) -> bool {
    use crate::adoc::*;
    let mut n = 0;
    a.walk(&mut |x| {
        if x.kind == AKind::Elem {
            n += 1;
        }
    });
    if n == 0 {
        return false;
    }
    let target = rng.below(n);
    let as_default = rng.chance(1, 3);
    let below = rng.bool();
    let mut seen = 0;
    let mut done = false;
    a.walk_mut(&mut |x| {
        if x.kind != AKind::Elem {
            return;
        }
        if seen == target {
            let leafish = !x.children.iter().any(|c| c.kind == AKind::Elem);
            if as_default && leafish && !x.decls.iter().any(|(p, _)| p.is_empty()) {
                x.decls.push((String::new(), XML_NS.to_string()));
                x.name = QName { ns: XML_NS.to_string(), local: x.name.local.clone() };
                done = true;
            } else if !x.decls.iter().any(|(p, _)| p == "zx") {
                x.decls.push(("zx".to_string(), XML_NS.to_string()));
                let lang = QName { ns: XML_NS.to_string(), local: "lang".to_string() };
                let holder: &mut ANode = if below {
                    match x.children.iter().position(|c| c.kind == AKind::Elem) {
                        Some(i) => &mut x.children[i],
                        None => x,
                    }
                } else {
                    x
                };
                if !holder.attrs.iter().any(|(q, _)| *q == lang) {
                    holder.attrs.push((lang, "en".to_string()));
                }
                done = true;
            }
        }
        seen += 1;
    });
    done
}

/// An `io::Write` that takes `room` bytes and then fails every call ("no space left on device"): a Write-based entry
/// point has to hand that failure back as an error
pub struct FailingWriter {
    pub room: usize,
    pub taken: usize,
    pub failures: u64,
}

impl FailingWriter {
    pub fn new(room: usize) -> Self {
        FailingWriter { room, taken: 0, failures: 0 }
    }
}

impl std::io::Write for FailingWriter {
    fn write(&mut self, data: &[u8]) -> std::io::Result<usize> {
        if self.taken >= self.room {
            self.failures += 1;
            return Err(std::io::Error::new(std::io::ErrorKind::Other, "no space left on device"));
        }
        let n = data.len().min(self.room - self.taken).max(1);
        self.taken += n;
        Ok(n)
    }
    fn flush(&mut self) -> std::io::Result<()> {
        Ok(())
    }
}
