//! C14 — serialisation options change the spelling, never the content.
//! C16 — token and output-event streams reproduce the string serialisation.

use super::common::*;
use crate::adoc::*;
use crate::build::{self, AttrStyle, ROUTES};
use crate::engine::{guard, Ctx, Monitor, Stream, Tier};
use crate::gen::{self, GenCfg, NsMode, Scope, TextProfile};
use crate::json::J;
use crate::rng::Rng;
use crate::snap::{self, HTree};
use std::io::Write;
use xot::output::xml::{Declaration, Parameters};
use xot::output::{Indentation, NoopNormalizer, Output, TokenSerializeParameters};
use xot::{NameId, Node, Xot};

#[derive(Clone, Copy, PartialEq, Eq)]
pub enum SW {
    C14,
    C16,
}

pub struct Ser(pub SW);

fn gen_tree(rng: &mut Rng) -> ANode {
    loop {
        let mut cfg = GenCfg::default();
        cfg.max_nodes = if crate::engine::legs_mode() { 5 } else { *rng.pick(&[3, 8, 16, 30]) };
        cfg.max_depth = *rng.pick(&[2, 4, 6]);
        cfg.ns_mode = if rng.chance(1, 3) { NsMode::None } else { NsMode::Consistent };
        cfg.text = match rng.below(4) {
            0 => TextProfile::Brackets,
            1 => TextProfile::Hostile,
            2 => TextProfile::Whitespace,
            _ => TextProfile::Plain,
        };
        cfg.str_len = 6;
        cfg.xml_space = rng.chance(1, 2);
        cfg.fragment = rng.chance(1, 5);
        cfg.max_children = 4;
        cfg.pct_unns_under_default = 0;
        let d = gen::gen_document(rng, &cfg);
        if gen::c01_domain(&d).is_ok() && !gen::has_unns_under_default(&d) {
            return d;
        }
    }
}

fn element_names(a: &ANode) -> Vec<QName> {
    let mut v: Vec<QName> = Vec::new();
    a.walk(&mut |n| {
        if n.kind == AKind::Elem && !v.contains(&n.name) {
            v.push(n.name.clone());
        }
    });
    v
}

fn subset(rng: &mut Rng, names: &[QName]) -> Vec<QName> {
    match rng.below(4) {
        0 => Vec::new(),
        1 => names.to_vec(),
        _ => names.iter().filter(|_| rng.chance(1, 3)).cloned().collect(),
    }
}

fn ids(xot: &mut Xot, names: &[QName]) -> Vec<NameId> {
    names
        .iter()
        .map(|q| {
            let ns = xot.add_namespace(&q.ns);
            xot.add_name_ns(&q.local, ns)
        })
        .collect()
}

struct OneByteWriter(Vec<u8>);
impl Write for OneByteWriter {
    fn write(&mut self, buf: &[u8]) -> std::io::Result<usize> {
        if buf.is_empty() {
            return Ok(0);
        }
        self.0.push(buf[0]);
        Ok(1)
    }
    fn flush(&mut self) -> std::io::Result<()> {
        Ok(())
    }
}

/// whitespace diff (Appendix C): `o` original, `r` reparsed; returns a description of the first
/// illegal difference. `mixed` / `preserve` / `suppressed`: state inherited from the ancestors.
fn ws_diff(o: &ANode, r: &ANode, mixed: bool, preserve: bool, suppressed: bool, suppress: &[QName], inserted: &mut u64) -> Option<(&'static str, String)> {
    if o.kind != r.kind || o.name != r.name || o.text != r.text || o.data != r.data {
        return Some(("content-changed", format!("node {} became {}", trunc(&o.show(), 120), trunc(&r.show(), 120))));
    }
    let mut oa = o.attrs.clone();
    let mut ra = r.attrs.clone();
    oa.sort();
    ra.sort();
    if oa != ra {
        return Some(("content-changed", format!("attributes of {} changed", o.name.clark())));
    }
    let mut mixed = mixed;
    let mut preserve = preserve;
    let mut suppressed = suppressed;
    if o.kind == AKind::Elem {
        if o.children.iter().any(|c| c.kind == AKind::Text) {
            mixed = true;
        }
        if let Some((_, v)) = o.attrs.iter().find(|(q, _)| q.ns == XML_NS && q.local == "space") {
            preserve = v == "preserve";
        }
        if suppress.contains(&o.name) {
            suppressed = true;
        }
    }
    let mut i = 0;
    for rc in &r.children {
        let matches_next = o.children.get(i).map(|oc| oc.kind == rc.kind && (rc.kind != AKind::Text || oc.text == rc.text)).unwrap_or(false);
        let ws_only = rc.kind == AKind::Text && !rc.text.is_empty() && rc.text.chars().all(|c| c == ' ' || c == '\n');
        if ws_only && !matches_next {
            // an inserted whitespace-only text node
            *inserted += 1;
            if o.kind == AKind::Doc {
                continue;
            }
            if mixed {
                return Some(("whitespace-inside-mixed-content", format!("whitespace {:?} added inside {} (an element with text children is on the path)", rc.text, o.name.clark())));
            }
            if preserve {
                return Some(("whitespace-inside-xml-space-preserve", format!("whitespace {:?} added inside {} within the scope of xml:space=\"preserve\"", rc.text, o.name.clark())));
            }
            if suppressed {
                return Some(("whitespace-inside-suppressed-element", format!("whitespace {:?} added inside {} (suppress list)", rc.text, o.name.clark())));
            }
            continue;
        }
        match o.children.get(i) {
            None => return Some(("content-changed", format!("extra node {} under {}", trunc(&rc.show(), 100), o.name.clark()))),
            Some(oc) => {
                if let Some(d) = ws_diff(oc, rc, mixed, preserve, suppressed, suppress, inserted) {
                    return Some(d);
                }
                i += 1;
            }
        }
    }
    if i != o.children.len() {
        return Some(("content-changed", format!("{} children of {} are missing after the round trip", o.children.len() - i, o.name.clark())));
    }
    None
}

fn sub_anode<'a>(a: &'a ANode, h: &HTree, target: Node) -> Option<&'a ANode> {
    if h.node == target {
        return Some(a);
    }
    for (c, hc) in a.children.iter().zip(h.children.iter()) {
        if let Some(x) = sub_anode(c, hc, target) {
            return Some(x);
        }
    }
    None
}

fn outer_scope(root: &ANode, h: &HTree, target: Node) -> Scope {
    fn rec(a: &ANode, h: &HTree, target: Node, sc: &mut Scope) -> bool {
        if h.node == target {
            return true;
        }
        let pushed = if a.kind == AKind::Elem { sc.push_all(&a.decls) } else { 0 };
        for (c, hc) in a.children.iter().zip(h.children.iter()) {
            if rec(c, hc, target, sc) {
                return true;
            }
        }
        sc.pop_n(pushed);
        false
    }
    let mut sc = Scope::new();
    rec(root, h, target, &mut sc);
    sc
}

impl Ser {
    fn c14(&self, rng: &mut Rng, ctx: &mut Ctx, forced: Option<(ANode, Vec<QName>)>) {
        let (a, forced_cdata) = match forced {
            Some((a, c)) => (a, Some(c)),
            None => {
                let mut t = gen_tree(rng);
                if t.kind == AKind::Doc && !crate::engine::legs_mode() && rng.chance(1, 10) {
                    wrap_deep(&mut t, &["w", "v"], *rng.pick(&[15, 16, 17, 31, 32, 33, 34, 64, 65, 130]));
                    ctx.count("deep_chain_trees");
                }
                (t, None)
            }
        };
        if a.count() >= 3 {
            ctx.nontrivial(a.structural_hash() ^ rng.next_u64());
        }
        let mut xot = Xot::new();
        let built = match guard(|| build::build(&mut xot, &a, *rng.pick(&ROUTES), AttrStyle::Map)) {
            Ok(Ok(h)) => h,
            _ => {
                ctx.count("build_failed");
                return;
            }
        };
        let names = element_names(&a);
        let cdata = forced_cdata.unwrap_or_else(|| subset(rng, &names));
        let suppress = subset(rng, &names);
        let unescaped_gt = rng.bool();
        let wf = gen::is_wf_document(&a);
        let indent = rng.bool();
        // target: the document, or (for the indentation clause too) an element subtree
        let flat = built.flat();
        let elems: Vec<Node> = flat.iter().copied().filter(|n| xot.is_element(*n)).collect();
        let use_element = !elems.is_empty() && (rng.chance(1, 4) || (indent && !wf));
        let target = if use_element { elems[rng.below(elems.len())] } else { built.node };
        let sub = match sub_anode(&a, &built, target) {
            Some(s) => s.clone(),
            None => return,
        };
        let is_doc_target = sub.kind == AKind::Doc;
        let decl = if is_doc_target && wf {
            match rng.below(5) {
                0 | 1 => None,
                2 => Some(Declaration { encoding: None, standalone: None }),
                3 => Some(Declaration { encoding: Some("UTF-8".into()), standalone: Some(rng.bool()) }),
                _ => Some(Declaration { encoding: Some("ISO-8859-1".into()), standalone: None }),
            }
        } else {
            None
        };
        // a doctype declaration for the document element (documents with an element, and element targets)
        let doctype_ok = sub.kind == AKind::Elem || (sub.kind == AKind::Doc && gen::is_wf_document(&sub));
        let doctype = if doctype_ok && rng.chance(1, 6) {
            Some(if rng.bool() {
                xot::output::xml::DocType::System { system: "urn:x:a.dtd".to_string() }
            } else {
                xot::output::xml::DocType::Public { public: "-//X//DTD a//EN".to_string(), system: "a.dtd".to_string() }
            })
        } else {
            None
        };
        let params = Parameters {
            indentation: if indent { Some(Indentation { suppress: ids(&mut xot, &suppress) }) } else { None },
            cdata_section_elements: ids(&mut xot, &cdata),
            declaration: decl.clone(),
            doctype: doctype.clone(),
            unescaped_gt,
        };
        let pdesc = format!(
            "indentation={} suppress={:?} cdata_section_elements={:?} unescaped_gt={} declaration={:?}",
            indent,
            suppress.iter().map(|q| q.clark()).collect::<Vec<_>>(),
            cdata.iter().map(|q| q.clark()).collect::<Vec<_>>(),
            unescaped_gt,
            decl
        );
        let base = |what: String, text: &str| J::obj().set("tree", sub.to_json()).set("parameters", J::s(pdesc.clone())).set("output", J::s(trunc(text, 1200))).set("what", J::s(what));
        // one case in three (no declaration requested) takes the text from the token entry points instead:
        // the options must mean the same there
        let via_tokens = decl.is_none() && doctype.is_none() && rng.chance(1, 3);
        if via_tokens {
            ctx.count("serialised.via_token_entry_points");
        }
        // one case in four goes through a normalizer that really changes text and attribute values (what has to come back
        // is then the normalised tree: escaping applies to the normaliser's result), one in four through the Write-based
        // entry point into a writer that takes a few bytes per call
        let with_norm14 = !via_tokens && rng.chance(1, 4);
        let through_writer = !via_tokens && rng.chance(1, 4);
        if with_norm14 {
            ctx.count("serialised.with_a_changing_normalizer");
        }
        if through_writer {
            ctx.count("serialised.through_a_chunking_writer");
        }
        let sub_expected = if with_norm14 { normalize_tree(&sub) } else { sub.clone() };
        let text = match guard(|| {
            if through_writer {
                let mut cw = ChunkWriter::new(1 + (pdesc.len() % 9));
                let r = if with_norm14 { xot.serialize_xml_write_with_normalizer(params.clone(), target, &mut cw, TestNormalizer) } else { xot.serialize_xml_write(params.clone(), target, &mut cw) };
                return r.map(|_| String::from_utf8_lossy(&cw.buf).into_owned());
            }
            if with_norm14 {
                return xot.serialize_xml_string_with_normalizer(params.clone(), target, TestNormalizer);
            }
            if !via_tokens {
                return xot.serialize_xml_string(params.clone(), target);
            }
            let tp = TokenSerializeParameters { cdata_section_elements: params.cdata_section_elements.clone(), unescaped_gt };
            let mut s = String::new();
            if let Some(ind) = &params.indentation {
                for (_n, _o, t) in xot.pretty_tokens(target, tp, &ind.suppress, NoopNormalizer) {
                    for _ in 0..t.indentation * 2 {
                        s.push(' ');
                    }
                    if t.space {
                        s.push(' ');
                    }
                    s.push_str(&t.text);
                    if t.newline {
                        s.push('\n');
                    }
                }
            } else {
                for (_n, _o, t) in xot.tokens(target, tp, NoopNormalizer) {
                    if t.space {
                        s.push(' ');
                    }
                    s.push_str(&t.text);
                }
            }
            Ok(s)
        }) {
            Ok(Ok(t)) => t,
            Ok(Err(e)) => {
                ctx.violation(
                    "serialisation with options failed on a representable tree",
                    format!("C14/serialise/error/{}", err_variant(&e)),
                    base(format!("{:?}", e), ""),
                );
                return;
            }
            Err(p) => {
                ctx.violation("serialisation with options panicked", format!("C14/serialise/panic/{}", p.sig()), base(p.short(), ""));
                return;
            }
        };
        // the doctype declaration: exactly one, in front of everything but the XML declaration; it is taken out again
        // before the text goes back to the parser (which does not accept DTDs)
        let text = if doctype.is_some() {
            ctx.count("with_doctype");
            let at = text.find("<!DOCTYPE");
            let body_start = text.find("?>").filter(|_| text.starts_with("<?xml")).map(|i| i + 2).unwrap_or(0);
            match at {
                Some(i) if text[body_start..i].trim().is_empty() && text.matches("<!DOCTYPE").count() == 1 => {
                    let end = text[i..].find('>').map(|j| i + j + 1).unwrap_or(text.len());
                    let mut rest = text[end..].to_string();
                    if rest.starts_with('\n') {
                        rest.remove(0);
                    }
                    format!("{}{}", &text[..i], rest)
                }
                _ => {
                    ctx.violation(
                        "the requested doctype declaration is missing, repeated or not in front of the content",
                        "C14/doctype/misplaced".to_string(),
                        base(String::new(), &text),
                    );
                    return;
                }
            }
        } else {
            text
        };
        ctx.count(if indent { "serialised.indented" } else { "serialised.plain" });
        if !cdata.is_empty() {
            ctx.count("with_cdata_section_elements");
        }
        if decl.is_some() {
            ctx.count("with_declaration");
        }
        // reparse
        let as_document = is_doc_target && wf || sub.kind == AKind::Elem;
        if indent && !as_document {
            // the indentation clause ranges over well-formed documents and element-rooted subtrees
            ctx.count("indentation_on_fragment_not_judged");
            return;
        }
        let mut x2 = Xot::new();
        let r = guard(|| if as_document { x2.parse(&text) } else { x2.parse_fragment(&text) });
        let d2 = match r {
            Ok(Ok(d)) => d,
            other => {
                let cause = if cdata.is_empty() { "no-cdata-elements" } else { "with-cdata-elements" };
                ctx.violation(
                    "output produced with options is rejected by the parser",
                    format!("C14/reparse/rejected/{}/{}", if indent { "indented" } else { "plain" }, cause),
                    base(format!("{:?}", other.map(|r| r.map(|_| ()).map_err(|e| format!("{:?}", e))).map_err(|p| p.short())), &text),
                );
                return;
            }
        };
        let got = match snap_guarded(&x2, d2) {
            Ok(t) => t,
            Err(_) => return,
        };
        // what the serialised subtree is expected to be: the subtree, plus (for an inner element) the in-scope
        // declarations the serialiser adds on the top element
        let mut want = if sub_expected.kind == AKind::Doc { sub_expected.clone() } else { ANode::doc(vec![sub_expected.clone()]) };
        let got_cmp = got.canon();
        want = want.canon();
        if !indent {
            if got_cmp != want {
                let d = first_diff(&want, &got_cmp).unwrap_or_default();
                let has_cr = {
                    let mut h = false;
                    sub.walk(&mut |n| {
                        if n.kind == AKind::Text && n.text.contains('\r') {
                            h = true
                        }
                    });
                    h
                };
                let cause = if !cdata.is_empty() && has_cr { "cr-inside-cdata-section-element" } else if !cdata.is_empty() { "with-cdata-elements" } else { "no-cdata-elements" };
                ctx.violation(
                    "an option changed the content",
                    format!("C14/reparse/differs/{}/{}", diff_class(&d), cause),
                    base(d, &text),
                );
                return;
            }
            ctx.count("reparsed_equal.plain");
        } else {
            let mut inserted = 0;
            if let Some((clause, what)) = ws_diff(&want, &got_cmp, false, false, false, &suppress, &mut inserted) {
                ctx.violation(
                    "indentation changed more than it may",
                    format!("C14/indentation/{}", clause),
                    base(what, &text),
                );
                return;
            }
            ctx.add("whitespace_nodes_inserted", inserted);
            ctx.count("reparsed_equal.indented");
        }
        ctx.sample(|| J::obj().set("tree", sub.to_json()).set("parameters", J::s(pdesc.clone())).set("output", J::s(trunc(&text, 400))));
    }

    fn c16(&self, rng: &mut Rng, ctx: &mut Ctx) {
        let mut a = gen_tree(rng);
        let legs = crate::engine::legs_mode();
        // deep unmixed nesting (indentation widths beyond any fixed buffer) and empty text nodes (API-only trees)
        if a.kind == AKind::Doc && rng.chance(1, 8) {
            let depth = if legs { rng.range(2, 5) } else { *rng.pick(&[15, 16, 17, 18, 31, 32, 33, 34, 63, 64, 65, 66, 130]) };
            wrap_deep(&mut a, &["w", "v"], depth);
            ctx.count("deep_chain_trees");
        }
        if rng.chance(1, 5) {
            let mut n = 3;
            sprinkle_empty_text(&mut a, rng, &mut n);
            if n < 3 {
                ctx.count("trees_with_empty_text_nodes");
            }
        }
        // a real declaration that binds another prefix to the XML namespace (the serialiser only leaves xmlns:xml out)
        if rng.chance(1, 12) {
            let mut done = false;
            a.walk_mut(&mut |n| {
                if !done && n.kind == AKind::Elem && !n.decls.iter().any(|(p, _)| p == "zx") {
                    n.decls.push(("zx".to_string(), XML_NS.to_string()));
                    done = true;
                }
            });
            if done {
                ctx.count("trees_with_an_alias_for_the_xml_namespace");
            }
        }
        // adjacent text nodes (consolidation off): "]]" at the end of one and ">" at the start of the next
        let mut adjacent = false;
        if rng.chance(1, 5) {
            let mut n = 3;
            split_text_nodes(&mut a, rng, &mut n);
            if n < 3 {
                adjacent = true;
                ctx.count("trees_with_adjacent_text_nodes");
            }
        }
        if a.count() >= 3 {
            ctx.nontrivial(a.structural_hash() ^ rng.next_u64());
        }
        let mut xot = Xot::new();
        if adjacent {
            xot.set_text_consolidation(false);
        }
        let built = match guard(|| build::build(&mut xot, &a, *rng.pick(&ROUTES), AttrStyle::Map)) {
            Ok(Ok(h)) => h,
            _ => {
                ctx.count("build_failed");
                return;
            }
        };
        let names = element_names(&a);
        let cdata = subset(rng, &names);
        let suppress = subset(rng, &names);
        let unescaped_gt = rng.bool();
        let flat = built.flat();
        let elems: Vec<Node> = flat.iter().copied().filter(|n| xot.is_element(*n)).collect();
        // the whole tree, an element subtree, or (one case in six) a single text / comment / PI node of the tree
        let leaves: Vec<Node> = flat.iter().copied().filter(|n| !xot.is_element(*n) && !xot.is_document(*n)).collect();
        let target = if !leaves.is_empty() && rng.chance(1, 6) {
            ctx.count("single_leaf_targets");
            leaves[rng.below(leaves.len())]
        } else if !elems.is_empty() && rng.chance(1, 2) {
            elems[rng.below(elems.len())]
        } else {
            built.node
        };
        // one case in twenty-five: an attribute or namespace node on its own. Whatever the string API makes of it, the
        // token streams and the writers make the same of it
        let abnormal: Vec<Node> = built.flat_all().into_iter().filter(|n| xot.is_attribute_node(*n) || xot.is_namespace_node(*n)).collect();
        if !abnormal.is_empty() && rng.chance(1, 25) {
            let t = abnormal[rng.below(abnormal.len())];
            let tp = TokenSerializeParameters { cdata_section_elements: vec![], unescaped_gt };
            let sp = Parameters { indentation: None, cdata_section_elements: vec![], declaration: None, doctype: None, unescaped_gt };
            let r = guard(|| {
                let s = xot.serialize_xml_string(sp.clone(), t);
                let mut toks = String::new();
                for (_n, _o, tk) in xot.tokens(t, tp.clone(), NoopNormalizer) {
                    if tk.space {
                        toks.push(' ');
                    }
                    toks.push_str(&tk.text);
                }
                let mut ptoks = String::new();
                for (_n, _o, tk) in xot.pretty_tokens(t, tp.clone(), &[], NoopNormalizer) {
                    for _ in 0..tk.indentation * 2 {
                        ptoks.push(' ');
                    }
                    if tk.space {
                        ptoks.push(' ');
                    }
                    ptoks.push_str(&tk.text);
                    if tk.newline {
                        ptoks.push('\n');
                    }
                }
                let ps = xot.serialize_xml_string(Parameters { indentation: Some(Indentation { suppress: vec![] }), ..sp.clone() }, t);
                let mut cw = ChunkWriter::new(3);
                let w = xot.serialize_xml_write(sp.clone(), t, &mut cw);
                let events = xot.outputs(t).count();
                (s, toks, ps, ptoks, w.is_ok(), cw.buf, events)
            });
            match r {
                Err(p) => ctx.violation("serialising an attribute / namespace node on its own panicked", format!("C16/abnormal-node-target/panic/{}", p.sig()), J::obj().set("tree", a.to_json()).set("panic", J::s(p.short()))),
                Ok((Ok(s), toks, ps, ptoks, w_ok, wbuf, _events)) => {
                    if s != toks || !w_ok || wbuf != s.as_bytes() || ps.as_ref().map_or(false, |p| *p != ptoks) {
                        ctx.violation(
                            "an attribute / namespace node on its own: tokens, writer and string disagree",
                            "C16/abnormal-node-target/differs".to_string(),
                            J::obj().set("tree", a.to_json()).set("what", J::s(format!("string {:?}, tokens {:?}, pretty string {:?}, pretty tokens {:?}, writer ok {} {} bytes", s, toks, ps.ok(), ptoks, w_ok, wbuf.len()))),
                        );
                    } else {
                        ctx.count("attribute_or_namespace_node_targets");
                    }
                }
                Ok((Err(_), ..)) => ctx.count("attribute_or_namespace_node_targets_refused"),
            }
            return;
        }
        let sub = match sub_anode(&a, &built, target) {
            Some(s) => s.clone(),
            None => return,
        };
        let cdata_ids = ids(&mut xot, &cdata);
        let suppress_ids = ids(&mut xot, &suppress);
        let pdesc = format!(
            "suppress={:?} cdata_section_elements={:?} unescaped_gt={}",
            suppress.iter().map(|q| q.clark()).collect::<Vec<_>>(),
            cdata.iter().map(|q| q.clark()).collect::<Vec<_>>(),
            unescaped_gt
        );
        let base = |what: String| J::obj().set("tree", sub.to_json()).set("parameters", J::s(pdesc.clone())).set("what", J::s(what));
        let tparams = TokenSerializeParameters { cdata_section_elements: cdata_ids.clone(), unescaped_gt };
        let sparams = Parameters { indentation: None, cdata_section_elements: cdata_ids.clone(), declaration: None, doctype: None, unescaped_gt };
        let pparams = Parameters { indentation: Some(Indentation { suppress: suppress_ids.clone() }), cdata_section_elements: cdata_ids.clone(), declaration: None, doctype: None, unescaped_gt };
        // one case in three runs every entry point with a normalizer that really changes text and attribute values
        let with_norm = rng.chance(1, 3);
        if with_norm {
            ctx.count("cases_with_a_changing_normalizer");
        }
        let plain = match guard(|| if with_norm { xot.serialize_xml_string_with_normalizer(sparams.clone(), target, TestNormalizer) } else { xot.serialize_xml_string(sparams.clone(), target) }) {
            Ok(Ok(t)) => t,
            _ => {
                ctx.count("not_serialisable_skipped");
                return;
            }
        };
        // tokens
        match guard(|| {
            let mut s = String::new();
            let mut push = |t: xot::output::OutputToken| {
                if t.space {
                    s.push(' ');
                }
                s.push_str(&t.text);
            };
            if with_norm {
                for (_n, _o, t) in xot.tokens(target, tparams.clone(), TestNormalizer) {
                    push(t);
                }
            } else {
                for (_n, _o, t) in xot.tokens(target, tparams.clone(), NoopNormalizer) {
                    push(t);
                }
            }
            s
        }) {
            Ok(s) if s == plain => ctx.count("tokens_equal_string"),
            Ok(s) => {
                ctx.violation("token stream does not reproduce the string serialisation", "C16/tokens/differs".to_string(), base(format!("tokens give {:?}, string API gives {:?}", trunc(&s, 500), trunc(&plain, 500))));
                return;
            }
            Err(p) => {
                ctx.violation("tokens() panicked on a serialisable tree", format!("C16/tokens/panic/{}", p.sig()), base(p.short()));
                return;
            }
        }
        // pretty tokens
        let pretty = match guard(|| if with_norm { xot.serialize_xml_string_with_normalizer(pparams.clone(), target, TestNormalizer) } else { xot.serialize_xml_string(pparams.clone(), target) }) {
            Ok(Ok(t)) => t,
            _ => return,
        };
        match guard(|| {
            let mut s = String::new();
            let mut push = |t: xot::output::PrettyOutputToken| {
                for _ in 0..t.indentation * 2 {
                    s.push(' ');
                }
                if t.space {
                    s.push(' ');
                }
                s.push_str(&t.text);
                if t.newline {
                    s.push('\n');
                }
            };
            if with_norm {
                for (_n, _o, t) in xot.pretty_tokens(target, tparams.clone(), &suppress_ids, TestNormalizer) {
                    push(t);
                }
            } else {
                for (_n, _o, t) in xot.pretty_tokens(target, tparams.clone(), &suppress_ids, NoopNormalizer) {
                    push(t);
                }
            }
            s
        }) {
            Ok(s) if s == pretty => ctx.count("pretty_tokens_equal_string"),
            Ok(s) => {
                ctx.violation("pretty token stream does not reproduce the pretty-printed string", "C16/pretty_tokens/differs".to_string(), base(format!("pretty tokens give {:?}, string API gives {:?}", trunc(&s, 500), trunc(&pretty, 500))));
                return;
            }
            Err(p) => {
                ctx.violation("pretty_tokens() panicked", format!("C16/pretty_tokens/panic/{}", p.sig()), base(p.short()));
                return;
            }
        }
        // writers
        for (label, params) in [("plain", sparams.clone()), ("pretty", pparams.clone())] {
            let want = if label == "plain" { &plain } else { &pretty };
            let mut v: Vec<u8> = Vec::new();
            let mut ob = OneByteWriter(Vec::new());
            let r1 = guard(|| if with_norm { xot.serialize_xml_write_with_normalizer(params.clone(), target, &mut v, TestNormalizer) } else { xot.serialize_xml_write(params.clone(), target, &mut v) });
            let r2 = guard(|| if with_norm { xot.serialize_xml_write_with_normalizer(params.clone(), target, &mut ob, TestNormalizer) } else { xot.serialize_xml_write(params.clone(), target, &mut ob) });
            if !matches!(r1, Ok(Ok(()))) || !matches!(r2, Ok(Ok(()))) || v != want.as_bytes() || ob.0 != want.as_bytes() {
                ctx.violation(
                    "Write-based serialisation emits other bytes than the string API",
                    format!("C16/serialize_xml_write/{}/differs", label),
                    base(format!("Vec writer {} bytes, one-byte writer {} bytes, string {} bytes", v.len(), ob.0.len(), want.len())),
                );
                return;
            }
        }
        {
            let mut v = ChunkWriter::new(1 + rng.below(7));
            let r = guard(|| xot.write(target, &mut v));
            let v = v.buf;
            let ts = guard(|| xot.to_string(target));
            if let (Ok(Ok(())), Ok(Ok(s))) = (&r, &ts) {
                if v != s.as_bytes() {
                    ctx.violation("write() and to_string() differ", "C16/write/differs".to_string(), base(String::new()));
                    return;
                }
            }
        }
        // a writer that runs out of room part-way: the Write-based entry point cannot have emitted "the same bytes",
        // so it has to say so
        if plain.len() >= 2 && rng.chance(1, 8) {
            let room = rng.below(plain.len() - 1);
            let r = guard(|| {
                let mut fw = FailingWriter::new(room);
                let r = if with_norm { xot.serialize_xml_write_with_normalizer(sparams.clone(), target, &mut fw, TestNormalizer) } else { xot.serialize_xml_write(sparams.clone(), target, &mut fw) };
                r.is_ok()
            });
            match r {
                Ok(false) => ctx.count("failing_writer_reported_as_error"),
                other => {
                    ctx.violation(
                        "the writer failed after part of the output and the Write-based entry point did not report it",
                        format!("C16/failing-writer/{}", if other.is_ok() { "reported-ok" } else { "panic" }),
                        base(format!("room for {} of {} bytes: {:?}", room, plain.len(), other.map_err(|p| p.short()))),
                    );
                    return;
                }
            }
        }
        ctx.count("writers_equal_string");
        // with an XML declaration and / or a doctype the string is that prolog followed by exactly the token text
        // of the SAME node (a document keeps the comments and PIs around its document element)
        let doctype_ok = sub.kind == AKind::Elem || (sub.kind == AKind::Doc && sub.children.iter().filter(|c| c.kind == AKind::Elem).count() >= 1);
        if rng.chance(1, 4) {
            let decl = match rng.below(3) {
                0 => None,
                1 => Some(xot::output::xml::Declaration { encoding: None, standalone: None }),
                _ => Some(xot::output::xml::Declaration { encoding: Some("UTF-8".into()), standalone: Some(rng.bool()) }),
            };
            let doctype = if doctype_ok && rng.chance(2, 3) {
                Some(if rng.bool() {
                    xot::output::xml::DocType::System { system: "urn:x:a.dtd".to_string() }
                } else {
                    xot::output::xml::DocType::Public { public: "-//X//DTD a//EN".to_string(), system: "a.dtd".to_string() }
                })
            } else {
                None
            };
            if decl.is_some() || doctype.is_some() {
                for (label, params) in [("plain", sparams.clone()), ("pretty", pparams.clone())] {
                    let want = if label == "plain" { &plain } else { &pretty };
                    let mut params = params;
                    params.declaration = decl.clone();
                    params.doctype = doctype.clone();
                    let full = match guard(|| if with_norm { xot.serialize_xml_string_with_normalizer(params.clone(), target, TestNormalizer) } else { xot.serialize_xml_string(params.clone(), target) }) {
                        Ok(Ok(t)) => t,
                        _ => continue,
                    };
                    let mut cw = ChunkWriter::new(1 + rng.below(5));
                    let wr = guard(|| if with_norm { xot.serialize_xml_write_with_normalizer(params.clone(), target, &mut cw, TestNormalizer) } else { xot.serialize_xml_write(params.clone(), target, &mut cw) });
                    let prolog_ok = |pro: &str| {
                        let mut rest = pro.trim_start_matches('\n');
                        if decl.is_some() {
                            if !rest.starts_with("<?xml ") {
                                return false;
                            }
                            match rest.find("?>") {
                                Some(i) => rest = rest[i + 2..].trim_start_matches('\n'),
                                None => return false,
                            }
                        }
                        if doctype.is_some() {
                            if !rest.starts_with("<!DOCTYPE ") {
                                return false;
                            }
                            match rest.find('>') {
                                Some(i) => rest = rest[i + 1..].trim_start_matches('\n'),
                                None => return false,
                            }
                        }
                        rest.is_empty()
                    };
                    let ok = full.ends_with(want.as_str()) && prolog_ok(&full[..full.len() - want.len()]);
                    if !ok {
                        ctx.violation(
                            "with a declaration / doctype the string is not the prolog followed by the token text of the same node",
                            format!("C16/prolog-plus-tokens/{}/differs", label),
                            base(format!("with prolog {:?}, tokens give {:?}", trunc(&full, 500), trunc(want, 500))),
                        );
                        return;
                    }
                    if !matches!(wr, Ok(Ok(()))) || cw.buf != full.as_bytes() {
                        ctx.violation(
                            "Write-based serialisation emits other bytes than the string API",
                            format!("C16/serialize_xml_write/{}-with-prolog/differs", label),
                            base(format!("chunk writer {} bytes in {} calls, string {} bytes", cw.buf.len(), cw.calls, full.len())),
                        );
                        return;
                    }
                }
                ctx.count("with_declaration_or_doctype");
            }
        }
        // output events: grammar derived from the abstract tree and the scope model
        let outer = outer_scope(&a, &built, target);
        let sub_h = {
            fn find<'a>(h: &'a HTree, t: Node) -> Option<&'a HTree> {
                if h.node == t {
                    return Some(h);
                }
                for c in &h.children {
                    if let Some(x) = find(c, t) {
                        return Some(x);
                    }
                }
                None
            }
            match find(&built, target) {
                Some(h) => h.clone(),
                None => return,
            }
        };
        #[derive(Debug, PartialEq, Clone)]
        enum Ev {
            Open(Node, QName),
            Prefix(Node, String, String),
            Attr(Node, QName, String),
            Close(Node),
            End(Node, QName),
            Text(Node, String),
            Comment(Node, String),
            Pi(Node, String, Option<String>),
        }
        fn expect(a: &ANode, h: &HTree, top: bool, outer: &Scope, out: &mut Vec<Ev>, extra: &mut Vec<Ev>) {
            match a.kind {
                AKind::Doc => {
                    for (c, hc) in a.children.iter().zip(h.children.iter()) {
                        expect(c, hc, false, outer, out, extra);
                    }
                }
                AKind::Elem => {
                    out.push(Ev::Open(h.node, a.name.clone()));
                    if top {
                        let mut b = outer.bindings();
                        if !b.iter().any(|(p, _)| p == "xml") {
                            b.push(("xml".into(), XML_NS.into()));
                        }
                        for (p, u) in b {
                            if !a.decls.iter().any(|(dp, _)| *dp == p) {
                                extra.push(Ev::Prefix(h.node, p, u));
                            }
                        }
                    }
                    for (p, u) in &a.decls {
                        out.push(Ev::Prefix(h.node, p.clone(), u.clone()));
                    }
                    for (q, v) in &a.attrs {
                        out.push(Ev::Attr(h.node, q.clone(), v.clone()));
                    }
                    out.push(Ev::Close(h.node));
                    for (c, hc) in a.children.iter().zip(h.children.iter()) {
                        expect(c, hc, false, outer, out, extra);
                    }
                    out.push(Ev::End(h.node, a.name.clone()));
                }
                AKind::Text => out.push(Ev::Text(h.node, a.text.clone())),
                AKind::Comment => out.push(Ev::Comment(h.node, a.text.clone())),
                AKind::Pi => out.push(Ev::Pi(h.node, a.name.local.clone(), a.data.clone())),
            }
        }
        let mut want: Vec<Ev> = Vec::new();
        let mut extra: Vec<Ev> = Vec::new();
        expect(&sub, &sub_h, sub.kind == AKind::Elem, &outer, &mut want, &mut extra);
        let got: Result<Vec<Ev>, _> = guard(|| {
            let mut v = Vec::new();
            for (n, o) in xot.outputs(target) {
                v.push(match o {
                    Output::StartTagOpen(e) => Ev::Open(n, snap::qname(&xot, e.name())),
                    Output::StartTagClose => Ev::Close(n),
                    Output::EndTag(e) => Ev::End(n, snap::qname(&xot, e.name())),
                    Output::Prefix(p, ns) => Ev::Prefix(n, xot.prefix_str(p).to_string(), xot.namespace_str(ns).to_string()),
                    Output::Attribute(name, val) => Ev::Attr(n, snap::qname(&xot, name), val.to_string()),
                    Output::Text(t) => Ev::Text(n, t.to_string()),
                    Output::Comment(t) => Ev::Comment(n, t.to_string()),
                    Output::ProcessingInstruction(t, d) => Ev::Pi(n, xot.local_name_str(t).to_string(), d.map(|s| s.to_string())),
                });
                if v.len() > 1_000_000 {
                    break;
                }
            }
            v
        });
        match got {
            Err(p) => {
                ctx.violation("outputs() panicked", format!("C16/outputs/panic/{}", p.sig()), base(p.short()));
            }
            Ok(mut g) => {
                // the top element: its Prefix events are its own declarations (in their order) plus the
                // inherited in-scope bindings it does not declare itself (as a set, anywhere among them)
                if sub.kind == AKind::Elem && !extra.is_empty() {
                    let n_own = sub.decls.len();
                    let mut j = 1;
                    while j < g.len() && matches!(g[j], Ev::Prefix(..)) {
                        j += 1;
                    }
                    let seg: Vec<Ev> = g.drain(1..j).collect();
                    let is_own = |e: &Ev| matches!(e, Ev::Prefix(_, p, _) if sub.decls.iter().any(|(dp, _)| dp == p));
                    let own: Vec<Ev> = seg.iter().filter(|e| is_own(e)).cloned().collect();
                    let mut inherited: Vec<Ev> = seg.iter().filter(|e| !is_own(e)).cloned().collect();
                    let key = |e: &Ev| format!("{:?}", e);
                    inherited.sort_by_key(key);
                    let mut ex = extra.clone();
                    ex.sort_by_key(key);
                    if inherited != ex {
                        ctx.violation(
                            "the top element's extra in-scope bindings are not what the scope gives",
                            "C16/outputs/top-element-extra-prefixes".to_string(),
                            base(format!("got {:?}, expected (as a set) {:?}", inherited, ex)),
                        );
                        return;
                    }
                    // put the own declarations back where the per-node grammar expects them
                    if own.len() != n_own {
                        ctx.violation(
                            "the top element's own declarations are not all listed",
                            "C16/outputs/top-element-own-prefixes".to_string(),
                            base(format!("got {:?}", own)),
                        );
                        return;
                    }
                    for (k, e) in own.into_iter().enumerate() {
                        g.insert(1 + k, e);
                    }
                }
                if g != want {
                    let i = g.iter().zip(want.iter()).position(|(x, y)| x != y).unwrap_or(g.len().min(want.len()));
                    ctx.violation(
                        "output-event stream is not the per-node event sequence in document order",
                        "C16/outputs/event-sequence".to_string(),
                        base(format!("event #{}: got {:?}, expected {:?} ({} vs {} events)", i, g.get(i), want.get(i), g.len(), want.len())),
                    );
                    return;
                }
                ctx.count("output_events_match");
            }
        }
        ctx.sample(|| J::obj().set("tree", sub.to_json()).set("parameters", J::s(pdesc.clone())));
    }
}

fn c14_forced() -> Vec<(ANode, Vec<QName>)> {
    let e = |n: &str| ANode::elem(QName::plain(n));
    let sp = |v: &str| (QName::new(XML_NS, "space"), v.to_string());
    let mut v: Vec<(ANode, Vec<QName>)> = Vec::new();
    for t in ["]]>", "]]]>", "]]", ">", "]>", "a]]>b]]>", "]]]]>>", "x\ry", "\r", "]]\r>"] {
        v.push((ANode::doc(vec![e("a").with_children(vec![ANode::text(t)])]), vec![QName::plain("a")]));
        v.push((ANode::doc(vec![e("a").with_children(vec![ANode::text(t), e("b"), ANode::text(">")])]), vec![]));
    }
    // xml:space="preserve" below depth 0
    let mut p = e("p");
    p.attrs.push(sp("preserve"));
    p.children = vec![e("x").with_children(vec![e("y")]), e("z")];
    v.push((ANode::doc(vec![e("r").with_children(vec![e("q").with_children(vec![p.clone()])])]), vec![]));
    let mut d = e("d");
    d.attrs.push(sp("default"));
    d.children = vec![e("x").with_children(vec![e("y")])];
    let mut p2 = p.clone();
    p2.children.push(d);
    v.push((ANode::doc(vec![e("r").with_children(vec![p2])]), vec![]));
    v
}

impl Monitor for Ser {
    fn id(&self) -> &'static str {
        match self.0 {
            SW::C14 => "C14",
            SW::C16 => "C16",
        }
    }
    fn streams(&self, tier: Tier, budget: f64) -> Vec<Stream> {
        let n = match tier {
            Tier::Quick => 500_000,
            Tier::Thorough => 3_000_000,
        };
        match self.0 {
            SW::C14 => vec![Stream::new("forced", c14_forced().len() as u64 * 4), Stream::new("trees-x-parameters", scaled(n, budget))],
            SW::C16 => vec![Stream::new("trees-x-parameters", scaled(n, budget))],
        }
    }
    fn rule(&self) -> String {
        match self.0 {
            SW::C14 => "XML-representable trees (one in ten wrapped in 15-130 levels of unmixed nesting) with text concentrated on ']' / '>' runs, CR/LF/TAB, whitespace-only text, and xml:space in {preserve, default, other} at any depth x random subsets of the tree's element names as CDATA-section elements and as suppress list x unescaped_gt x declaration {none, plain, encoding + standalone} x doctype {none, SYSTEM, PUBLIC} x indentation on/off, through serialize_xml_string or (one case in three) assembled from tokens() / pretty_tokens(), on documents, fragments and element subtrees: without indentation the reparse must be deep-equal; with indentation a whitespace diff must find only added whitespace-only text nodes, none inside mixed content, xml:space=preserve scope or a suppressed element. Non-trivial = tree >= 3 nodes; distinct by hash of (tree, parameters)".into(),
            SW::C16 => "serialisable trees (one in eight wrapped in 15-130 levels of unmixed nesting, one in five with empty text nodes and one in five with adjacent text nodes, which only the API can create) and their element subtrees x {CDATA-section elements, unescaped_gt, suppress list} x {no normalizer, a normalizer that turns U+226E / U+FF06 / U+FB01 into other text}: concatenated tokens == string serialisation, pretty tokens with indentation / space / newline applied == pretty string, serialize_xml_write into a Vec and into a one-byte-per-call writer == string bytes, with a declaration and / or doctype requested the string == that prolog followed by the token text of the same node (also through a writer that takes a few bytes per call), and outputs() == the per-node event sequence derived from the abstract tree and the scope model (top element's inherited bindings as a set). Non-trivial = tree >= 3 nodes; distinct by hash of (tree, parameters)".into(),
        }
    }
    fn floors(&self, _tier: Tier) -> Vec<(&'static str, u64)> {
        match self.0 {
            SW::C14 => vec![("reparsed_equal.plain", 10_000), ("reparsed_equal.indented", 10_000), ("whitespace_nodes_inserted", 10_000), ("with_cdata_section_elements", 5_000), ("with_declaration", 1_000), ("deep_chain_trees", 2_000), ("serialised.via_token_entry_points", 10_000), ("with_doctype", 5_000)],
            SW::C16 => vec![("tokens_equal_string", 10_000), ("pretty_tokens_equal_string", 10_000), ("writers_equal_string", 10_000), ("output_events_match", 10_000), ("deep_chain_trees", 2_000), ("trees_with_empty_text_nodes", 2_000), ("cases_with_a_changing_normalizer", 10_000), ("trees_with_adjacent_text_nodes", 2_000), ("single_leaf_targets", 5_000), ("trees_with_an_alias_for_the_xml_namespace", 2_000), ("with_declaration_or_doctype", 2_000)],
        }
    }
    fn assumptions(&self) -> Vec<String> {
        vec!["trees are restricted to the XML-representable domain without the open finding's trigger (no-namespace element under a default binding)".into()]
    }
    fn run_case(&self, stream: usize, idx: u64, rng: &mut Rng, ctx: &mut Ctx) {
        match self.0 {
            SW::C14 => {
                if stream == 0 {
                    let f = c14_forced();
                    let (a, c) = f[(idx as usize) % f.len()].clone();
                    self.c14(rng, ctx, Some((a, c)));
                } else {
                    self.c14(rng, ctx, None);
                }
            }
            SW::C16 => self.c16(rng, ctx),
        }
    }
}
