//! C13 — deep_equal is canonical-form equivalence; its variants relax it as documented.

use super::common::*;
use crate::adoc::*;
use crate::build::{self, AttrStyle, ROUTES};
use crate::engine::{guard, Ctx, Monitor, Stream, Tier};
use crate::gen::{self, GenCfg, NsMode, TextProfile};
use crate::json::J;
use crate::rng::Rng;
use crate::snap::HTree;
use xot::{Node, Xot};

pub struct C13;

/// (abstract node, handle) for every ordinary node, document order
fn pairs<'a>(a: &'a ANode, h: &HTree, out: &mut Vec<(&'a ANode, Node)>) {
    out.push((a, h.node));
    for (c, hc) in a.children.iter().zip(h.children.iter()) {
        pairs(c, hc, out);
    }
}

/// attribute nodes: (name, value, handle); namespace nodes: (prefix, uri, handle)
fn abnormal(a: &ANode, h: &HTree, attrs: &mut Vec<(QName, String, Node)>, nss: &mut Vec<(String, String, Node)>) {
    for (i, n) in h.attrs.iter().enumerate() {
        if let Some((q, v)) = a.attrs.get(i) {
            attrs.push((q.clone(), v.clone(), *n));
        }
    }
    for (i, n) in h.nss.iter().enumerate() {
        if let Some((p, u)) = a.decls.get(i) {
            nss.push((p.clone(), u.clone(), *n));
        }
    }
    for (c, hc) in a.children.iter().zip(h.children.iter()) {
        abnormal(c, hc, attrs, nss);
    }
}

#[derive(Clone, Copy, Debug, PartialEq)]
enum Cmp {
    Exact,
    CaseInsensitive,
    AlwaysTrue,
    AlwaysFalse,
    /// not symmetric: the first argument starts with the second
    StartsWith,
}

impl Cmp {
    fn f(self, a: &str, b: &str) -> bool {
        match self {
            Cmp::Exact => a == b,
            Cmp::CaseInsensitive => a.eq_ignore_ascii_case(b),
            Cmp::AlwaysTrue => true,
            Cmp::AlwaysFalse => false,
            Cmp::StartsWith => a.starts_with(b),
        }
    }
}

#[derive(Clone, Copy, Debug, PartialEq)]
enum Filt {
    All,
    NoComments,
    ElementsOnly,
    Nothing,
}

impl Filt {
    fn keep(self, k: AKind) -> bool {
        match self {
            Filt::All => true,
            Filt::NoComments => k != AKind::Comment,
            Filt::ElementsOnly => k == AKind::Elem,
            Filt::Nothing => false,
        }
    }
}

/// value comparison of two nodes (the node itself and, for elements, its attribute set)
fn value_eq(a: &ANode, b: &ANode, cmp: Cmp) -> bool {
    if a.kind != b.kind {
        return false;
    }
    match a.kind {
        AKind::Doc => true,
        AKind::Elem => {
            if a.name != b.name || a.attrs.len() != b.attrs.len() {
                return false;
            }
            a.attrs.iter().all(|(q, v)| b.attrs.iter().any(|(q2, v2)| q == q2 && cmp.f(v, v2)))
        }
        AKind::Text => cmp.f(&a.text, &b.text),
        AKind::Comment => a.text == b.text,
        AKind::Pi => {
            a.name == b.name
                && match (&a.data, &b.data) {
                    (Some(x), Some(y)) => cmp.f(x, y),
                    (None, None) => true,
                    _ => false,
                }
        }
    }
}

#[derive(Debug)]
enum Edge<'a> {
    S(&'a ANode),
    E,
}

fn edges<'a>(a: &'a ANode, filt: Filt, out: &mut Vec<Edge<'a>>) {
    if filt.keep(a.kind) {
        out.push(Edge::S(a));
    }
    for c in &a.children {
        edges(c, filt, out);
    }
    if filt.keep(a.kind) {
        out.push(Edge::E);
    }
}

/// definition of advanced_deep_equal: filtered edge streams compared pairwise
fn advanced_model(a: &ANode, b: &ANode, filt: Filt, cmp: Cmp) -> bool {
    let mut ea = Vec::new();
    let mut eb = Vec::new();
    edges(a, filt, &mut ea);
    edges(b, filt, &mut eb);
    if ea.len() != eb.len() {
        // a common prefix mismatch may still decide "false" first; either way the answer is false
        return false;
    }
    for (x, y) in ea.iter().zip(eb.iter()) {
        match (x, y) {
            (Edge::S(p), Edge::S(q)) => {
                if !value_eq(p, q, cmp) {
                    return false;
                }
            }
            (Edge::E, Edge::E) => {}
            _ => return false,
        }
    }
    true
}

/// deep_equal_xpath: comments and PIs below the compared nodes are dropped
fn xpath_model(a: &ANode, b: &ANode, cmp: Cmp) -> bool {
    fn strip(n: &ANode) -> ANode {
        let mut m = n.clone();
        m.children = n.children.iter().filter(|c| matches!(c.kind, AKind::Elem | AKind::Text)).map(strip).collect();
        m
    }
    match (a.kind, b.kind) {
        (AKind::Elem, AKind::Elem) | (AKind::Doc, AKind::Doc) => advanced_model(&strip(a), &strip(b), Filt::All, cmp),
        _ => value_eq(a, b, cmp),
    }
}

/// mutate exactly one feature; returns (mutant, does the canonical form change?, feature name)
fn mutate(a: &ANode, rng: &mut Rng) -> Option<(ANode, bool, &'static str)> {
    let mut m = a.clone();
    // collect element paths
    let mut n_elems = 0;
    a.walk(&mut |n| {
        if n.kind == AKind::Elem {
            n_elems += 1
        }
    });
    let kind = rng.below(18);
    let target = rng.below(n_elems.max(1));
    let mut seen = 0;
    let mut done: Option<(bool, &'static str)> = None;
    let r1 = rng.next_u64() as usize;
    m.walk_mut(&mut |n| {
        if done.is_some() {
            return;
        }
        if n.kind != AKind::Elem {
            return;
        }
        if seen != target {
            seen += 1;
            return;
        }
        seen += 1;
        match kind {
            0 => {
                n.name.local.push('x');
                done = Some((true, "element-local-name"));
            }
            1 => {
                n.name.ns = if n.name.ns == "urn:A" { "urn:B".into() } else { "urn:A".into() };
                done = Some((true, "element-namespace"));
            }
            2 => {
                if !n.attrs.is_empty() {
                    let i = r1 % n.attrs.len();
                    n.attrs[i].1.push('!');
                    done = Some((true, "attribute-value"));
                }
            }
            3 => {
                let q = QName::plain("extra");
                if !n.attrs.iter().any(|(x, _)| *x == q) {
                    n.attrs.push((q, "1".into()));
                    done = Some((true, "extra-attribute"));
                }
            }
            4 => {
                if !n.attrs.is_empty() {
                    let i = r1 % n.attrs.len();
                    n.attrs.remove(i);
                    done = Some((true, "missing-attribute"));
                }
            }
            5 => {
                if let Some(c) = n.children.iter_mut().find(|c| c.kind == AKind::Text) {
                    c.text.push('z');
                    done = Some((true, "text-character"));
                }
            }
            6 => {
                let i = r1 % (n.children.len() + 1);
                n.children.insert(i, ANode::comment("extra"));
                done = Some((true, "extra-comment"));
            }
            7 => {
                if n.children.len() >= 2 {
                    let i = r1 % (n.children.len() - 1);
                    if n.children[i] != n.children[i + 1] {
                        n.children.swap(i, i + 1);
                        done = Some((true, "child-order"));
                    }
                }
            }
            8 => {
                if !n.decls.is_empty() {
                    let i = r1 % n.decls.len();
                    let np = format!("{}z", n.decls[i].0);
                    if !n.decls.iter().any(|(p, _)| *p == np) {
                        n.decls[i].0 = np;
                        done = Some((false, "prefix-only"));
                    }
                }
            }
            9 => {
                if !n.decls.iter().any(|(p, _)| p == "zz") {
                    n.decls.push(("zz".into(), "urn:Z".into()));
                    done = Some((false, "declaration-only"));
                }
            }
            10 => {
                if n.attrs.len() >= 2 {
                    n.attrs.reverse();
                    done = Some((false, "attribute-order-only"));
                }
            }
            11 => {
                if n.attrs.len() >= 2 {
                    n.attrs.reverse();
                    n.attrs[0].1.push('?');
                    done = Some((true, "attribute-order-plus-one-value"));
                }
            }
            12 => {
                if !n.attrs.is_empty() {
                    let i = r1 % n.attrs.len();
                    let mut q = n.attrs[i].0.clone();
                    q.ns = if q.ns.is_empty() { "urn:A".into() } else { String::new() };
                    if !n.attrs.iter().any(|(x, _)| *x == q) {
                        n.attrs[i].0 = q;
                        done = Some((true, "attribute-namespace"));
                    }
                }
            }
            13 => {
                if let Some(c) = n.children.iter_mut().find(|c| c.kind == AKind::Pi) {
                    c.data = Some(format!("{}x", c.data.clone().unwrap_or_default()));
                    done = Some((true, "pi-data"));
                } else if let Some(c) = n.children.iter_mut().find(|c| c.kind == AKind::Comment) {
                    c.text.push('x');
                    done = Some((true, "comment-content"));
                }
            }
            14 => {
                if !n.children.is_empty() {
                    let i = r1 % n.children.len();
                    n.children.remove(i);
                    done = Some((true, "missing-child"));
                }
            }
            16 => {
                // a comment in another letter case: comments are compared exactly, whatever the text comparison is
                if let Some(c) = n.children.iter_mut().find(|c| c.kind == AKind::Comment && c.text.to_ascii_uppercase() != c.text) {
                    c.text = c.text.to_ascii_uppercase();
                    done = Some((true, "comment-case"));
                }
            }
            15 => {
                // an empty text node as the only child of an element that had no children: another child sequence
                if n.children.is_empty() {
                    n.children.push(ANode::text(""));
                    done = Some((true, "empty-text-child-in-childless-element"));
                }
            }
            _ => {
                // upper-case one text (case-insensitive comparator sees no difference)
                if let Some(c) = n.children.iter_mut().find(|c| c.kind == AKind::Text && c.text.to_ascii_uppercase() != c.text) {
                    c.text = c.text.to_ascii_uppercase();
                    done = Some((true, "text-case"));
                }
            }
        }
    });
    done.map(|(ch, f)| (m, ch, f))
}

struct Built {
    a: ANode,
    h: HTree,
}

fn check_pair(ctx: &mut Ctx, xot: &mut Xot, x: (&ANode, Node), y: (&ANode, Node), feature: &str, rng: &mut Rng, ignore_pool: &[(QName, xot::NameId)]) -> bool {
    let (ax, hx) = x;
    let (ay, hy) = y;
    let want = ax.canon() == ay.canon();
    let report = |ctx: &mut Ctx, api: &str, clause: &str, got: String, want: String| {
        ctx.violation(
            "equality API disagrees with its definition",
            format!("C13/{}/{}/{}", api, clause, feature),
            J::obj()
                .set("a", ax.to_json())
                .set("b", ay.to_json())
                .set("api", J::s(api))
                .set("got", J::s(got))
                .set("expected", J::s(want))
                .set("difference", J::s(feature)),
        );
    };
    // deep_equal both directions
    for (p, q, dir) in [(hx, hy, "a,b"), (hy, hx, "b,a")] {
        match guard(|| xot.deep_equal(p, q)) {
            Ok(g) if g == want => ctx.count("deep_equal.checked"),
            Ok(g) => {
                report(ctx, "deep_equal", if dir == "a,b" { "vs-canonical-form" } else { "symmetry" }, format!("{} ({})", g, dir), want.to_string());
                return false;
            }
            Err(p) => {
                report(ctx, "deep_equal", "panic", p.short(), want.to_string());
                return false;
            }
        }
    }
    if want {
        ctx.count("pairs.equal");
    } else {
        ctx.count("pairs.unequal");
    }
    // deep_equal_xpath with comparators
    let cmp = *rng.pick(&[Cmp::Exact, Cmp::CaseInsensitive, Cmp::AlwaysTrue, Cmp::AlwaysFalse, Cmp::StartsWith]);
    let wx = xpath_model(ax, ay, cmp);
    // A comparison that is not symmetric: the statement does not say which tree's string comes first, so either
    // orientation is accepted - but it has to be the same one for texts, PI data and attribute values
    let asym = cmp == Cmp::StartsWith;
    if asym {
        ctx.count("asymmetric_comparisons");
    }
    let wx_rev = xpath_model(ay, ax, cmp);
    match guard(|| xot.deep_equal_xpath(hx, hy, |s, t| cmp.f(s, t))) {
        Ok(g) if g == wx || (asym && g == wx_rev) => ctx.count("deep_equal_xpath.checked"),
        Ok(g) => {
            report(ctx, "deep_equal_xpath", &format!("{:?}", cmp), g.to_string(), wx.to_string());
            return false;
        }
        Err(p) => {
            report(ctx, "deep_equal_xpath", "panic", p.short(), wx.to_string());
            return false;
        }
    }
    // advanced_deep_equal with filters
    let filt = *rng.pick(&[Filt::All, Filt::NoComments, Filt::ElementsOnly, Filt::Nothing]);
    let wa = advanced_model(ax, ay, filt, cmp);
    let r = guard(|| {
        xot.advanced_deep_equal(
            hx,
            hy,
            |n| match filt {
                Filt::All => true,
                Filt::NoComments => !xot.is_comment(n),
                Filt::ElementsOnly => xot.is_element(n),
                Filt::Nothing => false,
            },
            |s, t| cmp.f(s, t),
        )
    });
    let wa_rev = advanced_model(ay, ax, filt, cmp);
    match r {
        Ok(g) if g == wa || (asym && g == wa_rev) => ctx.count("advanced_deep_equal.checked"),
        Ok(g) => {
            report(ctx, "advanced_deep_equal", &format!("{:?}-{:?}", filt, cmp), g.to_string(), wa.to_string());
            return false;
        }
        Err(p) => {
            report(ctx, "advanced_deep_equal", "panic", p.short(), wa.to_string());
            return false;
        }
    }
    // deep_equal_children
    let wc = ax.children.len() == ay.children.len() && ax.children.iter().zip(ay.children.iter()).all(|(p, q)| p.canon() == q.canon());
    match guard(|| xot.deep_equal_children(hx, hy)) {
        Ok(g) if g == wc => ctx.count("deep_equal_children.checked"),
        Ok(g) => {
            report(ctx, "deep_equal_children", "vs-definition", g.to_string(), wc.to_string());
            return false;
        }
        Err(p) => {
            report(ctx, "deep_equal_children", "panic", p.short(), wc.to_string());
            return false;
        }
    }
    // shallow_equal
    let ws = value_eq(ax, ay, Cmp::Exact);
    match guard(|| xot.shallow_equal(hx, hy)) {
        Ok(g) if g == ws => ctx.count("shallow_equal.checked"),
        Ok(g) => {
            report(ctx, "shallow_equal", "vs-definition", g.to_string(), ws.to_string());
            return false;
        }
        Err(p) => {
            report(ctx, "shallow_equal", "panic", p.short(), ws.to_string());
            return false;
        }
    }
    // shallow_equal_ignore_attributes with all kinds of ignore lists
    if ax.kind == AKind::Elem && ay.kind == AKind::Elem {
        let mode = rng.below(9);
        let mut names: Vec<(QName, xot::NameId)> = Vec::new();
        let present: Vec<&(QName, xot::NameId)> = ignore_pool.iter().filter(|(q, _)| ax.attrs.iter().chain(ay.attrs.iter()).any(|(n, _)| n == q)).collect();
        let absent: Vec<&(QName, xot::NameId)> = ignore_pool.iter().filter(|(q, _)| !ax.attrs.iter().chain(ay.attrs.iter()).any(|(n, _)| n == q)).collect();
        let label = match mode {
            0 => "empty",
            1 => {
                if let Some(p) = present.first() {
                    names.push((*p).clone());
                }
                "one-present"
            }
            2 => {
                if let Some(p) = absent.first() {
                    names.push((*p).clone());
                }
                "one-absent"
            }
            3 => {
                if let Some(p) = present.first() {
                    names.push((*p).clone());
                    names.push((*p).clone());
                }
                "repeated"
            }
            4 => {
                for p in &present {
                    names.push((*p).clone());
                }
                "all-attributes"
            }
            5 => {
                for p in present.iter().take(1) {
                    names.push((*p).clone());
                }
                for p in absent.iter().take(1) {
                    names.push((*p).clone());
                    names.push((*p).clone());
                }
                "mixed-repeated-absent"
            }
            _ => {
                // a random multiset in random order: repeats need not be adjacent ([x, y, x])
                let all: Vec<&(QName, xot::NameId)> = present.iter().chain(absent.iter().take(2)).copied().collect();
                if !all.is_empty() {
                    for _ in 0..rng.range(2, 7) {
                        names.push(all[rng.below(all.len())].clone());
                    }
                }
                let nonadjacent = (0..names.len()).any(|i| (i + 2..names.len()).any(|j| names[i].1 == names[j].1 && names[i + 1].1 != names[i].1));
                if nonadjacent {
                    "multiset-nonadjacent-repeat"
                } else {
                    "multiset"
                }
            }
        };
        let ign: Vec<&QName> = names.iter().map(|(q, _)| q).collect();
        let fa: Vec<&(QName, String)> = ax.attrs.iter().filter(|(q, _)| !ign.contains(&q)).collect();
        let fb: Vec<&(QName, String)> = ay.attrs.iter().filter(|(q, _)| !ign.contains(&q)).collect();
        let wi = ax.name == ay.name && fa.len() == fb.len() && fa.iter().all(|p| fb.contains(p));
        let ids: Vec<xot::NameId> = names.iter().map(|(_, i)| *i).collect();
        match guard(|| xot.shallow_equal_ignore_attributes(hx, hy, &ids)) {
            Ok(g) if g == wi => ctx.count(&format!("shallow_equal_ignore.{}", label)),
            Ok(g) => {
                report(ctx, "shallow_equal_ignore_attributes", label, g.to_string(), wi.to_string());
                return false;
            }
            Err(p) => {
                report(ctx, "shallow_equal_ignore_attributes", &format!("{}-panic", label), p.short(), wi.to_string());
                return false;
            }
        }
    }
    true
}

impl Monitor for C13 {
    fn id(&self) -> &'static str {
        "C13"
    }
    fn streams(&self, tier: Tier, budget: f64) -> Vec<Stream> {
        let n = match tier {
            Tier::Quick => 120_000,
            Tier::Thorough => 2_000_000,
        };
        vec![Stream::new("base-mutants-independent", scaled(n, budget))]
    }
    fn rule(&self) -> String {
        "per case: a base tree, 3 single-feature mutants (16 feature kinds incl. prefix-only, declaration-only, attribute-order-only, order+value), one independent tree and an exact copy, all in one Xot; all ordered pairs among them at the root and at corresponding / random inner nodes, pairs of nodes inside one tree (ancestor / descendant, siblings, identical), ignore lists that are random multisets in random order, attribute-node and namespace-node pairs, triples for transitivity; every equality API against definitions computed from the abstract trees; string_value of every node. Non-trivial = base tree with >= 3 nodes; distinct by structural hash of the base".into()
    }
    fn floors(&self, _tier: Tier) -> Vec<(&'static str, u64)> {
        vec![
            ("deep_equal.checked", 100_000),
            ("pairs.equal", 5_000),
            ("pairs.unequal", 5_000),
            ("shallow_equal_ignore.repeated", 200),
            ("shallow_equal_ignore.multiset-nonadjacent-repeat", 200),
            ("same_tree_pairs", 10_000),
            ("bases_with_wide_attribute_maps", 1_000),
            ("attribute_node_pairs", 1_000),
            ("string_value.checked", 10_000),
            ("transitivity.checked", 1_000),
        ]
    }
    fn assumptions(&self) -> Vec<String> {
        vec!["for two namespace nodes only 'same prefix and URI -> equal' and 'different URI -> unequal' are judged".into()]
    }
    fn run_case(&self, _stream: usize, _idx: u64, rng: &mut Rng, ctx: &mut Ctx) {
        let mut cfg = GenCfg::default();
        cfg.max_nodes = *rng.pick(&[4, 10, 20]);
        cfg.max_depth = *rng.pick(&[2, 4, 6]);
        cfg.text = TextProfile::Plain;
        cfg.str_len = 3;
        cfg.ns_mode = if rng.chance(1, 4) { NsMode::None } else { NsMode::Consistent };
        cfg.fragment = rng.chance(1, 4);
        cfg.allow_adjacent_text = rng.chance(1, 5);
        cfg.max_attrs = 3;
        let mut base = if rng.chance(1, 3) { gen::gen_element(rng, &cfg) } else { gen::gen_document(rng, &cfg) };
        // an element with 15-40 attributes: comparisons that switch strategy beyond a size
        if !crate::engine::legs_mode() && rng.chance(1, 8) {
            let n = *rng.pick(&[15, 16, 17, 18, 31, 32, 33, 40]);
            if widen_attrs(&mut base, rng, n) {
                ctx.count("bases_with_wide_attribute_maps");
            }
        }
        if base.count() >= 3 {
            ctx.nontrivial(base.structural_hash());
        }
        let mut trees: Vec<(ANode, &'static str)> = vec![(base.clone(), "base"), (base.clone(), "copy")];
        for _ in 0..3 {
            for _try in 0..6 {
                if let Some((m, _ch, f)) = mutate(&base, rng) {
                    ctx.count(&format!("mutant.{}", f));
                    trees.push((m, f));
                    break;
                }
            }
        }
        if rng.chance(1, 4) {
            // two trees that differ from the base in opposite directions: every text longer in one, every attribute
            // value longer in the other (an asymmetric comparison must be applied the same way round to both)
            let mut t1 = base.clone();
            t1.walk_mut(&mut |n| {
                if n.kind == AKind::Text {
                    n.text.push('!');
                }
            });
            let mut t2 = base.clone();
            t2.walk_mut(&mut |n| {
                for (_, v) in n.attrs.iter_mut() {
                    v.push('!');
                }
            });
            trees.push((t1, "texts-extended"));
            trees.push((t2, "attribute-values-extended"));
            ctx.count("opposed_extension_pairs");
        }
        let indep = if rng.chance(1, 3) { gen::gen_element(rng, &cfg) } else { gen::gen_document(rng, &cfg) };
        trees.push((indep, "independent"));
        let mut xot = Xot::new();
        xot.set_text_consolidation(false);
        let mut built: Vec<(Built, &'static str)> = Vec::new();
        for (t, f) in &trees {
            let route = *rng.pick(&ROUTES);
            match guard(|| build::build(&mut xot, t, route, AttrStyle::Map)) {
                Ok(Ok(h)) => built.push((Built { a: t.clone(), h }, f)),
                _ => {
                    ctx.count("build_failed");
                    return;
                }
            }
        }
        // names for ignore lists
        let mut pool: Vec<(QName, xot::NameId)> = Vec::new();
        for (ns, l) in [("", "a"), ("", "b"), ("", "extra"), ("urn:A", "a"), ("", "nosuch"), ("", "x"), ("", "c"), ("", "e"), ("", "y")] {
            let n = xot.add_namespace(ns);
            pool.push((QName::new(ns, l), xot.add_name_ns(l, n)));
        }
        // root pairs: all ordered pairs
        for i in 0..built.len() {
            for j in 0..built.len() {
                let f = if i == j { "identical" } else if built[i].1 == "base" || built[i].1 == "copy" { built[j].1 } else if built[j].1 == "base" || built[j].1 == "copy" { built[i].1 } else { "two-mutants" };
                let bi = &built[i].0;
                let bj = &built[j].0;
                if !check_pair(ctx, &mut xot, (&bi.a, bi.h.node), (&bj.a, bj.h.node), f, rng, &pool) {
                    return;
                }
            }
        }
        // inner node pairs between base and each other tree (corresponding index and random)
        let mut pb = Vec::new();
        pairs(&built[0].0.a, &built[0].0.h, &mut pb);
        for k in 1..built.len() {
            let mut pk = Vec::new();
            pairs(&built[k].0.a, &built[k].0.h, &mut pk);
            for _ in 0..4 {
                let i = rng.below(pb.len());
                let j = if rng.bool() { i.min(pk.len() - 1) } else { rng.below(pk.len()) };
                if !check_pair(ctx, &mut xot, pb[i], pk[j], "inner-nodes", rng, &pool) {
                    return;
                }
            }
        }
        // pairs inside ONE tree: ancestor / descendant, siblings, a node with itself
        for k in [0usize, built.len() - 1] {
            let mut pk = Vec::new();
            pairs(&built[k].0.a, &built[k].0.h, &mut pk);
            for t in 0..5 {
                let i = if t == 0 { 0 } else { rng.below(pk.len()) };
                let j = rng.below(pk.len());
                ctx.count("same_tree_pairs");
                if !check_pair(ctx, &mut xot, pk[i], pk[j], "same-tree", rng, &pool) {
                    return;
                }
            }
        }
        // transitivity / reflexivity on triples of roots
        for _ in 0..4 {
            let (i, j, k) = (rng.below(built.len()), rng.below(built.len()), rng.below(built.len()));
            let (a, b, c) = (built[i].0.h.node, built[j].0.h.node, built[k].0.h.node);
            let r = guard(|| (xot.deep_equal(a, a), xot.deep_equal(a, b), xot.deep_equal(b, c), xot.deep_equal(a, c)));
            match r {
                Ok((refl, ab, bc, ac)) => {
                    ctx.count("transitivity.checked");
                    if !refl || (ab && bc && !ac) {
                        ctx.violation(
                            "deep_equal is not an equivalence",
                            format!("C13/deep_equal/{}", if !refl { "reflexivity" } else { "transitivity" }),
                            J::obj().set("a", built[i].0.a.to_json()).set("b", built[j].0.a.to_json()).set("c", built[k].0.a.to_json()),
                        );
                        return;
                    }
                }
                Err(p) => {
                    ctx.violation("deep_equal panicked", format!("C13/deep_equal/panic/{}", p.sig()), J::obj().set("panic", J::s(p.short())));
                    return;
                }
            }
        }
        // attribute-node and namespace-node pairs
        let mut attrs = Vec::new();
        let mut nss = Vec::new();
        for (b, _) in &built {
            abnormal(&b.a, &b.h, &mut attrs, &mut nss);
        }
        for _ in 0..6 {
            if attrs.len() >= 2 {
                let x = &attrs[rng.below(attrs.len())];
                let y = &attrs[rng.below(attrs.len())];
                let want = x.0 == y.0 && x.1 == y.1;
                ctx.count("attribute_node_pairs");
                for (api, got) in [
                    ("deep_equal", guard(|| xot.deep_equal(x.2, y.2))),
                    ("shallow_equal", guard(|| xot.shallow_equal(x.2, y.2))),
                    ("deep_equal_xpath", guard(|| xot.deep_equal_xpath(x.2, y.2, |s, t| s == t))),
                ] {
                    match got {
                        Ok(g) if g == want => {}
                        other => {
                            ctx.violation(
                                "comparison of two attribute nodes disagrees with name + value equality",
                                format!("C13/{}/attribute-nodes/{}", api, if want { "equal-reported-unequal" } else { "unequal-reported-equal" }),
                                J::obj().set("a", J::s(format!("{}={:?}", x.0.clark(), x.1))).set("b", J::s(format!("{}={:?}", y.0.clark(), y.1))).set("got", J::s(format!("{:?}", other.map_err(|p| p.short())))),
                            );
                            return;
                        }
                    }
                }
            }
            if nss.len() >= 2 {
                let x = &nss[rng.below(nss.len())];
                let y = &nss[rng.below(nss.len())];
                let judged = if x.0 == y.0 && x.1 == y.1 { Some(true) } else if x.1 != y.1 { Some(false) } else { None };
                if let Some(want) = judged {
                    ctx.count("namespace_node_pairs");
                    match guard(|| xot.deep_equal(x.2, y.2)) {
                        Ok(g) if g == want => {}
                        other => {
                            ctx.violation(
                                "comparison of two namespace nodes disagrees with prefix + URI equality",
                                format!("C13/deep_equal/namespace-nodes/{}", if want { "equal-reported-unequal" } else { "unequal-reported-equal" }),
                                J::obj().set("a", J::s(format!("{}={:?}", x.0, x.1))).set("b", J::s(format!("{}={:?}", y.0, y.1))).set("got", J::s(format!("{:?}", other.map_err(|p| p.short())))),
                            );
                            return;
                        }
                    }
                }
            }
            // mixed kinds are never equal
            if !attrs.is_empty() && !pb.is_empty() {
                let x = &attrs[rng.below(attrs.len())];
                let y = pb[rng.below(pb.len())];
                if let Ok(true) = guard(|| xot.deep_equal(x.2, y.1)) {
                    ctx.violation(
                        "an attribute node compares deep-equal to a node of another kind",
                        "C13/deep_equal/attribute-vs-other-kind".to_string(),
                        J::obj().set("a", J::s(format!("{}={:?}", x.0.clark(), x.1))).set("b", y.0.to_json()),
                    );
                    return;
                }
                // the same through the variants, in both argument orders, also with a filter that lets nothing of the
                // ordinary node through and a comparison that accepts everything
                let abnormal_node = if !nss.is_empty() && rng.bool() { nss[rng.below(nss.len())].2 } else { x.2 };
                let keep_nothing = rng.bool();
                for (p, q, order) in [(abnormal_node, y.1, "abnormal-first"), (y.1, abnormal_node, "abnormal-second")] {
                    let r = guard(|| (xot.advanced_deep_equal(p, q, |_| !keep_nothing, |_, _| true), xot.deep_equal_xpath(p, q, |_, _| true), xot.shallow_equal(p, q)));
                    match r {
                        Ok((false, false, false)) => ctx.count("abnormal_vs_ordinary_pairs"),
                        other => {
                            ctx.violation(
                                "an attribute / namespace node compares equal to an ordinary node",
                                format!("C13/variants/attribute-or-namespace-vs-ordinary/{}", order),
                                J::obj().set("ordinary", y.0.to_json()).set("filter_keeps_nothing", J::Bool(keep_nothing)).set("advanced/xpath/shallow", J::s(format!("{:?}", other.map_err(|p| p.short())))),
                            );
                            return;
                        }
                    }
                }
            }
        }
        // string_value
        for (b, _) in &built {
            let mut ps = Vec::new();
            pairs(&b.a, &b.h, &mut ps);
            for (an, hn) in ps {
                match guard(|| xot.string_value(hn)) {
                    Ok(s) if s == an.string_value() => ctx.count("string_value.checked"),
                    other => {
                        ctx.violation(
                            "string_value differs from the concatenated descendant text / own content",
                            format!("C13/string_value/{:?}", an.kind),
                            J::obj().set("node", an.to_json()).set("got", J::s(format!("{:?}", other.map_err(|p| p.short())))).set("expected", J::s(an.string_value())),
                        );
                        return;
                    }
                }
            }
        }
        for (q, v, n) in attrs.iter().take(5) {
            if let Ok(s) = guard(|| xot.string_value(*n)) {
                if s != *v {
                    ctx.violation("string_value of an attribute node is not its value", "C13/string_value/attribute".to_string(), J::obj().set("attr", J::s(q.clark())));
                    return;
                }
            }
        }
        for (p, u, n) in nss.iter().take(5) {
            match guard(|| xot.string_value(*n)) {
                Ok(s) if s == *u => ctx.count("string_value.namespace_nodes"),
                other => {
                    ctx.violation(
                        "string_value of a namespace node is not its URI",
                        "C13/string_value/namespace".to_string(),
                        J::obj().set("declaration", J::s(format!("{}={:?}", p, u))).set("got", J::s(format!("{:?}", other.map_err(|p| p.short())))),
                    );
                    return;
                }
            }
        }
        ctx.sample(|| J::obj().set("base", base.to_json()).set("mutants", J::Arr(trees.iter().skip(2).map(|(t, f)| J::obj().set("feature", J::s(*f)).set("tree", t.to_json())).collect())));
    }
}
