//! C18 — whitespace stripping removes exactly the insignificant whitespace.

use super::common::*;
use crate::adoc::*;
use crate::build::{self, AttrStyle, ROUTES};
use crate::engine::{guard, Ctx, Monitor, Stream, Tier};
use crate::gen::{self, GenCfg, NsMode, TextProfile};
use crate::json::J;
use crate::rng::Rng;
use crate::snap::{self, HTree};
use xot::{Node, Xot};

pub struct C18;

fn xml_ws_only(s: &str) -> bool {
    s.chars().all(is_xml_space)
}

/// the rule of the statement, evaluated on the abstract tree: mark text nodes to remove.
/// `preserve`: innermost xml:space on the ancestor-or-self element chain is "preserve".
fn predict(a: &ANode, h: &HTree, preserve: bool, in_target: bool, target: Node, out: &mut Vec<Node>) {
    let in_target = in_target || h.node == target;
    let mut preserve = preserve;
    if a.kind == AKind::Elem {
        if let Some((_, v)) = a.attrs.iter().find(|(q, _)| q.ns == XML_NS && q.local == "space") {
            preserve = v == "preserve";
        }
    }
    let significant_text_sibling = a.children.iter().any(|c| c.kind == AKind::Text && !xml_ws_only(&c.text));
    for (c, hc) in a.children.iter().zip(h.children.iter()) {
        let c_in = in_target || hc.node == target;
        if c.kind == AKind::Text {
            if c_in && xml_ws_only(&c.text) && !significant_text_sibling && !preserve {
                out.push(hc.node);
            }
        } else {
            predict(c, hc, preserve, in_target, target, out);
        }
    }
}

fn remove_nodes(a: &ANode, h: &HTree, gone: &[Node]) -> (ANode, Vec<Node>) {
    let mut na = a.clone();
    na.children.clear();
    let mut handles = vec![h.node];
    handles.extend(h.nss.iter().copied());
    handles.extend(h.attrs.iter().copied());
    for (c, hc) in a.children.iter().zip(h.children.iter()) {
        if gone.contains(&hc.node) {
            continue;
        }
        let (cc, ch) = remove_nodes(c, hc, gone);
        na.children.push(cc);
        handles.extend(ch);
    }
    (na, handles)
}

fn run(ctx: &mut Ctx, a: &ANode, rng: &mut Rng, forced_target: Option<usize>) {
    let mut xot = Xot::new();
    xot.set_text_consolidation(false);
    let route = *rng.pick(&ROUTES);
    let built = match guard(|| build::build(&mut xot, a, route, AttrStyle::Map)) {
        Ok(Ok(h)) => h,
        _ => {
            ctx.count("build_failed");
            return;
        }
    };
    // the call may run with consolidation on or off (the tree may hold adjacent text nodes either way)
    let consolidation = rng.bool();
    xot.set_text_consolidation(consolidation);
    let flat = built.flat();
    let ti = forced_target.unwrap_or_else(|| if rng.chance(2, 3) { 0 } else { rng.below(flat.len()) });
    let mut target = flat[ti.min(flat.len() - 1)];
    // an inner text node as the target is not explored: with consolidation on, removing a text node
    // that sits between two other text nodes merges those (documented behaviour of remove), which the
    // statement's "every other node is untouched" does not mean to forbid
    // -> explored only where no such merge can happen: consolidation off, or not between two text nodes
    if target != built.node && xot.is_text(target) {
        let between_text = xot.previous_sibling(target).map_or(false, |n| xot.is_text(n)) && xot.next_sibling(target).map_or(false, |n| xot.is_text(n));
        if consolidation && between_text {
            if let Some(p) = xot.parent(target) {
                target = p;
            }
        } else {
            ctx.count("inner_text_node_as_target");
        }
    }
    // a lone parentless text node as target is covered by the tree root being a text leaf
    let mut gone: Vec<Node> = Vec::new();
    if a.kind == AKind::Text {
        if xml_ws_only(&a.text) {
            gone.push(built.node);
        }
    } else {
        predict(a, &built, false, false, target, &mut gone);
    }
    let detail = |what: String, after: Option<&ANode>| {
        let mut j = J::obj()
            .set("tree", a.to_json())
            .set("target", J::s(crate::driver::describe(&xot, target)))
            .set("consolidation_on", J::Bool(consolidation))
            .set("what", J::s(what));
        if let Some(t) = after {
            j.put("after", t.to_json());
        }
        j
    };
    let _ = &detail;
    let target_desc = guard(|| crate::driver::describe(&xot, target)).unwrap_or_default();
    if let Err(p) = guard(|| xot.remove_insignificant_whitespace(target)) {
        ctx.violation(
            "remove_insignificant_whitespace panicked",
            format!("C18/panic/{}", p.sig()),
            J::obj().set("tree", a.to_json()).set("target", J::s(target_desc)).set("panic", J::s(p.short())),
        );
        return;
    }
    ctx.count("calls");
    ctx.add("text_nodes_predicted_removed", gone.len() as u64);
    let root_gone = gone.contains(&built.node);
    let (exp_tree, exp_handles) = remove_nodes(a, &built, &gone);
    // every predicted node removed, every other handle alive
    for g in &gone {
        if !guard(|| xot.is_removed(*g)).unwrap_or(false) {
            let txt = "a text node that is insignificant by the rule was kept";
            ctx.violation(
                txt,
                "C18/kept-insignificant-whitespace".to_string(),
                J::obj().set("tree", a.to_json()).set("target", J::s(target_desc.clone())).set("consolidation_on", J::Bool(consolidation)),
            );
            return;
        }
    }
    if root_gone {
        return;
    }
    for hnd in &exp_handles {
        if guard(|| xot.is_removed(*hnd)).unwrap_or(true) {
            // classify: which rule clause protected the node
            let mut why = "other-node";
            let mut text_of: Option<String> = None;
            fn find<'a>(a: &'a ANode, h: &HTree, n: Node) -> Option<&'a ANode> {
                if h.node == n {
                    return Some(a);
                }
                for (c, hc) in a.children.iter().zip(h.children.iter()) {
                    if let Some(x) = find(c, hc, n) {
                        return Some(x);
                    }
                }
                None
            }
            if let Some(an) = find(a, &built, *hnd) {
                if an.kind == AKind::Text {
                    text_of = Some(an.text.clone());
                    why = if !xml_ws_only(&an.text) {
                        if an.text.chars().all(|c| c.is_whitespace()) { "non-xml-unicode-space-text" } else { "text-with-content" }
                    } else {
                        "whitespace-protected-by-sibling-text-or-xml-space-or-outside-target"
                    };
                }
            }
            ctx.violation(
                "a node that the rule keeps was removed",
                format!("C18/removed-significant/{}", why),
                J::obj()
                    .set("tree", a.to_json())
                    .set("target", J::s(target_desc.clone()))
                    .set("removed_text", J::s(format!("{:?}", text_of)))
                    .set("consolidation_on", J::Bool(consolidation)),
            );
            return;
        }
    }
    // same values and order for all survivors
    let after = match guard(|| snap::snap(&xot, built.node)) {
        Ok(Ok(s)) => s,
        other => {
            ctx.violation(
                "tree unreadable after the call",
                "C18/unreadable-after".to_string(),
                J::obj().set("tree", a.to_json()).set("error", J::s(format!("{:?}", other.map(|r| r.map(|_| ()).map_err(|e| e)).map_err(|p| p.short())))),
            );
            return;
        }
    };
    if after.tree != exp_tree || after.handles.flat_all() != exp_handles {
        let d = first_diff(&exp_tree, &after.tree).unwrap_or_else(|| "same values but other node handles / order".to_string());
        ctx.violation(
            "something other than the predicted text nodes changed",
            format!("C18/collateral-change/{}", diff_class(&d)),
            J::obj().set("tree", a.to_json()).set("target", J::s(target_desc.clone())).set("after", after.tree.to_json()).set("first_difference", J::s(d)),
        );
        return;
    }
    ctx.count("after_state_equal_to_prediction");
    // the call works on the tree, not on the library's settings: text appended afterwards is merged (or kept apart)
    // exactly as the caller had it configured before
    {
        let probe = guard(|| {
            let n = xot.add_name("zz-probe");
            let e = xot.new_element(n);
            let _ = xot.append_text(e, "a");
            let _ = xot.append_text(e, "b");
            let k = xot.children(e).count();
            let _ = xot.remove(e);
            k
        });
        let want = if consolidation { 1 } else { 2 };
        match probe {
            Ok(k) if k == want => ctx.count("consolidation_setting_intact"),
            other => {
                ctx.violation(
                    "after the call, appended text is no longer merged / kept apart the way the caller had configured it",
                    "C18/text-consolidation-setting-changed".to_string(),
                    J::obj().set("tree", a.to_json()).set("target", J::s(target_desc.clone())).set("consolidation_on_before", J::Bool(consolidation)).set("text_nodes_after_two_appends", J::s(format!("{:?}", other.map_err(|p| p.short())))),
                );
                return;
            }
        }
    }
    if gone.contains(&target) {
        return;
    }
    // idempotence
    if guard(|| xot.remove_insignificant_whitespace(target)).is_err() {
        ctx.violation("second application panicked", "C18/second-call/panic".to_string(), J::obj().set("tree", a.to_json()));
        return;
    }
    match guard(|| snap::snap(&xot, built.node)) {
        Ok(Ok(s2)) if s2.tree == after.tree && s2.handles.flat_all() == after.handles.flat_all() => ctx.count("second_application_no_change"),
        _ => {
            ctx.violation(
                "a second application changed the tree",
                "C18/second-call/changed".to_string(),
                J::obj().set("tree", a.to_json()).set("after_first", after.tree.to_json()),
            );
        }
    }
}

fn forced() -> Vec<ANode> {
    let e = |n: &str| ANode::elem(QName::plain(n));
    let sp = |v: &str| (QName::new(XML_NS, "space"), v.to_string());
    let mut v = vec![
        e("a").with_children(vec![ANode::text(" "), e("b"), ANode::text("\n\t\r ")]),
        e("a").with_children(vec![ANode::text("\u{a0}")]),
        e("a").with_children(vec![ANode::text("\u{2003}"), e("b"), ANode::text(" ")]),
        e("a").with_children(vec![ANode::text(" "), e("b"), ANode::text("x"), e("c"), ANode::text(" ")]),
        e("a").with_children(vec![ANode::text(" "), ANode::text("x")]),
        e("a").with_children(vec![ANode::text(""), e("b")]),
        ANode::doc(vec![ANode::text(" "), e("r"), ANode::text("\n")]),
    ];
    let mut p = e("a");
    p.attrs.push(sp("preserve"));
    let mut d = e("b");
    d.attrs.push(sp("default"));
    d.children = vec![ANode::text(" "), e("c").with_children(vec![ANode::text(" ")])];
    let mut o = e("o");
    o.attrs.push(sp("other"));
    o.children = vec![ANode::text(" ")];
    p.children = vec![ANode::text(" "), d, ANode::text(" "), o, e("k").with_children(vec![ANode::text("  ")])];
    v.push(p);
    v
}

impl Monitor for C18 {
    fn id(&self) -> &'static str {
        "C18"
    }
    fn streams(&self, tier: Tier, budget: f64) -> Vec<Stream> {
        let n = match tier {
            Tier::Quick => 1_000_000,
            Tier::Thorough => 5_000_000,
        };
        vec![Stream::new("forced", forced().len() as u64 * 3), Stream::new("random", scaled(n, budget))]
    }
    fn rule(&self) -> String {
        "trees with whitespace-only, mixed and non-whitespace text (incl. U+000B, U+000C, U+001C, U+001F, U+00A0, U+0085, U+2003, U+2028, U+3000, empty and adjacent text nodes) in every sibling arrangement and xml:space in {preserve, default, other, empty} at any depth; applied to documents, elements, inner nodes and (where no consolidation merge can interfere) inner text nodes themselves; before-tree + handles minus the predicted nodes must equal the after-tree + handles, and a second call must change nothing. Non-trivial = tree with >= 1 whitespace-only text node and >= 3 nodes; distinct by structural hash".into()
    }
    fn floors(&self, _tier: Tier) -> Vec<(&'static str, u64)> {
        vec![("after_state_equal_to_prediction", 5_000), ("text_nodes_predicted_removed", 5_000), ("feature.xml_space_preserve", 500), ("feature.unicode_space_text", 500), ("inner_text_node_as_target", 500)]
    }
    fn assumptions(&self) -> Vec<String> {
        vec!["trees <= 30 nodes, depth <= 6".into()]
    }
    fn run_case(&self, stream: usize, idx: u64, rng: &mut Rng, ctx: &mut Ctx) {
        if stream == 0 {
            let f = forced();
            let a = f[(idx as usize) / 3].clone();
            let t = match idx % 3 {
                0 => Some(0),
                1 => Some(1),
                _ => None,
            };
            run(ctx, &a, rng, t);
            return;
        }
        let mut cfg = GenCfg::default();
        cfg.max_nodes = *rng.pick(&[5, 12, 30]);
        cfg.max_depth = *rng.pick(&[2, 4, 6]);
        // namespace nodes in front of the attribute nodes on one element in three
        cfg.ns_mode = if rng.chance(1, 3) { NsMode::Consistent } else { NsMode::None };
        cfg.text = TextProfile::Whitespace;
        cfg.allow_adjacent_text = true;
        cfg.allow_empty_text = true;
        cfg.xml_space = true;
        cfg.fragment = rng.chance(1, 3);
        cfg.max_attrs = 1;
        let a = match rng.below(8) {
            0 => ANode::text(&gen::whitespace_string(rng, 0, 3)),
            1 | 2 => gen::gen_element(rng, &cfg),
            _ => gen::gen_document(rng, &cfg),
        };
        let mut ws = 0;
        let mut uni = false;
        let mut pres = false;
        a.walk(&mut |n| {
            if n.kind == AKind::Text {
                if xml_ws_only(&n.text) {
                    ws += 1;
                } else if n.text.chars().all(|c| c.is_whitespace()) {
                    uni = true;
                }
            }
            if n.attrs.iter().any(|(q, v)| q.local == "space" && v == "preserve") {
                pres = true;
            }
        });
        if uni {
            ctx.count("feature.unicode_space_text");
        }
        if pres {
            ctx.count("feature.xml_space_preserve");
        }
        if ws >= 1 && a.count() >= 3 {
            ctx.nontrivial(a.structural_hash());
        }
        run(ctx, &a, rng, None);
        ctx.sample(|| J::obj().set("tree", a.to_json()));
    }
}
