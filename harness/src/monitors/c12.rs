//! C12 — a clone is equal to its source and shares nothing with it.

use super::common::*;
use crate::adoc::*;
use crate::driver::*;
use crate::engine::{guard, Ctx, Monitor, Stream, Tier};
use crate::gen::Scope;
use crate::json::J;
use crate::model::MKind;
use crate::rng::Rng;
use crate::snap::{self, HTree};
use crate::xmlread;
use std::collections::HashSet;
use xot::{Node, Xot};

pub struct C12;

#[derive(Clone, PartialEq, Debug)]
struct TreeState {
    tree: ANode,
    handles: Vec<Node>,
}

fn tree_state(xot: &Xot, root: Node) -> Result<TreeState, String> {
    match guard(|| snap::snap(xot, root)) {
        Ok(Ok(s)) => Ok(TreeState { tree: s.tree, handles: s.handles.flat_all() }),
        Ok(Err(e)) => Err(e),
        Err(p) => Err(p.short()),
    }
}

fn roots(xot: &Xot) -> Vec<Node> {
    xot.verif_live_nodes().into_iter().filter(|n| xot.parent(*n).is_none()).collect()
}

fn forest_state(xot: &Xot) -> Result<Vec<(Node, TreeState)>, String> {
    let mut v = Vec::new();
    for r in roots(xot) {
        v.push((r, tree_state(xot, r)?));
    }
    Ok(v)
}

fn root_of(xot: &Xot, n: Node) -> Node {
    parent_chain(xot, n, 100_000).last().copied().unwrap_or(n)
}

/// in-scope bindings at the parent of `n`, read through declarations only (no scope API)
fn parent_scope(xot: &Xot, n: Node) -> Scope {
    let mut chain = parent_chain(xot, n, 100_000);
    chain.reverse();
    let mut sc = Scope::new();
    for a in chain {
        if xot.is_element(a) {
            let d: Vec<(String, String)> = xot.namespaces(a).iter().map(|(p, u)| (xot.prefix_str(p).to_string(), xot.namespace_str(*u).to_string())).collect();
            sc.push_all(&d);
        }
    }
    sc
}

/// random mutations confined to the tree under `side_root`; returns the calls made
fn mutate_side(f: &mut Forest, side_root: Node, rng: &mut Rng, n_ops: usize, ctx: &mut Ctx) -> Vec<String> {
    let gen = OpGen { legal_only: true, allow_consolidation_toggle: false, allow_unmodelled: false };
    let mut log = Vec::new();
    let mut done = 0;
    let mut attempts = 0;
    while done < n_ops && attempts < n_ops * 30 {
        attempts += 1;
        if guard(|| f.xot.is_removed(side_root)).unwrap_or(true) {
            break;
        }
        let op = match guard(|| gen.gen(f, rng)) {
            Ok(Some(op)) => op,
            _ => break,
        };
        if matches!(op, Op::Parse(_) | Op::NewLeaf(_) | Op::NewAttrNode(..) | Op::NewNsNode(..) | Op::CloneNode(_) | Op::CloneWithPrefixes(_) | Op::NewDocWithElement(_)) {
            continue;
        }
        let (a, b) = op.args();
        let inside = |n: Option<Node>| n.map(|n| guard(|| root_of(&f.xot, n) == side_root).unwrap_or(false)).unwrap_or(true);
        if !inside(a) || !inside(b) {
            continue;
        }
        log.push(guard(|| describe_op(&f.xot, &op)).unwrap_or_default());
        let out = exec(&mut f.xot, &op);
        ctx.count(&format!("side_mutation.{}", out.class()));
        if let Outcome::Panic(p) = &out {
            eprintln!("C12 note: side mutation panicked: {} :: {}", log.last().cloned().unwrap_or_default(), p.short());
        }
        done += 1;
    }
    log
}

impl C12 {
    fn clone_case(&self, rng: &mut Rng, ctx: &mut Ctx) {
        let c1 = rng.chance(2, 3);
        let mut f = match guard(|| Forest::random(rng, false, c1)) {
            Ok(Ok(f)) => f,
            _ => {
                ctx.count("start_forest_failed");
                return;
            }
        };
        let c2 = if rng.chance(1, 3) { !c1 } else { c1 };
        f.xot.set_text_consolidation(c2);
        let live = f.live_handles();
        if live.is_empty() {
            return;
        }
        // one forest in eight: an element spells out the (redundant, legal) declaration of the xml prefix, as a parsed
        // document may and as clone_with_prefixes itself may leave it on a clone
        if rng.chance(1, 8) {
            let elems: Vec<Node> = live.iter().copied().filter(|n| kind_of(&f.xot, *n) == MKind::Elem).collect();
            if !elems.is_empty() {
                let e = elems[rng.below(elems.len())];
                let (xp, xn) = (f.xot.xml_prefix(), f.xot.xml_namespace());
                f.xot.namespaces_mut(e).insert(xp, xn);
                ctx.count("forests_with_an_explicit_xml_prefix_declaration");
            }
        }
        let live = f.live_handles();
        let src = live[rng.below(live.len())];
        let src_kind = kind_of(&f.xot, src);
        let with_prefixes = rng.chance(1, 3);
        // an earlier clone_with_prefixes call on another node of the forest: nothing of it may reach this clone
        if rng.chance(1, 3) {
            let attached: Vec<Node> = live.iter().copied().filter(|n| kind_of(&f.xot, *n) == MKind::Elem && f.xot.parent(*n).is_some() && *n != src).collect();
            if !attached.is_empty() {
                let other = attached[rng.below(attached.len())];
                if let Ok(c0) = guard(|| f.xot.clone_with_prefixes(other)) {
                    let _ = guard(|| f.xot.remove(c0));
                    ctx.count("clones_after_an_earlier_clone_with_prefixes");
                }
            }
        }
        let before = match forest_state(&f.xot) {
            Ok(b) => b,
            Err(_) => return,
        };
        let src_state = match tree_state(&f.xot, src) {
            Ok(s) => s,
            Err(_) => return,
        };
        let api = if with_prefixes { "clone_with_prefixes" } else { "clone_node" };
        let start_desc = trunc(&f.show_real(), 1200);
        let base = |what: String| {
            J::obj()
                .set("forest", J::s(start_desc.clone()))
                .set("source", src_state.tree.to_json())
                .set("api", J::s(api))
                .set("consolidation_when_built", J::Bool(c1))
                .set("consolidation_when_cloned", J::Bool(c2))
                .set("what", J::s(what))
        };
        let in_place_ser = if src_kind == MKind::Elem { ser(&f.xot, src).ok().and_then(|r| r.ok()) } else { None };
        let pscope = parent_scope(&f.xot, src);
        let c = match guard(|| if with_prefixes { f.xot.clone_with_prefixes(src) } else { f.xot.clone_node(src) }) {
            Ok(c) => c,
            Err(p) => {
                ctx.violation("cloning panicked", format!("C12/{}/panic/{}/{}", api, src_kind.short(), p.sig()), base(p.short()));
                return;
            }
        };
        ctx.count(&format!("cloned.{}.{}", api, src_kind.short()));
        if f.xot.parent(c).is_some() {
            ctx.violation("the clone has a parent", format!("C12/{}/clone-attached/{}", api, src_kind.short()), base(String::new()));
            return;
        }
        let cl = match tree_state(&f.xot, c) {
            Ok(s) => s,
            Err(e) => {
                ctx.violation("the clone cannot be read back", format!("C12/{}/clone-unreadable/{}", api, src_kind.short()), base(e));
                return;
            }
        };
        // entirely new nodes
        let old: HashSet<Node> = live.iter().copied().collect();
        if cl.handles.iter().any(|h| old.contains(h)) {
            ctx.violation("the clone shares a node with a pre-existing tree", format!("C12/{}/shares-node/{}", api, src_kind.short()), base(String::new()));
            return;
        }
        // the source and everything else is unchanged
        match forest_state(&f.xot) {
            Ok(after) => {
                let after_old: Vec<&(Node, TreeState)> = after.iter().filter(|(r, _)| *r != c).collect();
                if after_old.len() != before.len() || after_old.iter().zip(before.iter()).any(|(a, b)| **a != *b) {
                    ctx.violation("cloning changed the source forest", format!("C12/{}/source-changed/{}", api, src_kind.short()), base(String::new()));
                    return;
                }
            }
            Err(e) => {
                ctx.violation("forest unreadable after cloning", format!("C12/{}/forest-unreadable", api), base(e));
                return;
            }
        }
        // equal to the source (adjacent text of the source merged when consolidation is on)
        let mut want = if c2 { src_state.tree.merge_adjacent_text() } else { src_state.tree.clone() };
        if c2 && c1 != c2 {
            ctx.count("cloned_adjacent_text_source_under_consolidation_on");
        }
        let mut got = cl.tree.clone();
        if with_prefixes && src_kind == MKind::Elem {
            // extra declarations: appended, from the parent's scope, never overriding a local one
            let own = want.decls.len();
            if got.decls.len() < own || got.decls[..own] != want.decls[..] {
                ctx.violation(
                    "clone_with_prefixes altered the element's own declarations",
                    "C12/clone_with_prefixes/own-declarations-changed".to_string(),
                    base(format!("{:?} became {:?}", want.decls, got.decls)),
                );
                return;
            }
            let mut pb = pscope.bindings();
            pb.push(("xml".into(), XML_NS.into()));
            for extra in &got.decls[own..] {
                if !pb.contains(extra) || want.decls.iter().any(|(p, _)| *p == extra.0) {
                    ctx.violation(
                        "clone_with_prefixes added a declaration that is not an inherited binding",
                        "C12/clone_with_prefixes/extra-declaration-not-inherited".to_string(),
                        base(format!("added {:?}; bindings in scope at the parent: {:?}", extra, pb)),
                    );
                    return;
                }
            }
            got.decls.truncate(own);
            let _ = &mut want;
        }
        if got != want {
            let d = first_diff(&want, &got).unwrap_or_default();
            ctx.violation(
                "the clone is not equal to its source",
                format!("C12/{}/differs/{}/{}", api, src_kind.short(), diff_class(&d)),
                base(d).set("clone", cl.tree.to_json()),
            );
            return;
        }
        ctx.count("clones_equal_to_source");
        // a cloned document: whatever xml_id_node finds in it is one of ITS nodes (or nothing), never a source node
        if src_kind == MKind::Doc {
            let mut ids: Vec<String> = Vec::new();
            src_state.tree.walk(&mut |n| {
                for (q, v) in &n.attrs {
                    if q.ns == XML_NS && q.local == "id" {
                        ids.push(v.clone());
                    }
                }
            });
            let mine: HashSet<Node> = cl.handles.iter().copied().collect();
            for id in ids.iter().chain(std::iter::once(&"i1".to_string())) {
                match guard(|| f.xot.xml_id_node(c, id)) {
                    Ok(None) => {}
                    Ok(Some(n)) if mine.contains(&n) => ctx.count("xml_id_lookups_in_clone"),
                    Ok(Some(n)) => {
                        ctx.violation(
                            "xml_id_node on the cloned document hands out a node that is not part of the clone",
                            format!("C12/{}/xml-id-lookup-leaves-the-clone/{}", api, if old.contains(&n) { "source-node" } else { "foreign-node" }),
                            base(format!("xml_id_node(clone, {:?}) = {}", id, guard(|| describe(&f.xot, n)).unwrap_or_default())),
                        );
                        return;
                    }
                    Err(p) => {
                        ctx.violation("xml_id_node on the clone panicked", format!("C12/{}/xml-id-lookup/panic/{}", api, p.sig()), base(p.short()));
                        return;
                    }
                }
            }
            ctx.count("cloned_documents_xml_id_probed");
        }
        // clone_with_prefixes: serialises on its own whenever the source serialised in place
        if with_prefixes && src_kind == MKind::Elem {
            if let Some(text_src) = &in_place_ser {
                match ser(&f.xot, c) {
                    Ok(Ok(text_c)) => {
                        let a = xmlread::read(text_src, true).map(|t| t.canon());
                        let b = xmlread::read(&text_c, true).map(|t| t.canon());
                        if a.is_ok() && a != b {
                            ctx.violation(
                                "the clone serialises to names that mean something else than in the source",
                                "C12/clone_with_prefixes/serialisation-names-differ".to_string(),
                                base(format!("source in place: {:?}; clone: {:?}", trunc(text_src, 500), trunc(&text_c, 500))),
                            );
                            return;
                        }
                        ctx.count("clone_with_prefixes_serialises");
                    }
                    other => {
                        // cause predicate (ledger F28): an attribute namespace bound only as default inside the subtree
                        ctx.violation(
                            "the clone does not serialise although the source serialised in place",
                            "C12/clone_with_prefixes/clone-not-serialisable".to_string(),
                            base(format!("source in place: {:?}; clone: {:?}", trunc(text_src, 500), other.map(|r| r.map_err(|e| format!("{:?}", e))).map_err(|p| p.short()))),
                        );
                        return;
                    }
                }
            }
        }
        // independence: mutate one side, the other must not move
        if !matches!(src_kind, MKind::Doc | MKind::Elem) {
            return;
        }
        let src_root = root_of(&f.xot, src);
        let mutate_clone = rng.bool();
        let (side, other) = if mutate_clone { (c, src_root) } else { (src_root, c) };
        let other_before = match tree_state(&f.xot, other) {
            Ok(s) => s,
            Err(_) => return,
        };
        let n_ops = rng.range(5, 30);
        let log = mutate_side(&mut f, side, rng, n_ops, ctx);
        match tree_state(&f.xot, other) {
            Ok(s) if s == other_before => ctx.count("other_side_untouched"),
            Ok(s) => {
                let d = first_diff(&other_before.tree, &s.tree).unwrap_or_else(|| "handles differ".into());
                ctx.violation(
                    "a mutation of one side is visible on the other",
                    format!("C12/{}/mutation-leaks/{}", api, if mutate_clone { "clone-mutated" } else { "source-mutated" }),
                    base(d).set("mutations", J::Arr(log.iter().map(|s| J::s(s.clone())).collect())),
                );
                return;
            }
            Err(e) => {
                ctx.violation(
                    "the untouched side became unreadable",
                    format!("C12/{}/mutation-leaks/unreadable", api),
                    base(e).set("mutations", J::Arr(log.iter().map(|s| J::s(s.clone())).collect())),
                );
                return;
            }
        }
        if log.len() >= 3 {
            let mut h = std::collections::hash_map::DefaultHasher::new();
            use std::hash::{Hash, Hasher};
            start_desc.hash(&mut h);
            log.hash(&mut h);
            ctx.nontrivial(h.finish());
        }
        ctx.sample(|| base(String::new()).set("mutations", J::Arr(log.iter().take(12).map(|s| J::s(s.clone())).collect())));
    }

    /// clone_with_prefixes on declaration layouts where the needed binding is inherited
    fn prefix_layout_case(&self, rng: &mut Rng, ctx: &mut Ctx, idx: u64) {
        use crate::build::{self, AttrStyle, Route};
        let e = |ns: &str, n: &str| ANode::elem(QName::new(ns, n));
        let forced: Vec<ANode> = vec![
            // the attribute's namespace is bound inside the subtree only as default (ledger F28)
            e("", "r").with_decl("p", "urn:A").with_children(vec![e("urn:A", "e").with_decl("", "urn:A").with_attr(QName::new("urn:A", "at"), "v")]),
            e("", "r").with_decl("p", "urn:A").with_children(vec![e("urn:A", "e").with_decl("", "urn:A").with_children(vec![e("urn:A", "f").with_attr(QName::new("urn:A", "at"), "v")])]),
            // a namespace used twice: once under a local declaration, once relying on the inherited one
            e("", "r").with_decl("x", "urn:A").with_children(vec![e("", "a").with_children(vec![e("", "b").with_decl("y", "urn:A").with_children(vec![e("urn:A", "c")]), e("urn:A", "d")])]),
            // inherited default namespace
            e("urn:A", "r").with_decl("", "urn:A").with_children(vec![e("urn:A", "e").with_children(vec![e("urn:A", "f")])]),
            // the xml prefix rebound by an ancestor (the API allows it): the clone needs that binding like any other
            e("", "r").with_decl("xml", "urn:A").with_children(vec![e("", "e").with_children(vec![e("urn:A", "f")])]),
            e("", "r").with_decl("xml", "urn:A").with_children(vec![e("", "e").with_attr(QName::new("urn:A", "at"), "v")]),
            // inherited binding shadowed below the clone root for another subtree
            e("", "r").with_decl("p", "urn:A").with_children(vec![e("", "e").with_children(vec![e("urn:A", "f"), e("", "g").with_decl("p", "urn:B").with_children(vec![e("urn:B", "h")])])]),
        ];
        let a = if (idx as usize) < forced.len() * 2 {
            forced[(idx as usize) % forced.len()].clone()
        } else {
            // random consistent layouts
            let mut cfg = crate::gen::GenCfg::default();
            cfg.max_nodes = 12;
            cfg.max_depth = 5;
            cfg.text = crate::gen::TextProfile::Plain;
            cfg.str_len = 2;
            cfg.ns_mode = crate::gen::NsMode::Consistent;
            cfg.comments = false;
            cfg.pis = false;
            crate::gen::gen_element(rng, &cfg)
        };
        let mut xot = Xot::new();
        let built = match guard(|| build::build(&mut xot, &a, Route::TopDown, AttrStyle::Map)) {
            Ok(Ok(h)) => h,
            _ => return,
        };
        let elems: Vec<Node> = built.flat().into_iter().filter(|n| xot.is_element(*n) && xot.parent(*n).is_some()).collect();
        for src in elems {
            let text_src = match ser(&xot, src) {
                Ok(Ok(t)) => t,
                _ => continue,
            };
            let c = match guard(|| xot.clone_with_prefixes(src)) {
                Ok(c) => c,
                Err(p) => {
                    ctx.violation("clone_with_prefixes panicked", format!("C12/clone_with_prefixes/panic/{}", p.sig()), J::obj().set("tree", a.to_json()).set("panic", J::s(p.short())));
                    return;
                }
            };
            let src_desc = guard(|| describe(&xot, src)).unwrap_or_default();
            match ser(&xot, c) {
                Ok(Ok(text_c)) => {
                    let x = xmlread::read(&text_src, true).map(|t| t.canon());
                    let y = xmlread::read(&text_c, true).map(|t| t.canon());
                    if x.is_ok() && x != y {
                        ctx.violation(
                            "the clone serialises to names that mean something else than in the source",
                            "C12/clone_with_prefixes/serialisation-names-differ".to_string(),
                            J::obj().set("tree", a.to_json()).set("source", J::s(src_desc)).set("source_in_place", J::s(text_src)).set("clone", J::s(text_c)),
                        );
                        return;
                    }
                    ctx.count("clone_with_prefixes_serialises");
                }
                other => {
                    ctx.violation(
                        "the clone does not serialise although the source serialised in place",
                        "C12/clone_with_prefixes/clone-not-serialisable".to_string(),
                        J::obj().set("tree", a.to_json()).set("source", J::s(src_desc)).set("source_in_place", J::s(text_src)).set("clone_result", J::s(format!("{:?}", other.map(|r| r.map_err(|e| format!("{:?}", e))).map_err(|p| p.short())))),
                    );
                    return;
                }
            }
        }
        // after all those calls on attached elements: an UNATTACHED copy has nothing to inherit, so
        // clone_with_prefixes of it is exactly clone_node of it
        let attached: Vec<Node> = built.flat().into_iter().filter(|n| xot.is_element(*n) && xot.parent(*n).is_some()).collect();
        for src in attached.into_iter().take(3) {
            let r = guard(|| {
                let c0 = xot.clone_node(src);
                let c2 = xot.clone_with_prefixes(c0);
                (snap::snap_tree(&xot, c0), snap::snap_tree(&xot, c2))
            });
            match r {
                Ok((Ok(t0), Ok(t2))) => {
                    if t0 != t2 {
                        ctx.violation(
                            "clone_with_prefixes of an unattached element differs from the element (nothing can be inherited there)",
                            "C12/clone_with_prefixes/unattached-source/differs".to_string(),
                            J::obj().set("tree", a.to_json()).set("unattached_source", t0.to_json()).set("clone", t2.to_json()),
                        );
                        return;
                    }
                    ctx.count("clone_with_prefixes_of_unattached_copies");
                }
                Err(p) => {
                    ctx.violation("cloning panicked", format!("C12/clone_with_prefixes/panic/{}", p.sig()), J::obj().set("tree", a.to_json()).set("panic", J::s(p.short())));
                    return;
                }
                _ => {}
            }
        }
        ctx.nontrivial(a.structural_hash());
    }

    fn xot_clone_case(&self, rng: &mut Rng, ctx: &mut Ctx) {
        let c1 = rng.chance(2, 3);
        let mut f = match guard(|| Forest::random(rng, false, c1)) {
            Ok(Ok(f)) => f,
            _ => return,
        };
        // some history first so that the arena has holes and the lookups have entries
        for _ in 0..rng.range(0, 10) {
            let gen = OpGen { legal_only: true, allow_consolidation_toggle: false, allow_unmodelled: true };
            if let Ok(Some(op)) = guard(|| gen.gen(&f, rng)) {
                let _ = exec(&mut f.xot, &op);
            }
        }
        // a parsed document with xml:id values: the id index must be cloned too
        let id_doc = guard(|| f.xot.parse("<r xml:id=\"i1\"><s xml:id=\"i2\"/>t</r>")).ok().and_then(|r| r.ok());
        let before = match forest_state(&f.xot) {
            Ok(b) => b,
            Err(_) => return,
        };
        // Clone::clone, or Clone::clone_from into a store with a history of its own
        let via_clone_from = rng.bool();
        let copy = match guard(|| {
            if via_clone_from {
                let mut t = Xot::new();
                t.add_prefix("zold");
                t.add_name("zoldn");
                t.add_namespace("urn:zold");
                let _ = t.parse("<zq:old xmlns:zq=\"urn:zold\" zq:k=\"v\"><x/></zq:old>");
                t.clone_from(&f.xot);
                t
            } else {
                f.xot.clone()
            }
        }) {
            Ok(c) => c,
            Err(p) => {
                ctx.violation("Xot::clone panicked", format!("C12/Xot::clone/panic/{}", p.sig()), J::obj().set("panic", J::s(p.short())));
                return;
            }
        };
        let start_desc = trunc(&f.show_real(), 1000);
        // every handle denotes an equal node in the copy
        match forest_state(&copy) {
            Ok(s) if s == before => ctx.count(if via_clone_from { "xot_clone_from_equal" } else { "xot_clone_equal" }),
            other => {
                ctx.violation(
                    "handles denote other nodes in the cloned Xot",
                    "C12/Xot::clone/differs".to_string(),
                    J::obj().set("forest", J::s(start_desc)).set("what", J::s(format!("{:?}", other.map(|_| "forest differs")))),
                );
                return;
            }
        }
        // the id index and the consolidation switch are part of the store
        if let Some(d) = id_doc {
            for id in ["i1", "i2", "nosuch"] {
                let a = guard(|| f.xot.xml_id_node(d, id)).ok();
                let b = guard(|| copy.xml_id_node(d, id)).ok();
                if a != b {
                    ctx.violation(
                        "xml_id_node answers differently in the cloned Xot",
                        "C12/Xot::clone/xml-id-index-differs".to_string(),
                        J::obj().set("id", J::s(id)).set("original", J::s(format!("{:?}", a))).set("clone", J::s(format!("{:?}", b))),
                    );
                    return;
                }
            }
            ctx.count("xot_clone_id_index_checked");
        }
        if f.xot.verif_text_consolidation() != copy.verif_text_consolidation() {
            ctx.violation(
                "the text-consolidation switch differs in the cloned Xot",
                "C12/Xot::clone/consolidation-switch-differs".to_string(),
                J::obj().set("original", J::Bool(f.xot.verif_text_consolidation())).set("clone", J::Bool(copy.verif_text_consolidation())),
            );
            return;
        }
        // ... also behaviourally: the same two appends give the same result in both stores
        {
            let mut a = f.xot.clone();
            let mut b = copy.clone();
            let probe = |x: &mut Xot| -> Option<usize> {
                let n = x.add_name("probe");
                let e = x.new_element(n);
                x.append_text(e, "a").ok()?;
                x.append_text(e, "b").ok()?;
                Some(x.children(e).count())
            };
            let ra = guard(|| probe(&mut a)).ok().flatten();
            let rb = guard(|| probe(&mut b)).ok().flatten();
            if ra != rb {
                ctx.violation(
                    "the same calls behave differently in the cloned Xot",
                    "C12/Xot::clone/behaviour-differs".to_string(),
                    J::obj().set("original_children_after_two_append_text", J::s(format!("{:?}", ra))).set("clone", J::s(format!("{:?}", rb))),
                );
                return;
            }
        }
        // mutate one store, the other must not move
        let mut other = Forest { xot: copy, model: crate::model::Model::new(), map: Default::default(), leaks: 0, garbage: Default::default(), consolidation_ever_off: false, with_model: false };
        let mutate_copy = rng.bool();
        let gen = OpGen { legal_only: false, allow_consolidation_toggle: true, allow_unmodelled: true };
        let mut log = Vec::new();
        for _ in 0..rng.range(5, 30) {
            let target: &mut Forest = if mutate_copy { &mut other } else { &mut f };
            if let Ok(Some(op)) = guard(|| gen.gen(target, rng)) {
                log.push(guard(|| describe_op(&target.xot, &op)).unwrap_or_default());
                let o = exec(&mut target.xot, &op);
                if matches!(o, Outcome::Panic(_)) {
                    break;
                }
                if crate::walker::walk(&target.xot, &target.live_handles(), false).is_some() {
                    break;
                }
            }
        }
        let untouched = if mutate_copy { &f.xot } else { &other.xot };
        match forest_state(untouched) {
            Ok(s) if s == before => ctx.count("other_store_untouched"),
            _ => {
                ctx.violation(
                    "a mutation of one Xot is visible in its clone",
                    format!("C12/Xot::clone/mutation-leaks/{}", if mutate_copy { "copy-mutated" } else { "original-mutated" }),
                    J::obj().set("forest", J::s(start_desc)).set("mutations", J::Arr(log.iter().map(|s| J::s(s.clone())).collect())),
                );
                return;
            }
        }
        if log.len() >= 3 {
            let mut h = std::collections::hash_map::DefaultHasher::new();
            use std::hash::{Hash, Hasher};
            start_desc.hash(&mut h);
            log.hash(&mut h);
            ctx.nontrivial(h.finish());
        }
    }
}

impl Monitor for C12 {
    fn id(&self) -> &'static str {
        "C12"
    }
    fn streams(&self, tier: Tier, budget: f64) -> Vec<Stream> {
        let (a, b) = match tier {
            Tier::Quick => (300_000, 40_000),
            Tier::Thorough => (2_000_000, 300_000),
        };
        vec![Stream::new("clone-then-mutate", scaled(a, budget)), Stream::new("xot-clone", scaled(b, budget)), Stream::new("clone-with-prefixes-layouts", scaled(b, budget))]
    }
    fn rule(&self) -> String {
        "source nodes of every kind (document, fragment, element with attribute and namespace nodes, text, comment, PI, attribute node, namespace node) in random forests, incl. sources with adjacent text nodes built under consolidation off and cloned under on (and vice versa); clone_node / clone_with_prefixes must return a parentless tree of entirely new nodes that reads back equal to the source (adjacent text merged when consolidation is on; extra declarations of clone_with_prefixes appended and inherited), leave the whole forest unchanged, serialise on its own when the source serialised in place (independent reader), and after 5-30 random manipulation calls confined to one side the other side must read back unchanged (values and handles); Xot::clone: every handle reads back equal in the copy, and 5-30 arbitrary calls on one store leave the other unchanged. Non-trivial = >= 3 mutations on one side; distinct by hash of forest + mutation list".into()
    }
    fn floors(&self, _tier: Tier) -> Vec<(&'static str, u64)> {
        vec![
            ("clones_equal_to_source", 10_000),
            ("other_side_untouched", 5_000),
            ("clone_with_prefixes_serialises", 500),
            ("cloned_adjacent_text_source_under_consolidation_on", 500),
            ("xot_clone_equal", 2_000),
            ("other_store_untouched", 2_000),
            ("cloned.clone_node.attr", 200),
            ("cloned.clone_node.ns", 100),
        ]
    }
    fn assumptions(&self) -> Vec<String> {
        vec!["mutations on one side are precondition-satisfying calls whose node arguments all lie in that side's tree".into()]
    }
    fn run_case(&self, stream: usize, _idx: u64, rng: &mut Rng, ctx: &mut Ctx) {
        match stream {
            0 => self.clone_case(rng, ctx),
            1 => self.xot_clone_case(rng, ctx),
            _ => self.prefix_layout_case(rng, ctx, _idx),
        }
    }
}
