//! C04 (structural validity + handle meaning), C05 (ordered-tree model conformance),
//! C06 (refused calls change nothing; no panics) — one driver, three oracles.

use super::common::*;
use crate::adoc::*;
use crate::build::{AttrStyle, Route};
use crate::driver::*;
use crate::engine::{guard, Ctx, Monitor, Stream, Tier};
use crate::json::J;
use crate::model::MKind;
use crate::rng::Rng;
use crate::walker::{self, HandleTable};
use std::collections::{BTreeMap, HashMap, HashSet};
use xot::{Node, Xot};

#[derive(Clone, Copy, PartialEq, Eq, Debug)]
pub enum Which {
    C04,
    C05,
    C06,
}

pub struct Manip(pub Which);

// ---------------------------------------------------------------------------------------------
// small-state catalogue (exhaustive stream)

fn seqs(alphabet: &[char], max: usize) -> Vec<Vec<char>> {
    let mut out: Vec<Vec<char>> = vec![vec![]];
    let mut cur: Vec<Vec<char>> = vec![vec![]];
    for _ in 0..max {
        let mut next = Vec::new();
        for s in &cur {
            for a in alphabet {
                let mut t = s.clone();
                t.push(*a);
                next.push(t);
            }
        }
        out.extend(next.iter().cloned());
        cur = next;
    }
    out
}

fn has_adjacent_text(s: &[char]) -> bool {
    s.windows(2).any(|w| w[0] == 'T' && w[1] == 'T')
}

#[derive(Clone, Debug)]
pub struct StartState {
    pub trees: Vec<ANode>,
    /// consolidation while the start state is built
    pub consolidation: bool,
    /// consolidation while the call under test runs (differs from `consolidation` for the states
    /// "built with adjacent text nodes, then switched on")
    pub call_consolidation: bool,
}

fn leaf(c: char, i: usize) -> ANode {
    match c {
        'T' => ANode::text(&format!("t{}", i)),
        'C' => ANode::comment(&format!("c{}", i)),
        _ => ANode::elem(QName::plain(&format!("e{}", i))),
    }
}

/// all start states of the catalogue (deterministic order)
pub fn catalogue() -> Vec<StartState> {
    let outer = seqs(&['T', 'E', 'C'], 3);
    // mixed mode (built with adjacent text, then consolidation on): also four children, so that a run of
    // three text nodes can sit next to a non-text reference node
    let outer4: Vec<Vec<char>> = seqs(&['T', 'E', 'C'], 4).into_iter().filter(|s| s.len() == 4 && s.windows(3).any(|w| w == ['T', 'T', 'T'])).collect();
    let inner = seqs(&['T', 'E', 'C'], 2);
    let mut out = Vec::new();
    for (consolidation, call_consolidation) in [(true, true), (false, false), (false, true)] {
        let mixed = !consolidation && call_consolidation;
        for o in outer.iter().chain(outer4.iter().filter(|_| mixed)) {
            // the mixed mode is only interesting when adjacent text nodes exist
            if !consolidation && call_consolidation && !has_adjacent_text(o) {
                continue;
            }
            if consolidation && has_adjacent_text(o) {
                continue;
            }
            let first_e = o.iter().position(|c| *c == 'E');
            let inners: Vec<Vec<char>> = if first_e.is_some() { inner.clone() } else { vec![vec![]] };
            for inn in &inners {
                if consolidation && has_adjacent_text(inn) {
                    continue;
                }
                for decorated in [false, true] {
                    for in_doc in [false, true] {
                        let mut r = ANode::elem(QName::plain("r"));
                        if decorated {
                            r = r.with_decl("p", "urn:A").with_attr(QName::plain("k"), "v");
                        }
                        for (i, c) in o.iter().enumerate() {
                            let mut n = leaf(*c, i);
                            if Some(i) == first_e {
                                for (j, d) in inn.iter().enumerate() {
                                    n.children.push(leaf(*d, 10 + j));
                                }
                                if decorated {
                                    n = n.with_attr(QName::plain("k"), "w").with_decl("q", "urn:B");
                                }
                            }
                            r.children.push(n);
                        }
                        let t1 = if in_doc { ANode::doc(vec![r]) } else { r };
                        let t2 = ANode::elem(QName::plain("z")).with_children(vec![ANode::text("zz")]);
                        out.push(StartState {
                            trees: vec![t1, t2],
                            consolidation,
                            call_consolidation,
                        });
                    }
                }
            }
        }
    }
    out
}

fn build_state(st: &StartState, with_model: bool) -> Result<Forest, String> {
    let mut f = Forest::empty(with_model);
    f.xot.set_text_consolidation(st.consolidation);
    f.model.consolidation = st.consolidation;
    f.consolidation_ever_off = !st.consolidation;
    for t in &st.trees {
        f.add_tree(t, Route::TopDown, AttrStyle::Map)?;
    }
    if st.call_consolidation != st.consolidation {
        f.xot.set_text_consolidation(st.call_consolidation);
        f.model.consolidation = st.call_consolidation;
    }
    Ok(f)
}

/// the two-node and one-node operation kinds enumerated exhaustively
fn exhaustive_ops(a: Node, b: Node) -> Vec<Op> {
    vec![
        Op::Append(a, b),
        Op::Prepend(a, b),
        Op::InsertAfter(a, b),
        Op::InsertBefore(a, b),
        Op::Replace(a, b),
        Op::AnyAppend(a, b),
        Op::AppendAttrNode(a, b),
        Op::AppendNsNode(a, b),
    ]
}
fn exhaustive_unary(a: Node) -> Vec<Op> {
    vec![
        Op::Detach(a),
        Op::Remove(a),
        Op::Wrap(a, QName::plain("w")),
        Op::Unwrap(a),
        Op::CloneNode(a),
        Op::AppendText(a, "x".to_string()),
        Op::TextContentMut(a, "y".to_string()),
        Op::NewDocWithElement(a),
        Op::ClearMap(a, true),
        Op::ClearMap(a, false),
    ]
}

// ---------------------------------------------------------------------------------------------
// C06: observable state before / after

#[derive(Clone, PartialEq, Eq, Debug)]
struct NodeState {
    value: String,
    parent: Option<Node>,
    prev: Option<Node>,
    next: Option<Node>,
    first: Option<Node>,
    last: Option<Node>,
}

#[derive(Clone, PartialEq, Debug)]
struct ForestState {
    nodes: HashMap<Node, NodeState>,
    serialised: BTreeMap<String, String>,
    /// the Xot's text-consolidation switch (a refused call must not flip it either)
    consolidation: bool,
}

fn forest_state(xot: &Xot) -> Result<ForestState, String> {
    let r = guard(|| {
        let live = xot.verif_live_nodes();
        let mut nodes = HashMap::new();
        let mut serialised = BTreeMap::new();
        for n in live.iter() {
            nodes.insert(
                *n,
                NodeState {
                    value: describe(xot, *n),
                    parent: xot.parent(*n),
                    prev: xot.previous_sibling(*n),
                    next: xot.next_sibling(*n),
                    first: xot.first_child(*n),
                    last: xot.last_child(*n),
                },
            );
            if xot.parent(*n).is_none() && kind_of(xot, *n).ordinary() && matches!(kind_of(xot, *n), MKind::Doc | MKind::Elem) {
                let s = match xot.to_string(*n) {
                    Ok(s) => s,
                    Err(e) => format!("Err({})", err_variant(&e)),
                };
                serialised.insert(format!("{:?}", n), s);
            }
        }
        ForestState { nodes, serialised, consolidation: xot.verif_text_consolidation() }
    });
    r.map_err(|p| format!("panic while taking the forest snapshot: {}", p.short()))
}

fn state_diff(a: &ForestState, b: &ForestState, xot: &Xot) -> String {
    if a.consolidation != b.consolidation {
        return format!("the text-consolidation switch of the Xot went from {} to {}", a.consolidation, b.consolidation);
    }
    for (n, s) in &a.nodes {
        match b.nodes.get(n) {
            None => return format!("node {} was live before the refused call and is gone after it", s.value),
            Some(t) if t != s => {
                if t.value != s.value {
                    return format!("value of a node changed from {} to {}", s.value, t.value);
                }
                return format!("relations of node {} changed (parent/siblings/children)", s.value);
            }
            _ => {}
        }
    }
    for (n, t) in &b.nodes {
        if !a.nodes.contains_key(n) {
            // a new node: only report when some old node can see it, i.e. when the tree it sits in has an old
            // root (nodes of a half-built tree that a refused parse leaves behind in the arena are reachable
            // from no handle the caller has; only the read-only hook sees them)
            let mut root = *n;
            let mut steps = 0;
            while let Some(p) = b.nodes.get(&root).and_then(|r| r.parent) {
                root = p;
                steps += 1;
                if steps > b.nodes.len() {
                    break;
                }
            }
            if t.parent.is_some() && a.nodes.contains_key(&root) {
                return format!("a new node {} is attached to the forest after the refused call", t.value);
            }
        }
    }
    if a.serialised != b.serialised {
        for (k, v) in &a.serialised {
            if b.serialised.get(k) != Some(v) {
                return format!("serialisation of a tree changed from {:?} to {:?}", v, b.serialised.get(k));
            }
        }
    }
    let _ = xot;
    String::new()
}

// ---------------------------------------------------------------------------------------------

struct Hist {
    ops: Vec<String>,
    start: String,
}

impl Hist {
    fn json(&self) -> J {
        J::obj()
            .set("start_forest", J::s(self.start.clone()))
            .set("calls", J::Arr(self.ops.iter().map(|s| J::s(s.clone())).collect()))
    }
}

impl Manip {
    fn prop(&self) -> &'static str {
        match self.0 {
            Which::C04 => "C04",
            Which::C05 => "C05",
            Which::C06 => "C06",
        }
    }

    /// run one call and apply this monitor's oracle; returns false when the history must stop
    fn step(&self, f: &mut Forest, op: &Op, table: &mut Option<HandleTable>, hist: &mut Hist, ctx: &mut Ctx, ids: &mut Vec<(Node, String)>) -> bool {
        let prop = self.prop();
        let opname = op.name();
        let c = match guard(|| cell(&f.xot, op)) {
            Ok(c) => c,
            Err(_) => "?".to_string(),
        };
        let nb = match op {
            Op::Append(_, n) | Op::Prepend(_, n) | Op::InsertAfter(_, n) | Op::InsertBefore(_, n) | Op::Replace(_, n) => {
                guard(|| text_neighbours(&f.xot, *n)).unwrap_or("?")
            }
            Op::Detach(n) | Op::Remove(n) | Op::Unwrap(n) => guard(|| text_neighbours(&f.xot, *n)).unwrap_or("?"),
            _ => "-",
        };
        let legal = guard(|| f.precondition(op)).unwrap_or(false);
        hist.ops.push(guard(|| describe_op(&f.xot, op)).unwrap_or_else(|_| opname.to_string()));
        let before = if self.0 == Which::C06 { forest_state(&f.xot).ok() } else { None };
        let live_before_parse = if matches!(op, Op::Parse(_)) { Some(f.xot.verif_live_nodes()) } else { None };
        let outcome = exec(&mut f.xot, op);
        if let (Some(b), Outcome::Err(_)) = (&live_before_parse, &outcome) {
            f.note_parse_garbage(b);
        }
        ctx.count(&format!("call.{}.{}", opname, outcome.class()));
        ctx.count(&format!("cell.{}.{}", opname, c.split('/').next().unwrap_or("")));
        if legal {
            ctx.count("calls_within_preconditions");
        } else {
            ctx.count("calls_outside_preconditions");
        }
        let detail = |f: &Forest, hist: &Hist, extra: &str| -> J {
            hist.json()
                .set("failing_call", J::s(hist.ops.last().cloned().unwrap_or_default()))
                .set("outcome", J::s(format!("{:?}", outcome).chars().take(300).collect::<String>()))
                .set("consolidation", J::Bool(f.model.consolidation && !f.consolidation_ever_off || f.xot.verif_text_consolidation()))
                .set("what", J::s(extra))
                .set("forest_after", J::s(trunc(&f.show_real(), 1500)))
        };
        match self.0 {
            Which::C05 => {
                if !legal {
                    return true;
                }
                match &outcome {
                    Outcome::Panic(p) => {
                        ctx.violation(
                            "a call satisfying the documented preconditions panicked",
                            format!("{}/{}/panic/{}/{}", prop, opname, c, p.sig()),
                            detail(f, hist, &p.short()),
                        );
                        return false;
                    }
                    Outcome::Err(_) => {
                        // The statement speaks of SUCCESSFUL calls: a library that validates more strictly than the
                        // documentation asks for refuses this call without breaking it. Whether the refusal left a trace is
                        // C06's business; the history ends here because the model has nothing to apply.
                        ctx.count("calls_within_preconditions_refused_not_judged");
                        ctx.count(&format!("refused_not_judged.{}", opname));
                        return false;
                    }
                    Outcome::NoneReturned if !matches!(op, Op::TextContentMut(..)) => {
                        ctx.violation(
                            "a setter on a node of the right kind returned None",
                            format!("{}/{}/none/{}", prop, opname, c),
                            detail(f, hist, "accessor returned None"),
                        );
                        return false;
                    }
                    _ => {}
                }
                if let Err(e) = f.apply_model(op, &outcome) {
                    let harness = e.starts_with("harness:") || e.contains("unknown to the model");
                    if harness {
                        ctx.count("harness_model_gap");
                        if std::env::var("XVM_DEBUG_GAP").is_ok() {
                            eprintln!("GAP {} :: {}", e, detail(f, hist, &e).to_string().chars().take(3000).collect::<String>());
                        }
                        ctx.count(&format!("harness_model_gap.{}.{}", opname, e.chars().take(60).collect::<String>().replace('.', "_")));
                        return false;
                    }
                    ctx.violation(
                        "result of the call cannot be matched with the ordered-tree model",
                        format!("{}/{}/binding/{}/{}", prop, opname, c, nb),
                        detail(f, hist, &e).set("model_after", J::s(trunc(&f.show_model(), 1500))),
                    );
                    return false;
                }
                for mg in &f.model.merges {
                    ctx.count(&format!("consolidation.run{}", mg.run.len().min(3)));
                }
                if let Some((clause, what)) = f.compare() {
                    ctx.violation(
                        "forest after the call differs from the ordered-tree model",
                        format!("{}/{}/{}/{}/{}", prop, opname, clause, c, nb),
                        detail(f, hist, &what).set("model_after", J::s(trunc(&f.show_model(), 1500))),
                    );
                    return false;
                }
                ctx.count("model_comparisons_equal");
                true
            }
            Which::C06 => {
                match &outcome {
                    Outcome::Panic(p) => {
                        let non_element_first = op.args().0.map(|a| guard(|| kind_of(&f.xot, a) != MKind::Elem).unwrap_or(true)).unwrap_or(false);
                        if op.documented_panic_family() && non_element_first {
                            ctx.count("documented_panics");
                            // the documented panic must not have changed anything either, but the
                            // statement does not say so; stop the history here
                            return false;
                        }
                        ctx.violation(
                            "a call on live nodes panicked",
                            format!("{}/{}/panic/{}/{}", prop, opname, c, p.sig()),
                            detail(f, hist, &p.short()),
                        );
                        return false;
                    }
                    Outcome::Err(e) => {
                        ctx.count(&format!("refusals.{}", opname));
                        ctx.count(&format!("refusal_cell.{}.{}", opname, c.split('/').next().unwrap_or("")));
                        let after = forest_state(&f.xot);
                        match (before, after) {
                            (Some(b), Ok(a)) => {
                                let d = state_diff(&b, &a, &f.xot);
                                if !d.is_empty() {
                                    ctx.violation(
                                        "a refused call changed the forest",
                                        format!("{}/{}/err-but-changed/{}", prop, opname, c),
                                        detail(f, hist, &format!("{} ; error was {}", d, e)),
                                    );
                                    return false;
                                }
                                ctx.count("refusals_checked_unchanged");
                            }
                            (_, Err(e2)) => {
                                ctx.violation(
                                    "forest unreadable after a refused call",
                                    format!("{}/{}/err-then-unreadable/{}", prop, opname, c),
                                    detail(f, hist, &e2),
                                );
                                return false;
                            }
                            _ => {}
                        }
                        true
                    }
                    _ => {
                        // successful call: keep going only on a sane forest (C04's business otherwise)
                        let live = f.live_handles();
                        if walker::walk(&f.xot, &live, false).is_some() {
                            ctx.count("abandoned_structurally_broken_forest");
                            return false;
                        }
                        true
                    }
                }
            }
            Which::C04 => {
                if let Outcome::Panic(_) = &outcome {
                    // panics are C06's business; the invariants are still checked below
                    ctx.count("panics_seen");
                }
                // a node handed out by a call is a live node (a call that merely echoes its own argument is not judged:
                // any_append(parent, text) returns the caller's text node even when consolidation has merged it away)
                if let Outcome::Ok(Some(r)) = &outcome {
                    let (a1, a2) = op.args();
                    let echo = a1 == Some(*r) || a2 == Some(*r);
                    if !echo && guard(|| f.xot.is_removed(*r)).unwrap_or(true) {
                        ctx.violation(
                            "a call handed out a removed node",
                            format!("{}/{}/I7-returned-node-is-removed/{}", prop, opname, c),
                            detail(f, hist, "the node returned by the call is_removed"),
                        );
                        return false;
                    }
                }
                if let (Op::Parse(s), Outcome::Ok(Some(d))) = (op, &outcome) {
                    for id in ["i1", "i2"] {
                        if s.contains(&format!("\"{}\"", id)) {
                            ids.push((*d, id.to_string()));
                        }
                    }
                }
                if let Op::SetConsolidation(false) = op {
                    f.consolidation_ever_off = true;
                }
                let live = match guard(|| f.xot.verif_live_nodes()) {
                    Ok(l) => l,
                    Err(_) => return false,
                };
                if let Some(b) = walker::walk(&f.xot, &live, !f.consolidation_ever_off) {
                    ctx.violation(
                        "structural invariant broken after a call",
                        format!("{}/{}/{}/{}/{}", prop, opname, b.invariant, c, outcome.class()),
                        detail(f, hist, &b.what),
                    );
                    return false;
                }
                ctx.count("walks_clean");
                if let Some(t) = table.as_mut() {
                    match guard(|| t.observe(&f.xot, &live)) {
                        Ok(Some(b)) => {
                            ctx.violation(
                                "handle lost its meaning",
                                format!("{}/{}/{}/{}", prop, opname, b.invariant, outcome.class()),
                                detail(f, hist, &b.what),
                            );
                            return false;
                        }
                        Err(p) => {
                            ctx.violation(
                                "accessor panicked on a handle",
                                format!("{}/{}/I7-accessor-panicked/{}", prop, opname, p.sig()),
                                detail(f, hist, &p.short()),
                            );
                            return false;
                        }
                        _ => {}
                    }
                }
                // xml_id_node never hands out a removed node
                for (d, id) in ids.iter() {
                    let alive_doc = guard(|| !f.xot.is_removed(*d)).unwrap_or(false);
                    if !alive_doc {
                        continue;
                    }
                    if let Ok(Some(n)) = guard(|| f.xot.xml_id_node(*d, id)) {
                        let removed = guard(|| f.xot.is_removed(n)).unwrap_or(true);
                        if removed || !live.contains(&n) {
                            ctx.violation(
                                "xml_id_node handed out a removed node",
                                format!("{}/{}/I8-xml_id_node-yields-removed-node", prop, opname),
                                detail(f, hist, &format!("xml_id_node(doc, {:?}) returned a node that has been removed", id)),
                            );
                            return false;
                        }
                        ctx.count("xml_id_lookups_live");
                    }
                }
                if matches!(outcome, Outcome::Panic(_)) {
                    return false;
                }
                true
            }
        }
    }

    fn random_history(&self, rng: &mut Rng, ctx: &mut Ctx) {
        let with_model = self.0 == Which::C05;
        let consolidation = if self.0 == Which::C04 { rng.chance(4, 5) } else { rng.chance(2, 3) };
        let mut f = match guard(|| Forest::random(rng, with_model, consolidation)) {
            Ok(Ok(f)) => f,
            Ok(Err(e)) => {
                ctx.count("start_forest_build_failed");
                ctx.violation(
                    "building the start forest through the creation API failed",
                    format!("{}/start-forest/build-failed", self.prop()),
                    J::obj().set("error", J::s(e)),
                );
                return;
            }
            Err(p) => {
                ctx.violation(
                    "building the start forest through the creation API panicked",
                    format!("{}/start-forest/panic/{}", self.prop(), p.sig()),
                    J::obj().set("panic", J::s(p.short())),
                );
                return;
            }
        };
        let gen = OpGen {
            legal_only: self.0 == Which::C05,
            allow_consolidation_toggle: self.0 != Which::C05,
            allow_unmodelled: self.0 != Which::C05,
        };
        let mut hist = Hist {
            ops: Vec::new(),
            start: trunc(&f.show_real(), 1200),
        };
        let mut table = if self.0 == Which::C04 { Some(HandleTable::new()) } else { None };
        if let Some(t) = table.as_mut() {
            let live = f.live_handles();
            let _ = t.observe(&f.xot, &live);
        }
        let mut ids: Vec<(Node, String)> = Vec::new();
        let n = rng.range(5, 40);
        let mut done = 0;
        for _ in 0..n {
            let op = match guard(|| gen.gen(&f, rng)) {
                Ok(Some(op)) => op,
                _ => break,
            };
            if !self.step(&mut f, &op, &mut table, &mut hist, ctx, &mut ids) {
                break;
            }
            done += 1;
        }
        if done >= 3 {
            let mut h = std::collections::hash_map::DefaultHasher::new();
            use std::hash::{Hash, Hasher};
            hist.start.hash(&mut h);
            hist.ops.hash(&mut h);
            ctx.nontrivial(h.finish());
        }
        if let Some(t) = &table {
            ctx.add("handles_tracked", t.len() as u64);
        }
        if let Ok((total, live)) = guard(|| f.xot.verif_arena_stats()) {
            ctx.add("arena_slots_allocated", total as u64);
            ctx.add("arena_live_at_end", live as u64);
        }
        ctx.sample(|| hist.json());
    }

    fn exhaustive_unit(&self, idx: u64, ctx: &mut Ctx) {
        let cat = catalogue();
        let st = &cat[idx as usize % cat.len()];
        if self.0 == Which::C05 && st.call_consolidation != st.consolidation {
            // "become adjacent" is only defined where pre-existing adjacency cannot occur (DESIGN §5 C05)
            ctx.count("exhaustive.mixed_consolidation_states_skipped");
            self.mixed_take_out(st, idx, ctx);
            return;
        }
        let probe = match build_state(st, false) {
            Ok(f) => f,
            Err(_) => return,
        };
        let live = probe.live_handles();
        let with_model = self.0 == Which::C05;
        let mut run = |ctx: &mut Ctx, mk: &dyn Fn(&[Node]) -> Op| {
            let mut f = match build_state(st, with_model) {
                Ok(f) => f,
                Err(_) => return,
            };
            let l = f.live_handles();
            if l.len() != live.len() {
                ctx.count("harness_nondeterministic_build");
                return;
            }
            let op = mk(&l);
            if self.0 == Which::C05 && !f.precondition(&op) {
                ctx.count("exhaustive.outside_preconditions_skipped");
                return;
            }
            let mut hist = Hist {
                ops: Vec::new(),
                start: f.show_real(),
            };
            let mut table = if self.0 == Which::C04 { Some(HandleTable::new()) } else { None };
            if let Some(t) = table.as_mut() {
                let _ = t.observe(&f.xot, &l);
            }
            let mut ids = Vec::new();
            self.step(&mut f, &op, &mut table, &mut hist, ctx, &mut ids);
            ctx.count("exhaustive.calls");
        };
        let n = live.len();
        for i in 0..n {
            for j in 0..n {
                for k in 0..exhaustive_ops(live[0], live[0]).len() {
                    run(ctx, &|l: &[Node]| exhaustive_ops(l[i], l[j]).swap_remove(k));
                }
            }
            for k in 0..exhaustive_unary(live[0]).len() {
                run(ctx, &|l: &[Node]| exhaustive_unary(l[i]).swap_remove(k));
            }
        }
        ctx.nontrivial(idx.wrapping_mul(0x9E37_79B9) ^ 0xC05);
        if idx < 2 {
            ctx.sample(|| {
                J::obj()
                    .set("exhaustive_start_state", J::Arr(st.trees.iter().map(|t| t.to_json()).collect()))
                    .set("consolidation", J::Bool(st.consolidation))
                    .set("calls", J::s(format!("every operation kind x every ordered pair of the {} live nodes", n)))
            });
        }
    }

    /// C05 on the mixed states (adjacent text built with consolidation off, then switched on): the full model
    /// comparison is not defined there, but one clause is - taking a node out from between two text nodes makes
    /// those two *become* adjacent, so with consolidation on they must end up merged into the earlier one and
    /// the character data of the parent must be exactly what is left (seed C05-27).
    fn mixed_take_out(&self, st: &StartState, idx: u64, ctx: &mut Ctx) {
        let probe = match build_state(st, false) {
            Ok(f) => f,
            Err(_) => return,
        };
        let n_live = probe.live_handles().len();
        for i in 0..n_live {
            for kind in 0..4usize {
                let mut f = match build_state(st, false) {
                    Ok(f) => f,
                    Err(_) => return,
                };
                let l = f.live_handles();
                if l.len() != n_live {
                    ctx.count("harness_nondeterministic_build");
                    return;
                }
                let node = l[i];
                // the destination of the two move kinds: the root element of the second tree
                let dest = match l.iter().copied().find(|n| {
                    f.xot.is_element(*n) && f.xot.parent(*n).is_none() && f.xot.first_child(*n).map_or(false, |c| f.xot.text_str(c) == Some("zz"))
                }) {
                    Some(d) => d,
                    None => return,
                };
                let setup = guard(|| {
                    let x = &f.xot;
                    let parent = x.parent(node)?;
                    let prev = x.previous_sibling(node)?;
                    let next = x.next_sibling(node)?;
                    let pt = x.text_str(prev)?.to_string();
                    let nt = x.text_str(next)?.to_string();
                    if !x.is_text(node) && !x.is_comment(node) && !x.is_element(node) {
                        return None;
                    }
                    // what the parent's character data has to be afterwards: that of the children that stay, in order
                    let expected: String = x.children(parent).take(64).filter(|c| *c != node && (x.is_text(*c) || x.is_element(*c))).map(|c| x.string_value(c)).collect();
                    Some((parent, prev, next, pt, nt, expected))
                });
                let (parent, prev, next, pt, nt, expected_sv) = match setup {
                    Ok(Some(t)) => t,
                    _ => continue,
                };
                let start = f.show_real();
                let (name, res) = match kind {
                    0 => ("remove", guard(|| f.xot.remove(node))),
                    1 => ("detach", guard(|| f.xot.detach(node))),
                    2 => ("append", guard(|| f.xot.append(dest, node))),
                    _ => ("prepend", guard(|| f.xot.prepend(dest, node))),
                };
                ctx.count("mixed_take_out.calls");
                match res {
                    Ok(Ok(())) => {}
                    // refusals and panics are C06's business
                    _ => continue,
                }
                let after = guard(|| {
                    let x = &f.xot;
                    let prev_live = !x.is_removed(prev) && x.parent(prev) == Some(parent);
                    let prev_text = if prev_live { x.text_str(prev).map(|s| s.to_string()) } else { None };
                    let next_still_child = !x.is_removed(next) && x.parent(next) == Some(parent);
                    (prev_live, prev_text, next_still_child, x.string_value(parent))
                });
                let (prev_live, prev_text, next_still_child, after_sv) = match after {
                    Ok(t) => t,
                    Err(_) => continue,
                };
                let merged = prev_live && prev_text.as_deref().map_or(false, |t| t.starts_with(&format!("{}{}", pt, nt))) && !next_still_child;
                if merged {
                    ctx.count("mixed_take_out.merged");
                } else {
                    ctx.violation(
                        "text nodes that become adjacent are merged into the earlier one (consolidation on)",
                        format!("C05/mixed-take-out/{}/neighbours-not-merged", name),
                        J::obj()
                            .set("start", J::s(start.clone()))
                            .set("call", J::s(format!("{}(node #{}) with text nodes {:?} and {:?} on either side, consolidation on (the start state was built with it off)", name, i, pt, nt)))
                            .set("earlier_neighbour_after", J::s(format!("{:?}", prev_text)))
                            .set("later_neighbour_still_a_child", J::Bool(next_still_child)),
                    );
                }
                if after_sv != expected_sv {
                    ctx.violation(
                        "the concatenated character data of every ancestor is exactly what the move implies",
                        format!("C05/mixed-take-out/{}/parent-string-value", name),
                        J::obj()
                            .set("start", J::s(start))
                            .set("call", J::s(format!("{}(node #{})", name, i)))
                            .set("expected", J::s(expected_sv))
                            .set("got", J::s(after_sv)),
                    );
                }
            }
        }
        self.mixed_destination_seam(st, n_live, ctx);
        ctx.nontrivial(idx.wrapping_mul(0x9E37_79B9) ^ 0xC05_27);
    }

    /// the other clause that is defined on the mixed states: a text node that a call puts next to a text node
    /// it was not next to before *becomes* adjacent to it by the very request, so with consolidation on the two
    /// must not both be left as separate neighbours (seed C05-28). Which of the two survives, and whether the
    /// merged node is merged further, is left open; a call asking for the place the node already has is skipped.
    fn mixed_destination_seam(&self, st: &StartState, n_live: usize, ctx: &mut Ctx) {
        for i in 0..n_live {
            for j in 0..n_live {
                if i == j {
                    continue;
                }
                for kind in 0..4usize {
                    let mut f = match build_state(st, false) {
                        Ok(f) => f,
                        Err(_) => return,
                    };
                    let l = f.live_handles();
                    if l.len() != n_live {
                        ctx.count("harness_nondeterministic_build");
                        return;
                    }
                    // kinds 0/1: l[i] is the reference text node; kinds 2/3: l[i] is the new parent
                    let (a, node) = (l[i], l[j]);
                    let setup = guard(|| {
                        let x = &f.xot;
                        if !x.is_text(node) {
                            return None;
                        }
                        match kind {
                            0 | 1 => {
                                if !x.is_text(a) || x.parent(a).is_none() {
                                    return None;
                                }
                                let in_place = if kind == 0 { x.next_sibling(node) == Some(a) } else { x.next_sibling(a) == Some(node) };
                                if in_place {
                                    return None;
                                }
                                Some(a)
                            }
                            _ => {
                                if !x.is_element(a) {
                                    return None;
                                }
                                let edge = if kind == 2 { x.last_child(a) } else { x.first_child(a) }?;
                                if edge == node || !x.is_text(edge) {
                                    return None;
                                }
                                Some(edge)
                            }
                        }
                    });
                    let other = match setup {
                        Ok(Some(o)) => o,
                        _ => continue,
                    };
                    let start = f.show_real();
                    let (name, res) = match kind {
                        0 => ("insert_before", guard(|| f.xot.insert_before(a, node))),
                        1 => ("insert_after", guard(|| f.xot.insert_after(a, node))),
                        2 => ("append", guard(|| f.xot.append(a, node))),
                        _ => ("prepend", guard(|| f.xot.prepend(a, node))),
                    };
                    ctx.count("mixed_destination_seam.calls");
                    match res {
                        Ok(Ok(())) => {}
                        _ => continue,
                    }
                    let both_left = guard(|| {
                        let x = &f.xot;
                        !x.is_removed(other)
                            && !x.is_removed(node)
                            && x.is_text(other)
                            && x.is_text(node)
                            && x.parent(other).is_some()
                            && x.parent(other) == x.parent(node)
                            && (x.next_sibling(other) == Some(node) || x.next_sibling(node) == Some(other))
                    });
                    match both_left {
                        Ok(false) => ctx.count("mixed_destination_seam.merged"),
                        Ok(true) => ctx.violation(
                            "text nodes that become adjacent are merged into the earlier one (consolidation on)",
                            format!("C05/mixed-destination-seam/{}/moved-text-left-next-to-text", name),
                            J::obj()
                                .set("start", J::s(start))
                                .set("call", J::s(format!("{}(node #{}, text node #{}), consolidation on (the start state was built with it off)", name, i, j)))
                                .set("after", J::s(f.show_real())),
                        ),
                        Err(_) => {}
                    }
                }
            }
        }
    }

    /// slot churn: > 40 000 remove/create cycles on one slot, all old handles kept (C04, F43)
    fn slot_churn(&self, ctx: &mut Ctx) {
        let mut xot = Xot::new();
        let name = xot.add_name("a");
        let keep = xot.new_element(name);
        let mut seen: HashSet<Node> = HashSet::new();
        seen.insert(keep);
        let mut old: Vec<Node> = Vec::new();
        let cycles = 40_000usize;
        let mut reported_equal = false;
        let mut reported_live = false;
        for i in 0..cycles {
            let n = xot.new_element(name);
            if !seen.insert(n) && !reported_equal {
                reported_equal = true;
                ctx.violation(
                    "a new handle compares equal to a removed one",
                    format!(
                        "C04/slot-churn/handle-equality/new-handle-equals-removed-handle/{}",
                        if i >= 32767 { "reuses>=32767" } else { "reuses<32767" }
                    ),
                    J::obj().set("cycle", J::i(i as u64)).set("what", J::s("after this many remove/create cycles on one arena slot a freshly created node's handle == a handle of a node removed earlier")),
                );
            }
            if xot.remove(n).is_err() {
                break;
            }
            old.push(n);
            if i % 997 == 0 || i + 1 == cycles {
                for (j, o) in old.iter().enumerate() {
                    // a handle equal to a later live/removed handle cannot be told apart any more
                    if !xot.is_removed(*o) && !reported_live {
                        reported_live = true;
                        ctx.violation(
                            "is_removed went back to false after the slot was reused",
                            format!("C04/slot-churn/I7-removed-stays-removed/{}", if j >= 32767 { "reuses>=32767" } else { "reuses<32767" }),
                            J::obj().set("cycle", J::i(i as u64)).set("handle_index", J::i(j as u64)),
                        );
                    }
                }
            }
            ctx.count("slot_churn.cycles");
        }
        let (total, _) = xot.verif_arena_stats();
        ctx.add("slot_churn.arena_slots", total as u64);
    }
}

impl Monitor for Manip {
    fn id(&self) -> &'static str {
        self.prop()
    }
    fn streams(&self, tier: Tier, budget: f64) -> Vec<Stream> {
        let cat = catalogue().len() as u64;
        let hist = match (self.0, tier) {
            (Which::C05, Tier::Quick) => 60_000,
            (Which::C05, Tier::Thorough) => 3_000_000,
            (_, Tier::Quick) => 60_000,
            (_, Tier::Thorough) => 3_000_000,
        };
        let mut v = vec![
            Stream::exhaustive("small-state-catalogue", cat),
            Stream::new("histories", scaled(hist, budget)),
        ];
        if self.0 == Which::C04 {
            v.push(Stream::new("slot-churn", 1));
        }
        v
    }
    fn rule(&self) -> String {
        match self.0 {
            Which::C04 => "random call histories (5-40 calls, whole mutating API, arguments = any live node of any kind in any tree, biased to related nodes) over forests of 2-4 trees, invariant walker + shadow handle table after every call; plus every (operation, node, node) triple on a catalogue of small start states; plus one slot-churn history. Non-trivial = history with >= 3 executed calls; distinct by hash of start forest + call list".into(),
            Which::C05 => "random histories of precondition-satisfying calls compared with the ordered-forest model after every call (consolidation fixed per history), plus every precondition-satisfying (operation, node, node) triple on the small-state catalogue; on the catalogue states built with consolidation off and then switched on, every remove / detach / move-away of a node that has a text node on either side (the two must be merged, the parent's string value must be that of the children that stay). Non-trivial = >= 3 executed calls; distinct by hash of start forest + call list".into(),
            Which::C06 => "random histories with arbitrary live arguments; before/after snapshot of every live node's value, relations and every root's serialisation around each refused call; panics attributed by location; plus every (operation, node, node) triple on the small-state catalogue. Non-trivial = >= 3 executed calls; distinct by hash of start forest + call list".into(),
        }
    }
    fn floors(&self, _tier: Tier) -> Vec<(&'static str, u64)> {
        match self.0 {
            Which::C04 => vec![("walks_clean", 10_000), ("exhaustive.calls", 100_000), ("slot_churn.cycles", 30_000)],
            Which::C05 => vec![
                ("model_comparisons_equal", 10_000),
                ("exhaustive.calls", 50_000),
                ("consolidation.run2", 500),
                ("consolidation.run3", 50),
                ("mixed_take_out.merged", 400),
                ("mixed_destination_seam.merged", 400),
                ("call.replace.ok", 100),
                ("call.element_unwrap.ok", 100),
                ("call.insert_after.ok", 100),
            ],
            Which::C06 => vec![("refusals_checked_unchanged", 5_000), ("exhaustive.calls", 100_000), ("refusals.replace", 50), ("refusals.append", 50)],
        }
    }
    fn assumptions(&self) -> Vec<String> {
        vec![
            "forests of <= ~60 nodes, histories <= 40 calls".into(),
            "the ordered-forest model is a transcription of DESIGN.md Appendix A (documentation + property statement), not of the code".into(),
            "live-slot enumeration comes from the read-only hook Xot::verif_live_nodes (--cfg xot_verif)".into(),
        ]
    }
    fn run_case(&self, stream: usize, idx: u64, rng: &mut Rng, ctx: &mut Ctx) {
        match stream {
            0 => self.exhaustive_unit(idx, ctx),
            1 => self.random_history(rng, ctx),
            _ => self.slot_churn(ctx),
        }
    }
}
