//! Execution engine: worker pool, watchdog, panic attribution, evidence + replay writers.

use crate::json::{self, J};
use crate::rng::Rng;
use std::cell::RefCell;
use std::collections::{BTreeMap, HashSet};
use std::panic::{self, AssertUnwindSafe};
use std::path::PathBuf;
use std::sync::atomic::{AtomicBool, AtomicU64, Ordering};
use std::sync::{Arc, Mutex};
use std::time::{Duration, Instant};

#[derive(Clone, Copy, PartialEq, Eq, Debug)]
pub enum Tier {
    Quick,
    Thorough,
}

impl Tier {
    pub fn name(self) -> &'static str {
        match self {
            Tier::Quick => "quick",
            Tier::Thorough => "thorough",
        }
    }
}

#[derive(Clone, Debug)]
pub struct Violation {
    pub clause: String,
    pub signature: String,
    pub detail: J,
}

#[derive(Clone, Debug)]
pub struct PanicInfo {
    pub msg: String,
    pub file: String,
    pub line: u32,
}

impl PanicInfo {
    pub fn in_harness(&self) -> bool {
        self.file.contains("harness/src/") || self.file.starts_with("src/")
    }
    pub fn short(&self) -> String {
        format!("{} @ {}:{}", self.msg, self.file, self.line)
    }
    /// a stable token for signatures: file name + first words of the message
    pub fn sig(&self) -> String {
        let f = self.file.rsplit('/').next().unwrap_or("");
        let m: String = self
            .msg
            .chars()
            .take(40)
            .map(|c| if c.is_ascii_alphanumeric() { c } else { '_' })
            .collect();
        format!("{}:{}", f, m)
    }
}

thread_local! {
    static LAST_PANIC: RefCell<Option<PanicInfo>> = RefCell::new(None);
    static HARNESS_FAULT: RefCell<Option<String>> = RefCell::new(None);
}

/// true inside a sanitizer leg (Miri / ASan): monitors shrink their inputs, an interpreter is ~10^3-10^4 times slower
pub fn legs_mode() -> bool {
    std::env::var("XVM_STREAM_CAP").is_ok()
}

pub fn install_panic_hook() {
    panic::set_hook(Box::new(|info| {
        let msg = if let Some(s) = info.payload().downcast_ref::<&str>() {
            s.to_string()
        } else if let Some(s) = info.payload().downcast_ref::<String>() {
            s.clone()
        } else {
            "<non-string panic>".to_string()
        };
        let (file, line) = info
            .location()
            .map(|l| (l.file().to_string(), l.line()))
            .unwrap_or(("<unknown>".into(), 0));
        LAST_PANIC.with(|p| *p.borrow_mut() = Some(PanicInfo { msg, file, line }));
    }));
}

/// Run a call into the implementation; a panic is returned as a value.
/// A panic located in the harness's own sources is remembered as a harness fault.
pub fn guard<T>(f: impl FnOnce() -> T) -> Result<T, PanicInfo> {
    LAST_PANIC.with(|p| *p.borrow_mut() = None);
    match panic::catch_unwind(AssertUnwindSafe(f)) {
        Ok(v) => Ok(v),
        Err(_) => {
            let info = LAST_PANIC
                .with(|p| p.borrow_mut().take())
                .unwrap_or(PanicInfo {
                    msg: "<unknown panic>".into(),
                    file: "<unknown>".into(),
                    line: 0,
                });
            if info.in_harness() {
                HARNESS_FAULT.with(|h| {
                    let mut h = h.borrow_mut();
                    if h.is_none() {
                        *h = Some(info.short());
                    }
                });
            }
            Err(info)
        }
    }
}

pub struct Stream {
    pub name: &'static str,
    pub cases: u64,
    /// run on the main thread before the pool starts (stress inputs: load must not fake a hang)
    pub solo: bool,
    /// this stream enumerates a finite space completely
    pub exhaustive: bool,
}

impl Stream {
    pub fn new(name: &'static str, cases: u64) -> Stream {
        Stream {
            name,
            cases,
            solo: false,
            exhaustive: false,
        }
    }
    pub fn exhaustive(name: &'static str, cases: u64) -> Stream {
        Stream {
            name,
            cases,
            solo: false,
            exhaustive: true,
        }
    }
    pub fn solo(name: &'static str, cases: u64) -> Stream {
        Stream {
            name,
            cases,
            solo: true,
            exhaustive: false,
        }
    }
}

pub struct Ctx {
    pub prop: &'static str,
    pub tier: Tier,
    pub counters: BTreeMap<String, u64>,
    pub violations: Vec<(usize, u64, Violation)>,
    pub distinct: HashSet<u64>,
    pub samples: Vec<J>,
    pub cur_stream: usize,
    pub cur_case: u64,
    pub replaying: bool,
}

impl Ctx {
    pub fn new(prop: &'static str, tier: Tier) -> Ctx {
        Ctx {
            prop,
            tier,
            counters: BTreeMap::new(),
            violations: Vec::new(),
            distinct: HashSet::new(),
            samples: Vec::new(),
            cur_stream: 0,
            cur_case: 0,
            replaying: false,
        }
    }
    pub fn count(&mut self, key: &str) {
        self.add(key, 1);
    }
    pub fn add(&mut self, key: &str, n: u64) {
        if let Some(v) = self.counters.get_mut(key) {
            *v += n;
        } else {
            self.counters.insert(key.to_string(), n);
        }
    }
    pub fn violation(&mut self, clause: &str, signature: String, detail: J) {
        if self.violations.len() < 4000 {
            self.violations.push((
                self.cur_stream,
                self.cur_case,
                Violation {
                    clause: clause.to_string(),
                    signature,
                    detail,
                },
            ));
        }
        self.count("violations_raw");
    }
    pub fn violations_so_far(&self) -> usize {
        self.violations.len()
    }
    /// add context to the violation recorded last (the signature is left alone: known findings are matched on it)
    pub fn annotate_last(&mut self, note: &str) {
        if let Some((_, _, v)) = self.violations.last_mut() {
            v.detail.put("context", J::s(note));
        }
    }
    pub fn has_violation_in_case(&self) -> bool {
        self.violations
            .iter()
            .any(|(s, c, _)| *s == self.cur_stream && *c == self.cur_case)
    }
    /// register one distinct non-trivial case by structural hash
    pub fn nontrivial(&mut self, hash: u64) {
        if self.distinct.len() < 3_000_000 {
            self.distinct.insert(hash);
        } else {
            self.count("distinct_set_saturated");
        }
    }
    pub fn sample(&mut self, f: impl FnOnce() -> J) {
        if self.samples.len() < 2 {
            self.samples.push(f());
        }
    }
}

pub trait Monitor: Sync + Send {
    fn id(&self) -> &'static str;
    fn streams(&self, tier: Tier, budget: f64) -> Vec<Stream>;
    fn run_case(&self, stream: usize, idx: u64, rng: &mut Rng, ctx: &mut Ctx);
    fn rule(&self) -> String;
    /// counters that must reach the given value, else the run is inconclusive
    fn floors(&self, _tier: Tier) -> Vec<(&'static str, u64)> {
        Vec::new()
    }
    /// watchdog firing is a violation (totality properties) rather than inconclusive
    fn hang_is_violation(&self) -> bool {
        false
    }
    fn assumptions(&self) -> Vec<String> {
        Vec::new()
    }
    /// extra keys for the evidence (computed from the merged counters)
    fn extra_evidence(&self, _counters: &BTreeMap<String, u64>) -> Vec<(String, J)> {
        Vec::new()
    }
}

pub struct Config {
    pub root: PathBuf,
    pub tier: Tier,
    pub seed: u64,
    pub budget: f64,
    pub threads: usize,
    pub wall_ceiling_s: u64,
    pub hang_s: u64,
}

struct Known {
    open: Vec<(String, String)>, // (signature, what)
}

fn load_known(root: &PathBuf, prop: &str) -> Result<Known, String> {
    let path = root.join("known_findings.json");
    let text = match std::fs::read_to_string(&path) {
        Ok(t) => t,
        Err(_) => return Ok(Known { open: Vec::new() }),
    };
    let j = json::parse(&text).map_err(|e| format!("known_findings.json: {}", e))?;
    let mut open = Vec::new();
    if let Some(entries) = j.get("entries").and_then(|e| e.as_arr()) {
        for e in entries {
            if e.get("status").and_then(|s| s.as_str()) == Some("open")
                && e.get("property").and_then(|s| s.as_str()) == Some(prop)
            {
                if let Some(sig) = e.get("signature").and_then(|s| s.as_str()) {
                    let what = e.get("what").and_then(|s| s.as_str()).unwrap_or("");
                    open.push((sig.to_string(), what.to_string()));
                }
            }
        }
    }
    Ok(Known { open })
}

fn now_ms(start: Instant) -> u64 {
    start.elapsed().as_millis() as u64
}

struct Slot {
    started_ms: AtomicU64, // 0 = idle
    stream: AtomicU64,
    case: AtomicU64,
    /// kernel thread id of the worker that owns the slot (0 = unknown), for the CPU-time reading of the watchdog
    tid: AtomicU64,
}

/// the calling thread's kernel id, from the /proc/thread-self link ("<pid>/task/<tid>")
fn own_tid() -> u64 {
    std::fs::read_link("/proc/thread-self")
        .ok()
        .and_then(|p| p.file_name().and_then(|f| f.to_str()).and_then(|f| f.parse::<u64>().ok()))
        .unwrap_or(0)
}

/// CPU time (user + system) a thread of this process has used so far, in milliseconds (clock ticks of 10 ms)
fn thread_cpu_ms(tid: u64) -> Option<u64> {
    if tid == 0 {
        return None;
    }
    let stat = std::fs::read_to_string(format!("/proc/self/task/{}/stat", tid)).ok()?;
    // the command name (field 2) may contain spaces; the numeric fields start after the last ')'
    let rest = &stat[stat.rfind(')')? + 1..];
    let f: Vec<&str> = rest.split_whitespace().collect();
    // rest starts at field 3 (state): utime is field 14, stime field 15
    let ut: u64 = f.get(11)?.parse().ok()?;
    let st: u64 = f.get(12)?.parse().ok()?;
    Some((ut + st) * 10)
}

fn run_one(
    mon: &dyn Monitor,
    seed: u64,
    stream: usize,
    idx: u64,
    ctx: &mut Ctx,
) -> Option<String> {
    ctx.cur_stream = stream;
    ctx.cur_case = idx;
    let mut rng = Rng::for_case(seed, mon.id(), stream as u64, idx);
    HARNESS_FAULT.with(|h| *h.borrow_mut() = None);
    LAST_PANIC.with(|p| *p.borrow_mut() = None);
    let r = panic::catch_unwind(AssertUnwindSafe(|| mon.run_case(stream, idx, &mut rng, ctx)));
    let mut fault = HARNESS_FAULT.with(|h| h.borrow_mut().take());
    if r.is_err() {
        let info = LAST_PANIC.with(|p| p.borrow_mut().take());
        let d = info
            .map(|i| i.short())
            .unwrap_or_else(|| "<unknown panic>".to_string());
        fault = Some(format!(
            "panic escaped the monitor (stream {} case {}): {}",
            stream, idx, d
        ));
    }
    fault
}

pub fn replay_file(mon: &dyn Monitor, cfg: &Config, path: &str) -> i32 {
    let text = match std::fs::read_to_string(path) {
        Ok(t) => t,
        Err(e) => {
            eprintln!("cannot read replay file {}: {}", path, e);
            return 3;
        }
    };
    let j = match json::parse(&text) {
        Ok(j) => j,
        Err(e) => {
            eprintln!("cannot parse replay file {}: {}", path, e);
            return 3;
        }
    };
    let tier = match j.get("tier").and_then(|t| t.as_str()) {
        Some("thorough") => Tier::Thorough,
        _ => Tier::Quick,
    };
    let seed = j.get("seed").and_then(|s| s.as_i64()).unwrap_or(0) as u64;
    let budget = match j.get("budget") {
        Some(J::Num(f)) => *f,
        Some(J::Int(i)) => *i as f64,
        _ => 1.0,
    };
    let stream_name = j.get("stream").and_then(|s| s.as_str()).unwrap_or("");
    let idx = j.get("case").and_then(|s| s.as_i64()).unwrap_or(0) as u64;
    let streams = mon.streams(tier, budget);
    let stream = match streams.iter().position(|s| s.name == stream_name) {
        Some(s) => s,
        None => {
            eprintln!("unknown stream {:?} in replay file", stream_name);
            return 3;
        }
    };
    let mut ctx = Ctx::new(mon.id(), tier);
    ctx.replaying = true;
    let fault = run_one(mon, seed, stream, idx, &mut ctx);
    if let Some(f) = fault {
        println!("INCONCLUSIVE property={} harness fault: {}", mon.id(), f);
        return 3;
    }
    let known = load_known(&cfg.root, mon.id()).unwrap_or(Known { open: Vec::new() });
    let mut code = 0;
    for (_, _, v) in &ctx.violations {
        if let Some((_, what)) = known.open.iter().find(|(s, _)| *s == v.signature) {
            println!("KNOWN-FINDING: property={} {}", mon.id(), what);
        } else {
            println!("VIOLATION property={} replay={}", mon.id(), path);
            code = 1;
        }
        println!("  clause: {}", v.clause);
        println!("  signature: {}", v.signature);
        println!("  detail: {}", v.detail.to_string());
    }
    if ctx.violations.is_empty() {
        println!("replay: no violation on this tree (property={})", mon.id());
    }
    code
}

pub fn run(mon: Arc<dyn Monitor>, cfg: &Config) -> i32 {
    let start = Instant::now();
    let prop = mon.id();
    let mut streams = mon.streams(cfg.tier, cfg.budget);
    // sanitizer legs (Miri / ASan) run the same workloads with every stream capped
    let stream_cap: Option<u64> = std::env::var("XVM_STREAM_CAP").ok().and_then(|s| s.parse().ok());
    let skip_solo = std::env::var("XVM_SKIP_SOLO").is_ok();
    let no_floors = std::env::var("XVM_NO_FLOORS").is_ok();
    if let Some(cap) = stream_cap {
        for s in streams.iter_mut() {
            s.cases = s.cases.min(cap);
        }
    }
    if skip_solo {
        for s in streams.iter_mut() {
            if s.solo {
                s.cases = 0;
            }
        }
    }
    let known = match load_known(&cfg.root, prop) {
        Ok(k) => k,
        Err(e) => {
            println!("INCONCLUSIVE property={} {}", prop, e);
            return 3;
        }
    };

    // flatten (stream, idx) space for pooled streams
    let mut pooled: Vec<(usize, u64, u64)> = Vec::new(); // (stream, start offset, cases)
    let mut total: u64 = 0;
    for (i, s) in streams.iter().enumerate() {
        if !s.solo {
            pooled.push((i, total, s.cases));
            total += s.cases;
        }
    }
    let pooled = Arc::new(pooled);

    let nthreads = cfg.threads.max(1);
    let slots: Arc<Vec<Slot>> = Arc::new(
        (0..nthreads + 1)
            .map(|_| Slot {
                started_ms: AtomicU64::new(0),
                stream: AtomicU64::new(0),
                case: AtomicU64::new(0),
                tid: AtomicU64::new(0),
            })
            .collect(),
    );
    let evaluations = Arc::new(AtomicU64::new(0));
    let done = Arc::new(AtomicBool::new(false));
    let truncated = Arc::new(AtomicBool::new(false));

    // watchdog
    {
        let slots = slots.clone();
        let done = done.clone();
        let evaluations = evaluations.clone();
        let hang_ms = cfg.hang_s * 1000;
        let mon = mon.clone();
        let root = cfg.root.clone();
        let tier = cfg.tier;
        let seed = cfg.seed;
        let budget = cfg.budget;
        let stream_names: Vec<&'static str> = streams.iter().map(|s| s.name).collect();
        // A case "hangs" when its thread has burnt `hang_s` seconds of CPU TIME without returning: that does not depend
        // on how busy the machine is. The wall clock only serves as a far more generous backstop (15 x hang_s), and
        // when only that one fires the verdict is INCONCLUSIVE for every property - a loaded machine is not a defect.
        let wall_backstop_ms = hang_ms * 15;
        std::thread::spawn(move || {
            // per slot: the (start stamp, stream, case) last seen and the thread's CPU reading when it was first seen
            let mut seen: Vec<(u64, u64, u64, Option<u64>)> = vec![(0, 0, 0, None); slots.len()];
            loop {
            std::thread::sleep(Duration::from_millis(250));
            if done.load(Ordering::SeqCst) {
                return;
            }
            let now = now_ms(start);
            for (si, s) in slots.iter().enumerate() {
                let st = s.started_ms.load(Ordering::SeqCst);
                if st == 0 {
                    seen[si] = (0, 0, 0, None);
                    continue;
                }
                let key = (st, s.stream.load(Ordering::SeqCst), s.case.load(Ordering::SeqCst));
                let tid = s.tid.load(Ordering::SeqCst);
                if (seen[si].0, seen[si].1, seen[si].2) != key {
                    seen[si] = (key.0, key.1, key.2, thread_cpu_ms(tid));
                    continue;
                }
                let cpu_used = match (seen[si].3, thread_cpu_ms(tid)) {
                    (Some(a), Some(b)) => Some(b.saturating_sub(a)),
                    _ => None,
                };
                let wall_used = now.saturating_sub(st);
                let cpu_hang = cpu_used.map_or(false, |c| c > hang_ms);
                // without a CPU reading (no /proc) fall back on the wall clock alone, generously
                let wall_hang = wall_used > wall_backstop_ms || (cpu_used.is_none() && wall_used > hang_ms * 6);
                if cpu_hang || wall_hang {
                    let stream = s.stream.load(Ordering::SeqCst) as usize;
                    let case = s.case.load(Ordering::SeqCst);
                    let prop = mon.id();
                    let sname = stream_names.get(stream).copied().unwrap_or("?");
                    let viol = mon.hang_is_violation() && cpu_hang;
                    let detail = J::obj()
                        .set("what", J::s(format!("a case did not return: {} ms of CPU time, {} ms of wall-clock time (limits {} / {})", cpu_used.map_or(-1, |c| c as i64), wall_used, hang_ms, wall_backstop_ms)));
                    let path = write_replay(
                        &root, prop, tier, seed, budget, sname, case, "watchdog",
                        &format!("{}/watchdog/no-return-within-{}s", prop, hang_ms / 1000),
                        &detail,
                    );
                    let ev = J::obj()
                        .set("property_id", J::s(prop))
                        .set("tier", J::s(tier.name()))
                        .set("seed", J::i(seed))
                        .set("level", J::s("exploration"))
                        .set(
                            "coverage",
                            J::obj()
                                .set("evaluations", J::i(evaluations.load(Ordering::SeqCst).max(1)))
                                .set("distinct_nontrivial", J::i(0))
                                .set("rule", J::s("run aborted by the hang watchdog"))
                                .set("samples", J::Arr(vec![J::s(format!("stream {} case {}", sname, case))]))
                                .set("watchdog_fired", J::Bool(true)),
                        )
                        .set("wall_s", J::Num(start.elapsed().as_secs_f64()))
                        .set("violations", J::i(if viol { 1 } else { 0 }));
                    let _ = std::fs::create_dir_all(root.join("evidence"));
                    let _ = std::fs::write(
                        root.join("evidence").join(format!("{}.json", prop)),
                        ev.to_pretty(),
                    );
                    if viol {
                        println!("VIOLATION property={} replay={}", prop, path);
                        println!("  clause: call did not return within the watchdog (stream {} case {})", sname, case);
                        std::process::exit(1);
                    } else {
                        println!(
                            "INCONCLUSIVE property={} watchdog fired (stream {} case {}), replay={}",
                            prop, sname, case, path
                        );
                        std::process::exit(3);
                    }
                }
            }
            }
        });
    }

    let faults: Arc<Mutex<Vec<String>>> = Arc::new(Mutex::new(Vec::new()));
    let deadline = Duration::from_secs(cfg.wall_ceiling_s);
    let mut merged = Ctx::new(prop, cfg.tier);

    // solo streams on the main thread
    for (i, s) in streams.iter().enumerate() {
        if !s.solo {
            continue;
        }
        let slot = &slots[nthreads];
        slot.tid.store(own_tid(), Ordering::SeqCst);
        for idx in 0..s.cases {
            if start.elapsed() > deadline {
                truncated.store(true, Ordering::SeqCst);
                break;
            }
            slot.stream.store(i as u64, Ordering::SeqCst);
            slot.case.store(idx, Ordering::SeqCst);
            slot.started_ms.store(now_ms(start).max(1), Ordering::SeqCst);
            let f = run_one(&*mon, cfg.seed, i, idx, &mut merged);
            slot.started_ms.store(0, Ordering::SeqCst);
            evaluations.fetch_add(1, Ordering::SeqCst);
            merged.add(&format!("stream.{}.cases", s.name), 1);
            if let Some(f) = f {
                faults.lock().unwrap().push(f);
            }
        }
    }

    let next = Arc::new(AtomicU64::new(0));
    let chunk: u64 = 16;
    let mut handles = Vec::new();
    for w in 0..nthreads {
        let mon = mon.clone();
        let pooled = pooled.clone();
        let slots = slots.clone();
        let next = next.clone();
        let evaluations = evaluations.clone();
        let truncated = truncated.clone();
        let faults = faults.clone();
        let tier = cfg.tier;
        let seed = cfg.seed;
        let stream_names: Vec<&'static str> = streams.iter().map(|s| s.name).collect();
        let h = std::thread::Builder::new()
            .stack_size(256 * 1024 * 1024)
            .spawn(move || {
                let mut ctx = Ctx::new(mon.id(), tier);
                let slot = &slots[w];
                slot.tid.store(own_tid(), Ordering::SeqCst);
                loop {
                    if start.elapsed() > deadline {
                        truncated.store(true, Ordering::SeqCst);
                        break;
                    }
                    let base = next.fetch_add(chunk, Ordering::SeqCst);
                    if base >= total {
                        break;
                    }
                    let end = (base + chunk).min(total);
                    for g in base..end {
                        // locate the stream
                        let mut si = 0;
                        let mut idx = 0;
                        for (s, off, n) in pooled.iter() {
                            if g >= *off && g < *off + *n {
                                si = *s;
                                idx = g - *off;
                                break;
                            }
                        }
                        slot.stream.store(si as u64, Ordering::SeqCst);
                        slot.case.store(idx, Ordering::SeqCst);
                        slot.started_ms.store(now_ms(start).max(1), Ordering::SeqCst);
                        let f = run_one(&*mon, seed, si, idx, &mut ctx);
                        slot.started_ms.store(0, Ordering::SeqCst);
                        evaluations.fetch_add(1, Ordering::SeqCst);
                        ctx.add(&format!("stream.{}.cases", stream_names[si]), 1);
                        if let Some(f) = f {
                            let mut fl = faults.lock().unwrap();
                            if fl.len() < 20 {
                                fl.push(f);
                            }
                        }
                    }
                }
                ctx
            })
            .expect("spawn worker");
        handles.push(h);
    }
    for h in handles {
        match h.join() {
            Ok(ctx) => {
                for (k, v) in ctx.counters {
                    merged.add(&k, v);
                }
                merged.violations.extend(ctx.violations);
                for d in ctx.distinct {
                    merged.distinct.insert(d);
                }
                for s in ctx.samples {
                    if merged.samples.len() < 5 {
                        merged.samples.push(s);
                    }
                }
            }
            Err(_) => {
                faults
                    .lock()
                    .unwrap()
                    .push("a worker thread died".to_string());
            }
        }
    }
    done.store(true, Ordering::SeqCst);

    // classify violations
    merged
        .violations
        .sort_by(|a, b| (a.0, a.1).cmp(&(b.0, b.1)));
    let mut known_hits: BTreeMap<String, (String, u64)> = BTreeMap::new();
    let mut new_by_sig: BTreeMap<String, Vec<&(usize, u64, Violation)>> = BTreeMap::new();
    for v in &merged.violations {
        if let Some((sig, what)) = known.open.iter().find(|(s, _)| *s == v.2.signature) {
            let e = known_hits.entry(sig.clone()).or_insert((what.clone(), 0));
            e.1 += 1;
        } else {
            new_by_sig.entry(v.2.signature.clone()).or_default().push(v);
        }
    }
    for (_sig, (what, n)) in &known_hits {
        println!("KNOWN-FINDING: property={} {} (hit {} times)", prop, what, n);
    }
    let mut printed = 0;
    let mut new_count: u64 = 0;
    for (sig, vs) in &new_by_sig {
        new_count += vs.len() as u64;
        for v in vs.iter().take(2) {
            if printed >= 90 {
                break;
            }
            let path = write_replay(
                &cfg.root, prop, cfg.tier, cfg.seed, cfg.budget, streams[v.0].name, v.1,
                &v.2.clause, sig, &v.2.detail,
            );
            println!("VIOLATION property={} replay={}", prop, path);
            println!("  clause: {}", v.2.clause);
            println!("  signature: {}", sig);
            let d = v.2.detail.to_string();
            let d: String = d.chars().take(1500).collect();
            println!("  detail: {}", d);
            printed += 1;
        }
        if vs.len() > 2 {
            println!("  ... {} more with signature {}", vs.len() - 2, sig);
        }
    }

    // floors
    let mut unmet: Vec<String> = Vec::new();
    for (k, n) in if no_floors { Vec::new() } else { mon.floors(cfg.tier) } {
        let have = merged.counters.get(k).copied().unwrap_or(0);
        if have < n {
            unmet.push(format!("{}: {} < {}", k, have, n));
        }
    }
    let faults = faults.lock().unwrap().clone();

    // evidence
    let evals = evaluations.load(Ordering::SeqCst);
    let mut cov = J::obj()
        .set("evaluations", J::i(evals))
        .set("distinct_nontrivial", J::i(merged.distinct.len() as u64))
        .set("rule", J::s(mon.rule()))
        .set("samples", J::Arr(merged.samples.clone()));
    let exh: Vec<J> = streams
        .iter()
        .filter(|s| s.exhaustive)
        .map(|s| {
            J::obj()
                .set("stream", J::s(s.name))
                .set("units", J::i(s.cases))
                .set(
                    "units_run",
                    J::i(merged
                        .counters
                        .get(&format!("stream.{}.cases", s.name))
                        .copied()
                        .unwrap_or(0)),
                )
        })
        .collect();
    cov.put("exhaustive_subspaces", J::Arr(exh));
    cov.put("exhaustive", J::Bool(false));
    cov.put("observed", J::from_counts(&merged.counters));
    cov.put(
        "known_findings_hit",
        J::Obj(
            known_hits
                .iter()
                .map(|(k, (_, n))| (k.clone(), J::i(*n)))
                .collect(),
        ),
    );
    cov.put("truncated_by_wall_clock", J::Bool(truncated.load(Ordering::SeqCst)));
    cov.put("floors_unmet", J::Arr(unmet.iter().map(|s| J::s(s.clone())).collect()));
    cov.put("harness_faults", J::Arr(faults.iter().map(|s| J::s(s.clone())).collect()));
    cov.put("threads", J::i(nthreads as u64));
    cov.put("budget_scale", J::Num(cfg.budget));
    for (k, v) in mon.extra_evidence(&merged.counters) {
        cov.put(k, v);
    }
    let verdict = if new_count > 0 {
        "violated"
    } else if !faults.is_empty() || !unmet.is_empty() {
        "inconclusive"
    } else {
        "held-on-observed"
    };
    cov.put("verdict", J::s(verdict));
    let ev = J::obj()
        .set("property_id", J::s(prop))
        .set("tier", J::s(cfg.tier.name()))
        .set("seed", J::i(cfg.seed))
        .set("level", J::s("exploration"))
        .set("coverage", cov)
        .set(
            "assumptions",
            J::Arr(mon.assumptions().into_iter().map(J::s).collect()),
        )
        .set("wall_s", J::Num(start.elapsed().as_secs_f64()))
        .set("violations", J::i(new_count));
    let _ = std::fs::create_dir_all(cfg.root.join("evidence"));
    let evpath = cfg.root.join("evidence").join(format!("{}.json", prop));
    if let Err(e) = std::fs::write(&evpath, ev.to_pretty()) {
        println!("INCONCLUSIVE property={} cannot write evidence: {}", prop, e);
        return 3;
    }

    println!(
        "{} {}: {} cases, {} distinct non-trivial, {} new violations, {} known-finding hits, {:.1}s{}",
        prop,
        cfg.tier.name(),
        evals,
        merged.distinct.len(),
        new_count,
        known_hits.values().map(|v| v.1).sum::<u64>(),
        start.elapsed().as_secs_f64(),
        if truncated.load(Ordering::SeqCst) { " (truncated by wall-clock ceiling)" } else { "" }
    );
    if new_count > 0 {
        return 1;
    }
    if !faults.is_empty() {
        for f in faults.iter().take(5) {
            println!("INCONCLUSIVE property={} harness fault: {}", prop, f);
        }
        return 3;
    }
    if !unmet.is_empty() {
        for u in &unmet {
            println!("INCONCLUSIVE property={} coverage floor not reached: {}", prop, u);
        }
        return 3;
    }
    0
}

#[allow(clippy::too_many_arguments)]
fn write_replay(
    root: &PathBuf,
    prop: &str,
    tier: Tier,
    seed: u64,
    budget: f64,
    stream: &str,
    case: u64,
    clause: &str,
    sig: &str,
    detail: &J,
) -> String {
    let dir = root.join("replays").join(prop);
    let _ = std::fs::create_dir_all(&dir);
    let path = dir.join(format!("{}-{}-{}-{}.json", tier.name(), seed, stream, case));
    let j = J::obj()
        .set("property", J::s(prop))
        .set("tier", J::s(tier.name()))
        .set("seed", J::i(seed))
        .set("budget", J::Num(budget))
        .set("stream", J::s(stream))
        .set("case", J::i(case))
        .set("clause", J::s(clause))
        .set("signature", J::s(sig))
        .set("detail", detail.clone());
    let _ = std::fs::write(&path, j.to_pretty());
    path.to_string_lossy().to_string()
}
