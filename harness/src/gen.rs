//! Generators: hostile strings, names, declaration layouts, abstract documents.

use crate::adoc::*;
use crate::rng::Rng;

pub const NS_A: &str = "urn:A";
pub const NS_B: &str = "urn:B";
pub const NS_C: &str = "http://example.com/c";
pub const NS_HOSTILE: &str = "urn:x&y\"z<w";
pub const NS_SPACED: &str = "urn:sp ace d";
/// a namespace URI with TAB and LF in it (through the API, or through character references in a document)
pub const NS_TABBED: &str = "urn:t\tab\nlf";

pub const LOCALS: &[&str] = &[
    "a", "b", "c", "e", "x", "y", "él", "a-b", "a.b", "_u", "n0", "A", "ab1", "xmlns", "xmlnsx", "id", "space",
    // prefix + local name concatenations that coincide: p:ab / pa:b / pab, n0:a / n0a, q:b / qb
    "ab", "pab", "n0a", "qb",
];
pub const PREFIXES: &[&str] = &["p", "q", "r", "n0", "n1", "pa"];

#[derive(Clone, Copy, PartialEq, Eq, Debug)]
pub enum TextProfile {
    /// the hostile alphabet of DESIGN §3.1
    Hostile,
    /// runs of ']' and '>' (C14)
    Brackets,
    /// whitespace-only / mixed / unicode spaces (C18)
    Whitespace,
    /// letters only
    Plain,
}

#[derive(Clone, Copy, PartialEq, Eq, Debug)]
pub enum NsMode {
    /// no namespaces at all
    None,
    /// every namespaced name has a usable prefix in scope (C01 domain)
    Consistent,
    /// names use any namespace whether declared or not (C10)
    Wild,
}

#[derive(Clone, Debug)]
pub struct GenCfg {
    pub max_nodes: usize,
    pub max_depth: usize,
    pub max_children: usize,
    /// top level may hold several elements and text
    pub fragment: bool,
    /// comments / PIs around the root element
    pub top_misc: bool,
    pub ns_mode: NsMode,
    pub text: TextProfile,
    pub allow_cr: bool,
    pub allow_adjacent_text: bool,
    pub allow_empty_text: bool,
    pub xml_space: bool,
    pub xml_id: bool,
    /// percent chance to leave a no-namespace element under a default namespace without xmlns=""
    pub pct_unns_under_default: usize,
    /// percent chance for the hostile namespace URI
    pub pct_hostile_ns: usize,
    pub comments: bool,
    pub pis: bool,
    pub max_attrs: usize,
    pub max_decls: usize,
    pub str_len: usize,
    /// one text / attribute value in ~300 is blown up to 4 094 - 12 000 bytes (buffer boundaries)
    pub long_strings: bool,
}

impl Default for GenCfg {
    fn default() -> Self {
        GenCfg {
            max_nodes: 40,
            max_depth: 8,
            max_children: 6,
            fragment: false,
            top_misc: true,
            ns_mode: NsMode::Consistent,
            text: TextProfile::Hostile,
            allow_cr: true,
            allow_adjacent_text: false,
            allow_empty_text: false,
            long_strings: true,
            xml_space: false,
            xml_id: false,
            pct_unns_under_default: 0,
            pct_hostile_ns: 0,
            comments: true,
            pis: true,
            max_attrs: 3,
            max_decls: 3,
            str_len: 12,
        }
    }
}

const HOSTILE_CHARS: &[&str] = &[
    "a", "b", " ", "\t", "\n", "\r", "<", "&", ">", "'", "\"", "]", "-", "?", "é", "€", "𝄞",
    "\u{85}", "\u{a0}", "\u{2003}", "\u{2028}", "\u{d7ff}", "\u{e000}", "\u{fffd}", "\u{feff}", "]]>", "]]]>",
    "]]", "--", "?>", "&amp;", "&#13;", "&lt;", "<!--", "<![CDATA[", "=", "/", "x", "1", "  ", " encoding=\"ISO-8859-1\"", "charset=koi8-r ",
    // characters a Unicode normalizer turns into '<' / '&' / two letters
    "\u{226e}", "\u{ff06}", "\u{fb01}", "\u{ff1e}", "]]\u{ff1e}", "\u{226f}",
];

pub fn hostile_string(rng: &mut Rng, min: usize, max: usize, allow_cr: bool) -> String {
    let n = rng.range(min, max);
    let mut s = String::new();
    for i in 0..n {
        // bias: specials at first / last / adjacent positions
        let special = i == 0 || i + 1 == n || rng.chance(1, 2);
        let piece = if special {
            *rng.pick(HOSTILE_CHARS)
        } else {
            *rng.pick(&["a", "b", "x", " ", "1"])
        };
        if !allow_cr && piece.contains('\r') {
            s.push('a');
        } else {
            s.push_str(piece);
        }
    }
    s
}

pub fn bracket_string(rng: &mut Rng, min: usize, max: usize) -> String {
    let n = rng.range(min, max);
    let mut s = String::new();
    for _ in 0..n {
        s.push_str(*rng.pick(&[
            "]", "]", ">", ">", "]]>", "]]", "]>", "]]]>", "a", " ", "\n", "\t", "<", "&", "]]]", ">>",
        ]));
    }
    s
}

pub fn whitespace_string(rng: &mut Rng, min: usize, max: usize) -> String {
    let n = rng.range(min, max);
    let mut s = String::new();
    let mode = rng.below(11);
    for _ in 0..n {
        let piece = match mode {
            // characters whose UTF-8 bytes equal a white-space byte modulo 64 or 128 (bit-set and table look-ups)
            10 => *rng.pick(&["I", "J", "M", "`", "@", "\u{260}", "\u{28a}", "\u{820}", "i", "\u{89}", " I", "J\n"]),
            0..=4 => *rng.pick(&[" ", "\t", "\n", "\r", "  ", "\n  "]),
            5 => *rng.pick(&["\u{a0}", "\u{85}", "\u{2003}", "\u{2028}", "\u{3000}", "\u{1680}", "\u{feff}", "\u{200b}", "\u{c}", "\u{b}", "\u{1f}", "\u{1c}"]),
            6 => *rng.pick(&[" ", "\u{a0}", "\n", "\u{2003}", "\u{c}", "\u{b}"]),
            7 => *rng.pick(&[" ", "a", "\n", "b"]),
            _ => *rng.pick(&["a", "b", "x"]),
        };
        s.push_str(piece);
    }
    s
}

pub fn plain_string(rng: &mut Rng, min: usize, max: usize) -> String {
    let n = rng.range(min, max);
    let mut s = String::new();
    for _ in 0..n {
        s.push_str(*rng.pick(&["a", "b", "c", "x", "y", "1"]));
    }
    s
}

/// repeat `s` up to a length around a power-of-two buffer boundary
pub fn blow_up(rng: &mut Rng, s: &str) -> String {
    let unit = if s.is_empty() { "ab" } else { s };
    let target = *rng.pick(&[4094usize, 4095, 4096, 4097, 5000, 8191, 8192, 8193, 12000]);
    let mut out = String::with_capacity(target + unit.len());
    while out.len() + unit.len() <= target {
        out.push_str(unit);
    }
    while out.len() < target {
        out.push('z');
    }
    out
}

pub fn maybe_long(rng: &mut Rng, cfg: &GenCfg, s: String) -> String {
    if cfg.long_strings && !crate::engine::legs_mode() && rng.chance(1, 300) {
        blow_up(rng, &s)
    } else {
        s
    }
}

pub fn gen_text(rng: &mut Rng, cfg: &GenCfg) -> String {
    let min = if cfg.allow_empty_text && rng.chance(1, 20) { 0 } else { 1 };
    let s = match cfg.text {
        TextProfile::Hostile => hostile_string(rng, min, cfg.str_len, cfg.allow_cr),
        TextProfile::Brackets => bracket_string(rng, min, cfg.str_len),
        TextProfile::Whitespace => whitespace_string(rng, min, cfg.str_len.min(5)),
        TextProfile::Plain => plain_string(rng, min, cfg.str_len),
    };
    if s.is_empty() {
        s
    } else {
        maybe_long(rng, cfg, s)
    }
}

/// comment body that XML can express: no "--", not ending in '-', no CR
pub fn gen_comment(rng: &mut Rng, cfg: &GenCfg) -> String {
    let mut s = match cfg.text {
        TextProfile::Plain => plain_string(rng, 0, cfg.str_len),
        _ => hostile_string(rng, 0, cfg.str_len, false),
    };
    while s.contains("--") {
        s = s.replace("--", "-a");
    }
    if s.ends_with('-') {
        s.push('b');
    }
    s.replace('\r', "r")
}

/// PI data that XML can express: no "?>", no CR, not starting with white space, not empty
pub fn gen_pi_data(rng: &mut Rng, cfg: &GenCfg) -> Option<String> {
    if rng.chance(1, 3) {
        return None;
    }
    let mut s = match cfg.text {
        TextProfile::Plain => plain_string(rng, 1, cfg.str_len),
        _ => hostile_string(rng, 1, cfg.str_len, false),
    };
    while s.contains("?>") {
        s = s.replace("?>", "?a");
    }
    s = s.replace('\r', "r");
    let t = s.trim_start_matches(|c| is_xml_space(c)).to_string();
    if t.is_empty() {
        Some("d".to_string())
    } else {
        Some(t)
    }
}

pub fn gen_pi_target(rng: &mut Rng) -> String {
    rng.pick(&["pi", "target", "xm", "xml-stylesheet", "a", "_t", "é", "xml-model", "xmlx", "XML-y"])
        .to_string()
}

pub fn gen_local(rng: &mut Rng) -> String {
    rng.pick(LOCALS).to_string()
}

pub fn ns_pool(rng: &mut Rng, cfg: &GenCfg) -> String {
    if cfg.pct_hostile_ns > 0 && rng.chance(cfg.pct_hostile_ns, 100) {
        return NS_HOSTILE.to_string();
    }
    // a URI with spaces in it: the renderer may spell each as a literal TAB / LF / CR (attribute-value normalisation)
    if rng.chance(1, 16) {
        return NS_SPACED.to_string();
    }
    if rng.chance(1, 24) {
        return NS_TABBED.to_string();
    }
    rng.pick(&[NS_A, NS_A, NS_B, NS_B, NS_C, XHTML_NS, SVG_NS]).to_string()
}

/// namespace scope: nearest declaration wins
#[derive(Clone, Debug, Default)]
pub struct Scope {
    pub stack: Vec<(String, String)>,
}

impl Scope {
    pub fn new() -> Scope {
        Scope { stack: Vec::new() }
    }
    pub fn lookup(&self, prefix: &str) -> Option<&str> {
        for (p, u) in self.stack.iter().rev() {
            if p == prefix {
                if u.is_empty() {
                    return None;
                }
                return Some(u.as_str());
            }
        }
        // always bound, unless a declaration on the path (possible through the API) rebinds it
        if prefix == "xml" {
            return Some(XML_NS);
        }
        None
    }
    pub fn push_all(&mut self, decls: &[(String, String)]) -> usize {
        for d in decls {
            self.stack.push(d.clone());
        }
        decls.len()
    }
    pub fn pop_n(&mut self, n: usize) {
        for _ in 0..n {
            self.stack.pop();
        }
    }
    /// bindings in scope: (prefix, uri) with nearest-wins; xmlns="" removes the default
    pub fn bindings(&self) -> Vec<(String, String)> {
        let mut seen: Vec<&str> = Vec::new();
        let mut out = Vec::new();
        for (p, u) in self.stack.iter().rev() {
            if seen.contains(&p.as_str()) {
                continue;
            }
            seen.push(p.as_str());
            if !u.is_empty() {
                out.push((p.clone(), u.clone()));
            }
        }
        out
    }
    /// namespaces usable for an element name (any prefix incl. default)
    pub fn element_namespaces(&self) -> Vec<String> {
        let mut v: Vec<String> = self.bindings().into_iter().map(|(_, u)| u).collect();
        v.sort();
        v.dedup();
        v
    }
    /// namespaces usable for an attribute name (non-empty prefix)
    pub fn attribute_namespaces(&self) -> Vec<String> {
        let mut v: Vec<String> = self
            .bindings()
            .into_iter()
            .filter(|(p, _)| !p.is_empty())
            .map(|(_, u)| u)
            .collect();
        v.sort();
        v.dedup();
        v
    }
    pub fn prefixes_for(&self, ns: &str, allow_default: bool) -> Vec<String> {
        self.bindings()
            .into_iter()
            .filter(|(p, u)| u == ns && (allow_default || !p.is_empty()))
            .map(|(p, _)| p)
            .collect()
    }
}

pub struct DocGen<'a> {
    pub rng: &'a mut Rng,
    pub cfg: GenCfg,
    pub budget: usize,
    pub ids_used: Vec<String>,
}

impl<'a> DocGen<'a> {
    pub fn new(rng: &'a mut Rng, cfg: GenCfg) -> DocGen<'a> {
        let budget = cfg.max_nodes;
        DocGen {
            rng,
            cfg,
            budget,
            ids_used: Vec::new(),
        }
    }

    /// a document node with content according to cfg
    pub fn document(&mut self) -> ANode {
        let mut scope = Scope::new();
        let mut kids = Vec::new();
        if self.cfg.fragment {
            let n = self.rng.range(0, 4);
            for _ in 0..n {
                if self.budget == 0 {
                    break;
                }
                let k = self.content_node(&mut scope, 1, kids.last());
                if let Some(k) = k {
                    kids.push(k);
                }
            }
        } else {
            if self.cfg.top_misc {
                let n = self.rng.pick_weighted(&[6, 2, 1, 1]);
                for _ in 0..n {
                    kids.push(self.misc());
                }
            }
            kids.push(self.element(&mut scope, 1));
            if self.cfg.top_misc {
                let n = self.rng.pick_weighted(&[6, 2, 1, 1]);
                for _ in 0..n {
                    kids.push(self.misc());
                }
            }
        }
        ANode::doc(kids)
    }

    /// a parentless element subtree
    pub fn element_tree(&mut self) -> ANode {
        let mut scope = Scope::new();
        self.element(&mut scope, 1)
    }

    fn misc(&mut self) -> ANode {
        if self.rng.bool() && self.cfg.comments || !self.cfg.pis {
            let c = gen_comment(self.rng, &self.cfg);
            ANode::comment(&c)
        } else {
            let t = gen_pi_target(self.rng);
            let d = gen_pi_data(self.rng, &self.cfg);
            ANode::pi(&t, d.as_deref())
        }
    }

    fn content_node(&mut self, scope: &mut Scope, depth: usize, prev: Option<&ANode>) -> Option<ANode> {
        if self.budget == 0 {
            return None;
        }
        let prev_text = prev.map(|p| p.is_text()).unwrap_or(false);
        let mut w = [5usize, 4, 1, 1]; // element, text, comment, pi
        if depth >= self.cfg.max_depth {
            w[0] = 0;
        }
        if prev_text && !self.cfg.allow_adjacent_text {
            w[1] = 0;
        }
        if !self.cfg.comments {
            w[2] = 0;
        }
        if !self.cfg.pis {
            w[3] = 0;
        }
        if w.iter().sum::<usize>() == 0 {
            return None;
        }
        match self.rng.pick_weighted(&w) {
            0 => Some(self.element(scope, depth)),
            1 => {
                self.budget = self.budget.saturating_sub(1);
                let t = gen_text(self.rng, &self.cfg);
                Some(ANode::text(&t))
            }
            2 => {
                self.budget = self.budget.saturating_sub(1);
                let c = gen_comment(self.rng, &self.cfg);
                Some(ANode::comment(&c))
            }
            _ => {
                self.budget = self.budget.saturating_sub(1);
                let t = gen_pi_target(self.rng);
                let d = gen_pi_data(self.rng, &self.cfg);
                Some(ANode::pi(&t, d.as_deref()))
            }
        }
    }

    fn gen_decls(&mut self) -> Vec<(String, String)> {
        let mut decls: Vec<(String, String)> = Vec::new();
        if self.cfg.ns_mode == NsMode::None || self.cfg.max_decls == 0 {
            return decls;
        }
        let k = self.rng.pick_weighted(&[10, 6, 3, 1]).min(self.cfg.max_decls);
        for _ in 0..k {
            let prefix = if self.rng.chance(1, 3) {
                "".to_string()
            } else {
                self.rng.pick(PREFIXES).to_string()
            };
            if decls.iter().any(|(p, _)| *p == prefix) {
                continue;
            }
            let uri = if prefix.is_empty() && self.rng.chance(1, 5) {
                "".to_string()
            } else {
                ns_pool(self.rng, &self.cfg)
            };
            decls.push((prefix, uri));
        }
        decls
    }

    pub fn element(&mut self, scope: &mut Scope, depth: usize) -> ANode {
        self.budget = self.budget.saturating_sub(1);
        let mut decls = self.gen_decls();
        let pushed = scope.push_all(&decls);
        // element name
        let ns = match self.cfg.ns_mode {
            NsMode::None => String::new(),
            NsMode::Consistent => {
                let mut c = scope.element_namespaces();
                c.push(String::new());
                c.push(String::new());
                self.rng.pick(&c).clone()
            }
            NsMode::Wild => {
                if self.rng.chance(1, 3) {
                    String::new()
                } else {
                    ns_pool(self.rng, &self.cfg)
                }
            }
        };
        if ns.is_empty()
            && self.cfg.ns_mode == NsMode::Consistent
            && scope.lookup("").is_some()
            && !self.rng.chance(self.cfg.pct_unns_under_default, 100)
        {
            // make the no-namespace name expressible: xmlns=""
            scope.pop_n(pushed);
            if let Some(d) = decls.iter_mut().find(|(p, _)| p.is_empty()) {
                d.1 = String::new();
            } else {
                decls.push((String::new(), String::new()));
            }
            scope.push_all(&decls);
        }
        let pushed = decls.len();
        let mut e = ANode::elem(QName::new(&ns, &gen_local(self.rng)));
        e.decls = decls;
        // attributes
        let na = self.rng.pick_weighted(&[8, 5, 2, 1]).min(self.cfg.max_attrs);
        for _ in 0..na {
            let ans = match self.cfg.ns_mode {
                NsMode::None => String::new(),
                NsMode::Consistent => {
                    let mut c = scope.attribute_namespaces();
                    c.push(String::new());
                    c.push(String::new());
                    self.rng.pick(&c).clone()
                }
                NsMode::Wild => {
                    if self.rng.chance(1, 2) {
                        String::new()
                    } else {
                        ns_pool(self.rng, &self.cfg)
                    }
                }
            };
            let local = gen_local(self.rng);
            if local == "xmlns" && ans.is_empty() {
                continue;
            }
            let q = QName::new(&ans, &local);
            if e.attrs.iter().any(|(n, _)| *n == q) {
                continue;
            }
            let v = match self.cfg.text {
                TextProfile::Plain => plain_string(self.rng, 0, self.cfg.str_len),
                _ => hostile_string(self.rng, 0, self.cfg.str_len, self.cfg.allow_cr),
            };
            let v = maybe_long(self.rng, &self.cfg, v);
            e.attrs.push((q, v));
        }
        if self.cfg.xml_space && self.rng.chance(1, 4) {
            let v = *self.rng.pick(&["preserve", "preserve", "preserve", "default", "default", "other", "", " preserve", "preserve ", "\tpreserve", "PRESERVE", "preserved"]);
            e.attrs.push((QName::new(XML_NS, "space"), v.to_string()));
        }
        if self.cfg.xml_id && self.rng.chance(1, 4) {
            // mostly plain ids; now and then white space that is NOT U+0020 inside the value (TAB, LF, NBSP, ideographic
            // space): xml:id normalisation only concerns the space character
            let k = self.ids_used.len();
            let id = match self.rng.below(12) {
                0 => format!("i\td{}", k),
                1 => format!("id{}\u{a0}x", k),
                2 => format!("\u{3000}id{}", k),
                3 => format!("id{}\nz", k),
                // a space inside (the renderer may write it as a run of spaces, which normalisation collapses)
                4 | 5 => format!("id{} w", k),
                _ => format!("id{}", k),
            };
            self.ids_used.push(id.clone());
            e.attrs.push((QName::new(XML_NS, "id"), id));
        }
        if self.cfg.ns_mode != NsMode::None && self.rng.chance(1, 25) {
            let q = QName::new(XML_NS, "lang");
            if !e.attrs.iter().any(|(n, _)| *n == q) {
                e.attrs.push((q, "en".to_string()));
            }
        }
        // children
        if depth < self.cfg.max_depth && self.budget > 0 {
            let n = self.rng.pick_weighted(&[3, 4, 4, 3, 2, 1, 1]);
            let n = n.min(self.cfg.max_children);
            for _ in 0..n {
                if self.budget == 0 {
                    break;
                }
                let k = self.content_node(scope, depth + 1, e.children.last());
                if let Some(k) = k {
                    e.children.push(k);
                }
            }
        }
        scope.pop_n(pushed);
        e
    }
}

pub fn gen_document(rng: &mut Rng, cfg: &GenCfg) -> ANode {
    let mut g = DocGen::new(rng, cfg.clone());
    g.document()
}

pub fn gen_element(rng: &mut Rng, cfg: &GenCfg) -> ANode {
    let mut g = DocGen::new(rng, cfg.clone());
    g.element_tree()
}

// ---------------------------------------------------------------------------------------------
// domain predicates (what XML 1.0 text can express) — auditable filters

pub fn all_xml_chars(s: &str) -> bool {
    s.chars().all(is_xml_char)
}

/// Is the tree inside the XML-representable domain of C01? Returns the reason when not.
pub fn c01_domain(doc: &ANode) -> Result<(), String> {
    let mut scope = Scope::new();
    domain_rec(doc, &mut scope, true)?;
    // xml:id unique and normalised
    let mut ids: Vec<&str> = Vec::new();
    let mut bad = None;
    doc.walk(&mut |n| {
        for (q, v) in &n.attrs {
            if q.ns == XML_NS && q.local == "id" {
                let norm = v.split(' ').filter(|s| !s.is_empty()).collect::<Vec<_>>().join(" ");
                if norm != *v || v.chars().any(|c| c != ' ' && is_xml_space(c)) {
                    bad = Some("xml:id not normalised".to_string());
                }
                if ids.contains(&v.as_str()) {
                    bad = Some("duplicate xml:id".to_string());
                }
                ids.push(v.as_str());
            }
        }
    });
    if let Some(b) = bad {
        return Err(b);
    }
    Ok(())
}

fn domain_rec(n: &ANode, scope: &mut Scope, top: bool) -> Result<(), String> {
    match n.kind {
        AKind::Doc => {
            if !top {
                return Err("nested document".into());
            }
        }
        AKind::Text => {
            if n.text.is_empty() {
                return Err("empty text node".into());
            }
            if !all_xml_chars(&n.text) {
                return Err("non-XML char in text".into());
            }
        }
        AKind::Comment => {
            if n.text.contains("--") || n.text.ends_with('-') || n.text.contains('\r') {
                return Err("comment body not expressible".into());
            }
            if !all_xml_chars(&n.text) {
                return Err("non-XML char in comment".into());
            }
        }
        AKind::Pi => {
            if !n.name.ns.is_empty() || !is_ncname(&n.name.local) || n.name.local.eq_ignore_ascii_case("xml") {
                return Err("PI target not expressible".into());
            }
            if let Some(d) = &n.data {
                if d.is_empty()
                    || d.contains("?>")
                    || d.contains('\r')
                    || d.starts_with(is_xml_space)
                    || !all_xml_chars(d)
                {
                    return Err("PI data not expressible".into());
                }
            }
        }
        AKind::Elem => {
            if !is_ncname(&n.name.local) {
                return Err("element local name not an NCName".into());
            }
            let mut seen: Vec<&str> = Vec::new();
            for (p, u) in &n.decls {
                if seen.contains(&p.as_str()) {
                    return Err("prefix declared twice".into());
                }
                seen.push(p);
                if !p.is_empty() && !is_ncname(p) {
                    return Err("prefix not an NCName".into());
                }
                if !p.is_empty() && u.is_empty() {
                    return Err("non-empty prefix bound to the empty URI".into());
                }
                if p == "xml" || p == "xmlns" {
                    return Err("reserved prefix declared".into());
                }
                if u == XML_NS || u == "http://www.w3.org/2000/xmlns/" {
                    return Err("reserved namespace declared".into());
                }
                if !all_xml_chars(u) {
                    return Err("non-XML char in namespace URI".into());
                }
            }
            let pushed = scope.push_all(&n.decls);
            let r = (|| {
                if n.name.ns.is_empty() {
                    // no-namespace element: expressible when no default binding is in scope
                    // (kept inside the domain on purpose when one is: see DESIGN C01 / F29)
                } else if scope.prefixes_for(&n.name.ns, true).is_empty() {
                    return Err(format!("element namespace {} has no prefix in scope", n.name.ns));
                }
                let mut names: Vec<&QName> = Vec::new();
                for (q, v) in &n.attrs {
                    if names.contains(&q) {
                        return Err("duplicate attribute".to_string());
                    }
                    names.push(q);
                    if !is_ncname(&q.local) {
                        return Err("attribute local name not an NCName".into());
                    }
                    if q.ns.is_empty() && q.local == "xmlns" {
                        return Err("attribute named xmlns".into());
                    }
                    if !q.ns.is_empty() && q.ns != XML_NS && scope.prefixes_for(&q.ns, false).is_empty() {
                        return Err(format!("attribute namespace {} has no non-empty prefix in scope", q.ns));
                    }
                    if !all_xml_chars(v) {
                        return Err("non-XML char in attribute value".into());
                    }
                }
                let mut prev_text = false;
                for c in &n.children {
                    if c.is_text() && prev_text {
                        return Err("adjacent text nodes".into());
                    }
                    prev_text = c.is_text();
                    domain_rec(c, scope, false)?;
                }
                Ok(())
            })();
            scope.pop_n(pushed);
            return r;
        }
    }
    if n.kind == AKind::Doc {
        let mut prev_text = false;
        for c in &n.children {
            if c.is_text() && prev_text {
                return Err("adjacent text nodes".into());
            }
            prev_text = c.is_text();
            domain_rec(c, scope, false)?;
        }
    }
    Ok(())
}

/// does a no-namespace element sit under an in-scope default namespace (F29 trigger)?
pub fn has_unns_under_default(doc: &ANode) -> bool {
    fn rec(n: &ANode, scope: &mut Scope) -> bool {
        if n.kind == AKind::Elem {
            let pushed = scope.push_all(&n.decls);
            let mut hit = n.name.ns.is_empty() && scope.lookup("").is_some();
            if !hit {
                for c in &n.children {
                    if rec(c, scope) {
                        hit = true;
                        break;
                    }
                }
            }
            scope.pop_n(pushed);
            hit
        } else {
            n.children.iter().any(|c| rec(c, scope))
        }
    }
    rec(doc, &mut Scope::new())
}

/// well-formed document: exactly one element, no text at top level
pub fn is_wf_document(doc: &ANode) -> bool {
    doc.kind == AKind::Doc
        && doc.children.iter().filter(|c| c.is_elem()).count() == 1
        && !doc.children.iter().any(|c| c.is_text())
}
