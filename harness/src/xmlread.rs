//! Independent strict XML 1.0 + Namespaces reader (no DTD). Shares no code with xmlparser or xot.
//! Reads text into an `ANode` document: names resolved, declarations recorded per element in
//! written order, attribute values normalised, line ends normalised, CDATA merged into text.

use crate::adoc::*;

pub struct Reader {
    c: Vec<char>,
    i: usize,
}

#[derive(Debug, Clone)]
pub struct RawAttr {
    pub name: String,
    pub value: String,
}

fn err<T>(s: impl Into<String>) -> Result<T, String> {
    Err(s.into())
}

/// `fragment`: allow any content at the top level (several elements, text)
pub fn read(text: &str, fragment: bool) -> Result<ANode, String> {
    // line-end normalisation on the whole entity
    let mut norm = String::with_capacity(text.len());
    let mut it = text.chars().peekable();
    while let Some(c) = it.next() {
        if c == '\r' {
            if it.peek() == Some(&'\n') {
                it.next();
            }
            norm.push('\n');
        } else {
            norm.push(c);
        }
    }
    let mut r = Reader {
        c: norm.chars().collect(),
        i: 0,
    };
    if r.c.first() == Some(&'\u{feff}') {
        r.i = 1;
    }
    r.document(fragment)
}

struct Scope {
    stack: Vec<(String, String)>,
}

impl Scope {
    fn lookup(&self, p: &str) -> Option<String> {
        if p == "xml" {
            return Some(XML_NS.to_string());
        }
        for (pp, u) in self.stack.iter().rev() {
            if pp == p {
                if u.is_empty() {
                    return None;
                }
                return Some(u.clone());
            }
        }
        None
    }
}

impl Reader {
    fn peek(&self) -> Option<char> {
        self.c.get(self.i).copied()
    }
    fn starts(&self, s: &str) -> bool {
        let mut j = self.i;
        for ch in s.chars() {
            if self.c.get(j) != Some(&ch) {
                return false;
            }
            j += 1;
        }
        true
    }
    fn eat(&mut self, s: &str) -> bool {
        if self.starts(s) {
            self.i += s.chars().count();
            true
        } else {
            false
        }
    }
    fn expect(&mut self, s: &str) -> Result<(), String> {
        if self.eat(s) {
            Ok(())
        } else {
            err(format!("expected {:?} at {}", s, self.i))
        }
    }
    fn skip_ws(&mut self) -> usize {
        let st = self.i;
        while let Some(c) = self.peek() {
            if is_xml_space(c) {
                self.i += 1;
            } else {
                break;
            }
        }
        self.i - st
    }
    fn name(&mut self) -> Result<String, String> {
        let st = self.i;
        match self.peek() {
            Some(c) if is_name_start(c) => self.i += 1,
            _ => return err(format!("name expected at {}", self.i)),
        }
        while let Some(c) = self.peek() {
            if is_name_char(c) {
                self.i += 1;
            } else {
                break;
            }
        }
        Ok(self.c[st..self.i].iter().collect())
    }

    fn document(&mut self, fragment: bool) -> Result<ANode, String> {
        if self.starts("<?xml") && self.c.get(self.i + 5).map(|c| is_xml_space(*c)).unwrap_or(false) {
            self.xml_decl()?;
        }
        let mut scope = Scope { stack: Vec::new() };
        let mut kids = Vec::new();
        self.content(&mut kids, &mut scope, true, fragment)?;
        if self.i != self.c.len() {
            return err(format!("unexpected content at {}", self.i));
        }
        if !fragment {
            let n = kids.iter().filter(|k| k.kind == AKind::Elem).count();
            if n != 1 {
                return err(format!("{} root elements", n));
            }
        }
        Ok(ANode::doc(kids))
    }

    fn xml_decl(&mut self) -> Result<(), String> {
        self.expect("<?xml")?;
        if self.skip_ws() == 0 {
            return err("space expected after <?xml");
        }
        self.expect("version")?;
        self.eq()?;
        let v = self.quoted()?;
        if v != "1.0" {
            return err(format!("version {:?}", v));
        }
        let ws = self.skip_ws();
        if self.starts("encoding") {
            if ws == 0 {
                return err("space expected");
            }
            self.expect("encoding")?;
            self.eq()?;
            let e = self.quoted()?;
            let mut ch = e.chars();
            match ch.next() {
                Some(c) if c.is_ascii_alphabetic() => {}
                _ => return err("bad encoding name"),
            }
            if !ch.all(|c| c.is_ascii_alphanumeric() || c == '.' || c == '_' || c == '-') {
                return err("bad encoding name");
            }
        }
        let ws = if self.starts("standalone") { 1 } else { self.skip_ws() };
        if self.starts("standalone") {
            if ws == 0 {
                return err("space expected");
            }
            self.expect("standalone")?;
            self.eq()?;
            let s = self.quoted()?;
            if s != "yes" && s != "no" {
                return err("bad standalone");
            }
        }
        self.skip_ws();
        self.expect("?>")
    }

    fn eq(&mut self) -> Result<(), String> {
        self.skip_ws();
        self.expect("=")?;
        self.skip_ws();
        Ok(())
    }

    fn quoted(&mut self) -> Result<String, String> {
        let q = match self.peek() {
            Some(c @ ('"' | '\'')) => c,
            _ => return err(format!("quote expected at {}", self.i)),
        };
        self.i += 1;
        let st = self.i;
        while let Some(c) = self.peek() {
            if c == q {
                let s: String = self.c[st..self.i].iter().collect();
                self.i += 1;
                return Ok(s);
            }
            self.i += 1;
        }
        err("unterminated quoted string")
    }

    fn reference(&mut self) -> Result<String, String> {
        // at '&'
        self.expect("&")?;
        if self.eat("#x") {
            let st = self.i;
            while self.peek().map(|c| c.is_ascii_hexdigit()).unwrap_or(false) {
                self.i += 1;
            }
            if st == self.i {
                return err("empty hex reference");
            }
            let s: String = self.c[st..self.i].iter().collect();
            self.expect(";")?;
            let v = u32::from_str_radix(&s, 16).map_err(|_| "hex reference overflow".to_string())?;
            let ch = char::from_u32(v).ok_or("bad code point")?;
            if !is_xml_char(ch) {
                return err("reference to non-XML char");
            }
            Ok(ch.to_string())
        } else if self.eat("#") {
            let st = self.i;
            while self.peek().map(|c| c.is_ascii_digit()).unwrap_or(false) {
                self.i += 1;
            }
            if st == self.i {
                return err("empty decimal reference");
            }
            let s: String = self.c[st..self.i].iter().collect();
            self.expect(";")?;
            let v: u32 = s.parse().map_err(|_| "decimal reference overflow".to_string())?;
            let ch = char::from_u32(v).ok_or("bad code point")?;
            if !is_xml_char(ch) {
                return err("reference to non-XML char");
            }
            Ok(ch.to_string())
        } else {
            let n = self.name()?;
            self.expect(";")?;
            match n.as_str() {
                "lt" => Ok("<".into()),
                "gt" => Ok(">".into()),
                "amp" => Ok("&".into()),
                "apos" => Ok("'".into()),
                "quot" => Ok("\"".into()),
                other => err(format!("unknown entity {:?}", other)),
            }
        }
    }

    fn att_value(&mut self) -> Result<String, String> {
        let q = match self.peek() {
            Some(c @ ('"' | '\'')) => c,
            _ => return err(format!("quote expected at {}", self.i)),
        };
        self.i += 1;
        let mut s = String::new();
        loop {
            match self.peek() {
                None => return err("unterminated attribute value"),
                Some(c) if c == q => {
                    self.i += 1;
                    return Ok(s);
                }
                Some('<') => return err("'<' in attribute value"),
                Some('&') => s.push_str(&self.reference()?),
                Some(c) if is_xml_space(c) => {
                    s.push(' ');
                    self.i += 1;
                }
                Some(c) => {
                    if !is_xml_char(c) {
                        return err("non-XML char");
                    }
                    s.push(c);
                    self.i += 1;
                }
            }
        }
    }

    fn content(
        &mut self,
        kids: &mut Vec<ANode>,
        scope: &mut Scope,
        top: bool,
        fragment: bool,
    ) -> Result<(), String> {
        let mut text = String::new();
        let mut have_text = false;
        macro_rules! flush {
            () => {
                if have_text {
                    if top && !fragment {
                        if !text.chars().all(is_xml_space) {
                            return err("text at top level");
                        }
                    } else {
                        kids.push(ANode::text(&text));
                    }
                    text.clear();
                    have_text = false;
                }
            };
        }
        loop {
            match self.peek() {
                None => {
                    flush!();
                    return Ok(());
                }
                Some('<') => {
                    if self.starts("</") {
                        flush!();
                        return Ok(());
                    } else if self.starts("<!--") {
                        flush!();
                        self.i += 4;
                        let st = self.i;
                        loop {
                            if self.i >= self.c.len() {
                                return err("unterminated comment");
                            }
                            if self.starts("--") {
                                break;
                            }
                            if !is_xml_char(self.c[self.i]) {
                                return err("non-XML char in comment");
                            }
                            self.i += 1;
                        }
                        let body: String = self.c[st..self.i].iter().collect();
                        self.expect("-->")?;
                        kids.push(ANode::comment(&body));
                    } else if self.starts("<![CDATA[") {
                        if top && !fragment {
                            return err("CDATA at top level");
                        }
                        self.i += 9;
                        let st = self.i;
                        loop {
                            if self.i >= self.c.len() {
                                return err("unterminated CDATA");
                            }
                            if self.starts("]]>") {
                                break;
                            }
                            if !is_xml_char(self.c[self.i]) {
                                return err("non-XML char in CDATA");
                            }
                            self.i += 1;
                        }
                        let body: String = self.c[st..self.i].iter().collect();
                        self.i += 3;
                        text.push_str(&body);
                        have_text = true;
                    } else if self.starts("<?") {
                        flush!();
                        self.i += 2;
                        let target = self.name()?;
                        if target.eq_ignore_ascii_case("xml") {
                            return err("PI target xml");
                        }
                        if target.contains(':') {
                            return err("colon in PI target");
                        }
                        let data;
                        if self.eat("?>") {
                            data = None;
                        } else {
                            if self.skip_ws() == 0 {
                                return err("space expected after PI target");
                            }
                            let st = self.i;
                            loop {
                                if self.i >= self.c.len() {
                                    return err("unterminated PI");
                                }
                                if self.starts("?>") {
                                    break;
                                }
                                if !is_xml_char(self.c[self.i]) {
                                    return err("non-XML char in PI");
                                }
                                self.i += 1;
                            }
                            let body: String = self.c[st..self.i].iter().collect();
                            self.i += 2;
                            data = if body.is_empty() { None } else { Some(body) };
                        }
                        kids.push(ANode::pi(&target, data.as_deref()));
                    } else if self.starts("<!") {
                        return err("DTD / markup declaration not supported");
                    } else {
                        flush!();
                        let e = self.element(scope)?;
                        kids.push(e);
                    }
                }
                Some('&') => {
                    let r = self.reference()?;
                    text.push_str(&r);
                    have_text = true;
                }
                Some(c) => {
                    if !is_xml_char(c) {
                        return err("non-XML char in text");
                    }
                    if c == ']' && self.starts("]]>") {
                        return err("']]>' in text");
                    }
                    text.push(c);
                    have_text = true;
                    self.i += 1;
                }
            }
        }
    }

    fn split(name: &str) -> Result<(String, String), String> {
        let parts: Vec<&str> = name.split(':').collect();
        match parts.len() {
            1 => Ok((String::new(), parts[0].to_string())),
            2 if !parts[0].is_empty() && !parts[1].is_empty() && is_ncname(parts[1]) => {
                Ok((parts[0].to_string(), parts[1].to_string()))
            }
            _ => err(format!("bad qualified name {:?}", name)),
        }
    }

    fn element(&mut self, scope: &mut Scope) -> Result<ANode, String> {
        self.expect("<")?;
        let qn = self.name()?;
        let mut raw: Vec<RawAttr> = Vec::new();
        let empty;
        loop {
            let ws = self.skip_ws();
            if self.eat("/>") {
                empty = true;
                break;
            }
            if self.eat(">") {
                empty = false;
                break;
            }
            if ws == 0 {
                return err(format!("space expected before attribute at {}", self.i));
            }
            let an = self.name()?;
            self.eq()?;
            let v = self.att_value()?;
            if raw.iter().any(|r| r.name == an) {
                return err(format!("duplicate attribute {:?}", an));
            }
            raw.push(RawAttr { name: an, value: v });
        }
        // declarations
        let mut decls: Vec<(String, String)> = Vec::new();
        for r in &raw {
            if r.name == "xmlns" {
                decls.push((String::new(), r.value.clone()));
            } else if let Some(p) = r.name.strip_prefix("xmlns:") {
                if r.value.is_empty() {
                    return err("prefix bound to empty namespace");
                }
                decls.push((p.to_string(), r.value.clone()));
            }
        }
        let pushed = decls.len();
        for d in &decls {
            scope.stack.push(d.clone());
        }
        let (p, l) = Self::split(&qn)?;
        let ns = if p.is_empty() {
            scope.lookup("").unwrap_or_default()
        } else {
            scope
                .lookup(&p)
                .ok_or_else(|| format!("undeclared prefix {:?}", p))?
        };
        let mut e = ANode::elem(QName::new(&ns, &l));
        e.decls = decls;
        for r in &raw {
            if r.name == "xmlns" || r.name.starts_with("xmlns:") {
                continue;
            }
            let (ap, al) = Self::split(&r.name)?;
            let ans = if ap.is_empty() {
                String::new()
            } else {
                scope
                    .lookup(&ap)
                    .ok_or_else(|| format!("undeclared prefix {:?}", ap))?
            };
            let q = QName::new(&ans, &al);
            if e.attrs.iter().any(|(n, _)| *n == q) {
                return err("attribute duplicated by expanded name");
            }
            e.attrs.push((q, r.value.clone()));
        }
        if !empty {
            let mut kids = Vec::new();
            self.content(&mut kids, scope, false, false)?;
            self.expect("</")?;
            let en = self.name()?;
            if en != qn {
                return err(format!("end tag {:?} does not match {:?}", en, qn));
            }
            self.skip_ws();
            self.expect(">")?;
            e.children = kids;
        }
        for _ in 0..pushed {
            scope.stack.pop();
        }
        Ok(e)
    }
}
