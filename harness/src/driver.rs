//! History driver for the manipulation properties (C04, C05, C06, C12): operations on real handles,
//! their execution under guard, argument-relation cells, and the shadow model update.

use crate::adoc::*;
use crate::build::{self, AttrStyle, Route};
use crate::engine::{guard, PanicInfo};
use crate::gen::{self, GenCfg, NsMode, TextProfile};
use crate::model::{relation, MKind, Mid, Model, Placement};
use crate::rng::Rng;
use crate::snap::{self, HTree};
use std::collections::HashMap;
use xot::{Node, Value, ValueType, Xot};

#[derive(Clone, Debug)]
pub enum Op {
    Append(Node, Node),
    Prepend(Node, Node),
    InsertAfter(Node, Node),
    InsertBefore(Node, Node),
    Detach(Node),
    Remove(Node),
    Replace(Node, Node),
    Wrap(Node, QName),
    Unwrap(Node),
    CloneNode(Node),
    CloneWithPrefixes(Node),
    AppendText(Node, String),
    AppendElement(Node, QName),
    AppendComment(Node, String),
    AppendPi(Node, String, Option<String>),
    AppendAttrNode(Node, Node),
    AppendNsNode(Node, Node),
    AnyAppend(Node, Node),
    AppendNamespace(Node, String, String),
    /// via: 0 set_attribute, 1 attributes_mut().insert, 2 entry().or_insert + assign
    SetAttr(Node, QName, String, u8),
    RemoveAttr(Node, QName, u8),
    /// attributes_mut(e).clear() (true) / namespaces_mut(e).clear() (false)
    ClearMap(Node, bool),
    SetNs(Node, String, String, u8),
    RemoveNs(Node, String, u8),
    SetElementName(Node, QName),
    SetText(Node, String),
    SetComment(Node, String),
    SetPiData(Node, Option<String>),
    SetAttrValue(Node, String),
    SetNsUri(Node, String),
    TextContentMut(Node, String),
    NewDocWithElement(Node),
    NewLeaf(ANode),
    NewAttrNode(QName, String),
    NewNsNode(String, String),
    Parse(String),
    RemoveWs(Node),
    CreateMissingPrefixes(Node),
    DedupNs(Node),
    SetConsolidation(bool),
}

impl Op {
    pub fn name(&self) -> &'static str {
        match self {
            Op::Append(..) => "append",
            Op::Prepend(..) => "prepend",
            Op::InsertAfter(..) => "insert_after",
            Op::InsertBefore(..) => "insert_before",
            Op::Detach(..) => "detach",
            Op::Remove(..) => "remove",
            Op::Replace(..) => "replace",
            Op::Wrap(..) => "element_wrap",
            Op::Unwrap(..) => "element_unwrap",
            Op::CloneNode(..) => "clone_node",
            Op::CloneWithPrefixes(..) => "clone_with_prefixes",
            Op::AppendText(..) => "append_text",
            Op::AppendElement(..) => "append_element",
            Op::AppendComment(..) => "append_comment",
            Op::AppendPi(..) => "append_processing_instruction",
            Op::AppendAttrNode(..) => "append_attribute_node",
            Op::AppendNsNode(..) => "append_namespace_node",
            Op::AnyAppend(..) => "any_append",
            Op::AppendNamespace(..) => "append_namespace",
            Op::SetAttr(_, _, _, 0) => "set_attribute",
            Op::SetAttr(_, _, _, 1) => "attributes_mut.insert",
            Op::SetAttr(..) => "attributes_mut.entry",
            Op::RemoveAttr(_, _, 0) => "remove_attribute",
            Op::RemoveAttr(..) => "attributes_mut.remove",
            Op::ClearMap(_, true) => "attributes_mut.clear",
            Op::ClearMap(_, false) => "namespaces_mut.clear",
            Op::SetNs(_, _, _, 0) => "set_namespace",
            Op::SetNs(_, _, _, 1) => "namespaces_mut.insert",
            Op::SetNs(..) => "namespaces_mut.entry",
            Op::RemoveNs(_, _, 0) => "remove_namespace",
            Op::RemoveNs(..) => "namespaces_mut.remove",
            Op::SetElementName(..) => "set_element_name",
            Op::SetText(..) => "text_mut.set",
            Op::SetComment(..) => "comment_mut.set",
            Op::SetPiData(..) => "processing_instruction_mut.set_data",
            Op::SetAttrValue(..) => "attribute_node_mut.set_value",
            Op::SetNsUri(..) => "namespace_node_mut.set_namespace",
            Op::TextContentMut(..) => "text_content_mut",
            Op::NewDocWithElement(..) => "new_document_with_element",
            Op::NewLeaf(..) => "new_node",
            Op::NewAttrNode(..) => "new_attribute_node",
            Op::NewNsNode(..) => "new_namespace_node",
            Op::Parse(..) => "parse",
            Op::RemoveWs(..) => "remove_insignificant_whitespace",
            Op::CreateMissingPrefixes(..) => "create_missing_prefixes",
            Op::DedupNs(..) => "deduplicate_namespaces",
            Op::SetConsolidation(..) => "set_text_consolidation",
        }
    }
    /// node arguments (first, second)
    pub fn args(&self) -> (Option<Node>, Option<Node>) {
        use Op::*;
        match self {
            Append(a, b) | Prepend(a, b) | InsertAfter(a, b) | InsertBefore(a, b) | Replace(a, b)
            | AppendAttrNode(a, b) | AppendNsNode(a, b) | AnyAppend(a, b) => (Some(*a), Some(*b)),
            Detach(a) | Remove(a) | Wrap(a, _) | Unwrap(a) | CloneNode(a) | CloneWithPrefixes(a)
            | AppendText(a, _) | AppendElement(a, _) | AppendComment(a, _) | AppendPi(a, _, _)
            | AppendNamespace(a, _, _) | SetAttr(a, _, _, _) | RemoveAttr(a, _, _) | SetNs(a, _, _, _)
            | RemoveNs(a, _, _) | SetElementName(a, _) | SetText(a, _) | SetComment(a, _)
            | SetPiData(a, _) | SetAttrValue(a, _) | SetNsUri(a, _) | TextContentMut(a, _)
            | NewDocWithElement(a) | RemoveWs(a) | CreateMissingPrefixes(a) | DedupNs(a) | ClearMap(a, _) => (Some(*a), None),
            NewLeaf(_) | NewAttrNode(..) | NewNsNode(..) | Parse(_) | SetConsolidation(_) => (None, None),
        }
    }
    /// the documented panics: element-only accessors on a non-element
    pub fn documented_panic_family(&self) -> bool {
        matches!(
            self,
            Op::SetAttr(..) | Op::RemoveAttr(..) | Op::SetNs(..) | Op::RemoveNs(..) | Op::SetElementName(..) | Op::ClearMap(..)
        )
    }
}

#[derive(Clone, Debug)]
pub enum Outcome {
    Ok(Option<Node>),
    /// Ok but the call reported "not applicable" (accessor returned None)
    NoneReturned,
    Err(String),
    Panic(PanicInfo),
}

impl Outcome {
    pub fn class(&self) -> &'static str {
        match self {
            Outcome::Ok(_) => "ok",
            Outcome::NoneReturned => "none",
            Outcome::Err(_) => "err",
            Outcome::Panic(_) => "panic",
        }
    }
}

pub fn name_id(xot: &mut Xot, q: &QName) -> xot::NameId {
    let ns = xot.add_namespace(&q.ns);
    xot.add_name_ns(&q.local, ns)
}

pub fn kind_of(xot: &Xot, n: Node) -> MKind {
    match xot.value_type(n) {
        ValueType::Document => MKind::Doc,
        ValueType::Element => MKind::Elem,
        ValueType::Text => MKind::Text,
        ValueType::Comment => MKind::Comment,
        ValueType::ProcessingInstruction => MKind::Pi,
        ValueType::Attribute => MKind::Attr,
        ValueType::Namespace => MKind::Ns,
    }
}

/// execute one operation against the real library, under guard
pub fn exec(xot: &mut Xot, op: &Op) -> Outcome {
    let r = guard(|| -> Result<Option<Option<Node>>, xot::Error> {
        // Ok(Some(x)) = success with optional node, Ok(None) = accessor returned None
        use Op::*;
        match op {
            Append(p, c) => xot.append(*p, *c).map(|_| Some(None)),
            Prepend(p, c) => xot.prepend(*p, *c).map(|_| Some(None)),
            InsertAfter(r, n) => xot.insert_after(*r, *n).map(|_| Some(None)),
            InsertBefore(r, n) => xot.insert_before(*r, *n).map(|_| Some(None)),
            Detach(n) => xot.detach(*n).map(|_| Some(None)),
            Remove(n) => xot.remove(*n).map(|_| Some(None)),
            Replace(x, y) => xot.replace(*x, *y).map(|_| Some(None)),
            Wrap(n, q) => {
                let name = name_id(xot, q);
                xot.element_wrap(*n, name).map(|w| Some(Some(w)))
            }
            Unwrap(n) => xot.element_unwrap(*n).map(|_| Some(None)),
            CloneNode(n) => Ok(Some(Some(xot.clone_node(*n)))),
            CloneWithPrefixes(n) => Ok(Some(Some(xot.clone_with_prefixes(*n)))),
            AppendText(p, s) => xot.append_text(*p, s).map(|_| Some(None)),
            AppendElement(p, q) => {
                let name = name_id(xot, q);
                xot.append_element(*p, name).map(|_| Some(None))
            }
            AppendComment(p, s) => xot.append_comment(*p, s).map(|_| Some(None)),
            AppendPi(p, t, d) => {
                let name = name_id(xot, &QName::plain(t));
                xot.append_processing_instruction(*p, name, d.as_deref()).map(|_| Some(None))
            }
            AppendAttrNode(e, a) => xot.append_attribute_node(*e, *a).map(|n| Some(Some(n))),
            AppendNsNode(e, a) => xot.append_namespace_node(*e, *a).map(|n| Some(Some(n))),
            AnyAppend(e, a) => xot.any_append(*e, *a).map(|n| Some(Some(n))),
            AppendNamespace(e, p, u) => {
                let pid = xot.add_prefix(p);
                let nid = xot.add_namespace(u);
                let n = xot.new_namespace_node(pid, nid);
                xot.append_namespace_node(*e, n).map(|n| Some(Some(n)))
            }
            SetAttr(e, q, v, via) => {
                let name = name_id(xot, q);
                match via {
                    0 => xot.set_attribute(*e, name, v.clone()),
                    1 => {
                        xot.attributes_mut(*e).insert(name, v.clone());
                    }
                    _ => {
                        let mut m = xot.attributes_mut(*e);
                        let slot = m.entry(name).or_insert(String::new());
                        *slot = v.clone();
                    }
                }
                Ok(Some(None))
            }
            ClearMap(e, attrs) => {
                if *attrs {
                    xot.attributes_mut(*e).clear();
                } else {
                    xot.namespaces_mut(*e).clear();
                }
                Ok(Some(None))
            }
            RemoveAttr(e, q, via) => {
                let name = name_id(xot, q);
                match via {
                    0 => xot.remove_attribute(*e, name),
                    _ => {
                        xot.attributes_mut(*e).remove(name);
                    }
                }
                Ok(Some(None))
            }
            SetNs(e, p, u, via) => {
                let pid = xot.add_prefix(p);
                let nid = xot.add_namespace(u);
                match via {
                    0 => xot.set_namespace(*e, pid, nid),
                    1 => {
                        xot.namespaces_mut(*e).insert(pid, nid);
                    }
                    _ => {
                        let mut m = xot.namespaces_mut(*e);
                        let slot = m.entry(pid).or_insert(nid);
                        *slot = nid;
                    }
                }
                Ok(Some(None))
            }
            RemoveNs(e, p, via) => {
                let pid = xot.add_prefix(p);
                match via {
                    0 => xot.remove_namespace(*e, pid),
                    _ => {
                        xot.namespaces_mut(*e).remove(pid);
                    }
                }
                Ok(Some(None))
            }
            SetElementName(e, q) => {
                let name = name_id(xot, q);
                xot.set_element_name(*e, name);
                Ok(Some(None))
            }
            SetText(n, s) => match xot.text_mut(*n) {
                Some(t) => {
                    t.set(s.clone());
                    Ok(Some(None))
                }
                None => Ok(None),
            },
            SetComment(n, s) => match xot.comment_mut(*n) {
                Some(c) => c.set(s.clone()).map(|_| Some(None)),
                None => Ok(None),
            },
            SetPiData(n, d) => match xot.processing_instruction_mut(*n) {
                Some(pi) => {
                    pi.set_data(d.clone());
                    Ok(Some(None))
                }
                None => Ok(None),
            },
            SetAttrValue(n, s) => match xot.attribute_node_mut(*n) {
                Some(a) => {
                    a.set_value(s.clone());
                    Ok(Some(None))
                }
                None => Ok(None),
            },
            SetNsUri(n, u) => {
                let nid = xot.add_namespace(u);
                match xot.namespace_node_mut(*n) {
                    Some(a) => {
                        a.set_namespace(nid);
                        Ok(Some(None))
                    }
                    None => Ok(None),
                }
            }
            TextContentMut(n, s) => match xot.text_content_mut(*n) {
                Some(t) => {
                    t.set(s.clone());
                    Ok(Some(None))
                }
                None => Ok(None),
            },
            NewDocWithElement(e) => xot.new_document_with_element(*e).map(|d| Some(Some(d))),
            NewLeaf(a) => Ok(Some(Some(build::new_leaf(xot, a)))),
            NewAttrNode(q, v) => {
                let name = name_id(xot, q);
                Ok(Some(Some(xot.new_attribute_node(name, v.clone()))))
            }
            NewNsNode(p, u) => {
                let pid = xot.add_prefix(p);
                let nid = xot.add_namespace(u);
                Ok(Some(Some(xot.new_namespace_node(pid, nid))))
            }
            Parse(s) => xot.parse(s).map(|d| Some(Some(d))).map_err(xot::Error::Parse),
            RemoveWs(n) => {
                xot.remove_insignificant_whitespace(*n);
                Ok(Some(None))
            }
            CreateMissingPrefixes(n) => xot.create_missing_prefixes(*n).map(|_| Some(None)),
            DedupNs(n) => {
                xot.deduplicate_namespaces(*n);
                Ok(Some(None))
            }
            SetConsolidation(b) => {
                xot.set_text_consolidation(*b);
                Ok(Some(None))
            }
        }
    });
    match r {
        Err(p) => Outcome::Panic(p),
        Ok(Err(e)) => Outcome::Err(format!("{:?}", e)),
        Ok(Ok(None)) => Outcome::NoneReturned,
        Ok(Ok(Some(n))) => Outcome::Ok(n),
    }
}

// ---------------------------------------------------------------------------------------------
// relations read from the real tree (bounded)

pub fn parent_chain(xot: &Xot, n: Node, limit: usize) -> Vec<Node> {
    let mut v = Vec::new();
    let mut cur = xot.parent(n);
    while let Some(p) = cur {
        if v.len() >= limit {
            break;
        }
        v.push(p);
        cur = xot.parent(p);
    }
    v
}

pub fn rel_real(xot: &Xot, a: Node, b: Node) -> &'static str {
    if a == b {
        return "same";
    }
    let na = xot.value(a).value_type();
    let nb = xot.value(b).value_type();
    let abn = |t: ValueType| matches!(t, ValueType::Attribute | ValueType::Namespace);
    let pa = xot.parent(a);
    let pb = xot.parent(b);
    if abn(na) && pa == Some(b) {
        return "a-abnormal-node-of-b";
    }
    if abn(nb) && pb == Some(a) {
        return "b-abnormal-node-of-a";
    }
    if abn(na) && abn(nb) && pa.is_some() && pa == pb {
        return "abnormal-nodes-of-one-element";
    }
    if pb == Some(a) {
        return "a-parent-of-b";
    }
    if pa == Some(b) {
        return "b-parent-of-a";
    }
    let ca = parent_chain(xot, a, 5000);
    let cb = parent_chain(xot, b, 5000);
    if cb.contains(&a) {
        return "a-ancestor-of-b";
    }
    if ca.contains(&b) {
        return "b-ancestor-of-a";
    }
    if pa.is_some() && pa == pb && !abn(na) && !abn(nb) {
        if xot.next_sibling(a) == Some(b) {
            return "a-immediately-before-b";
        }
        if xot.previous_sibling(a) == Some(b) {
            return "a-immediately-after-b";
        }
        return "siblings-apart";
    }
    let ra = ca.last().copied().unwrap_or(a);
    let rb = cb.last().copied().unwrap_or(b);
    if ra == rb {
        "same-tree-unrelated"
    } else {
        "different-trees"
    }
}

/// text neighbours at the old place of `n` (before the call): none / left / right / both
pub fn text_neighbours(xot: &Xot, n: Node) -> &'static str {
    let l = xot.previous_sibling(n).map(|x| xot.is_text(x)).unwrap_or(false);
    let r = xot.next_sibling(n).map(|x| xot.is_text(x)).unwrap_or(false);
    match (l, r) {
        (false, false) => "none",
        (true, false) => "left",
        (false, true) => "right",
        (true, true) => "both",
    }
}

pub fn cell(xot: &Xot, op: &Op) -> String {
    match op.args() {
        (Some(a), Some(b)) => {
            let ka = kind_of(xot, a).short();
            let kb = kind_of(xot, b).short();
            format!("{}/{}-{}", rel_real(xot, a, b), ka, kb)
        }
        (Some(a), None) => format!("{}{}", kind_of(xot, a).short(), if xot.parent(a).is_none() { "-root" } else { "" }),
        _ => "-".to_string(),
    }
}

// ---------------------------------------------------------------------------------------------
// the forest under test

pub struct Forest {
    pub xot: Xot,
    pub model: Model,
    pub map: HashMap<Node, Mid>,
    /// handle-less nodes the implementation is allowed to leave behind (refused create+append calls)
    pub leaks: usize,
    /// nodes of half-built trees that refused parse calls left in the arena: no handle to them was ever handed
    /// out, so they are neither arguments of later calls nor part of any state the caller can observe
    pub garbage: std::collections::HashSet<Node>,
    pub consolidation_ever_off: bool,
    pub with_model: bool,
}

pub fn forest_gen_cfg(rng: &mut Rng) -> GenCfg {
    let mut cfg = GenCfg::default();
    cfg.max_nodes = *rng.pick(&[4, 8, 14]);
    cfg.max_depth = *rng.pick(&[2, 3, 5]);
    cfg.max_children = 4;
    cfg.ns_mode = if rng.chance(1, 3) { NsMode::None } else { NsMode::Consistent };
    cfg.text = if rng.chance(1, 3) { TextProfile::Whitespace } else { TextProfile::Plain };
    cfg.str_len = 3;
    cfg.fragment = rng.chance(1, 3);
    cfg.top_misc = rng.chance(1, 3);
    cfg.xml_space = rng.chance(1, 6);
    cfg.xml_id = rng.chance(1, 4);
    // isolated empty text nodes (new_text("") / text_mut().set("")) are legal trees too
    cfg.allow_empty_text = rng.chance(1, 3);
    cfg
}

impl Forest {
    pub fn empty(with_model: bool) -> Forest {
        Forest {
            xot: Xot::new(),
            model: Model::new(),
            map: HashMap::new(),
            leaks: 0,
            garbage: std::collections::HashSet::new(),
            consolidation_ever_off: false,
            with_model,
        }
    }

    pub fn rebuild_map(&mut self) {
        self.map.clear();
        for (i, n) in self.model.nodes.iter().enumerate() {
            if let Some(h) = n.handle {
                if n.live {
                    self.map.insert(h, i);
                }
            }
        }
    }

    pub fn mid(&self, h: Node) -> Option<Mid> {
        self.map.get(&h).copied()
    }

    /// add one tree built through the creation API
    pub fn add_tree(&mut self, a: &ANode, route: Route, style: AttrStyle) -> Result<Node, String> {
        let h = build::build(&mut self.xot, a, route, style)?;
        if self.with_model {
            let m = self.model.from_anode(a);
            self.model.bind(m, &h)?;
            self.rebuild_map();
        }
        Ok(h.node)
    }

    /// a random start forest: 2-4 trees (documents, fragments, parentless subtrees, lone leaves)
    pub fn random(rng: &mut Rng, with_model: bool, consolidation: bool) -> Result<Forest, String> {
        let mut f = Forest::empty(with_model);
        f.xot.set_text_consolidation(consolidation);
        f.model.consolidation = consolidation;
        if !consolidation {
            f.consolidation_ever_off = true;
        }
        let ntrees = rng.range(2, 4);
        for _ in 0..ntrees {
            let mut cfg = forest_gen_cfg(rng);
            if !consolidation {
                cfg.allow_adjacent_text = true;
            }
            let a = match rng.below(6) {
                0 | 1 | 2 => gen::gen_document(rng, &cfg),
                3 | 4 => gen::gen_element(rng, &cfg),
                _ => match rng.below(3) {
                    0 => ANode::text(&gen::plain_string(rng, 1, 3)),
                    1 => ANode::comment("c"),
                    _ => ANode::pi("pi", Some("d")),
                },
            };
            let route = *rng.pick(&build::ROUTES);
            let style = *rng.pick(&crate::build::STYLES);
            f.add_tree(&a, route, style)?;
        }
        Ok(f)
    }

    pub fn live_handles(&self) -> Vec<Node> {
        let mut v = self.xot.verif_live_nodes();
        if !self.garbage.is_empty() {
            v.retain(|n| !self.garbage.contains(n));
        }
        v
    }

    /// after a refused parse: whatever is live now and was not before is unreachable garbage
    pub fn note_parse_garbage(&mut self, live_before: &[Node]) {
        let before: std::collections::HashSet<Node> = live_before.iter().copied().collect();
        let mut added = 0;
        for n in self.xot.verif_live_nodes() {
            if !before.contains(&n) && self.garbage.insert(n) {
                added += 1;
            }
        }
        self.leaks += added;
    }

    // ------------------------------------------------------------------ preconditions (Appendix A)

    /// does the call satisfy the documented preconditions under which C05 demands success?
    pub fn precondition(&self, op: &Op) -> bool {
        let x = &self.xot;
        let kind = |n: Node| kind_of(x, n);
        let ordinary_movable = |n: Node| kind(n).ordinary() && kind(n) != MKind::Doc;
        let container = |n: Node| matches!(kind(n), MKind::Elem | MKind::Doc);
        let anc_or_self = |a: Node, of: Node| a == of || parent_chain(x, of, 5000).contains(&a);
        use Op::*;
        match op {
            Append(p, c) | Prepend(p, c) => container(*p) && ordinary_movable(*c) && !anc_or_self(*c, *p),
            InsertAfter(r, n) | InsertBefore(r, n) => {
                if !kind(*r).ordinary() || r == n || !ordinary_movable(*n) {
                    return false;
                }
                match x.parent(*r) {
                    Some(p) => container(p) && !anc_or_self(*n, p),
                    None => false,
                }
            }
            Detach(_) | Remove(_) => true,
            Replace(a, b) => {
                ordinary_movable(*a)
                    && x.parent(*a).is_some()
                    && ordinary_movable(*b)
                    && !anc_or_self(*b, *a)
                    && !anc_or_self(*a, *b)
            }
            Wrap(n, _) => {
                if !ordinary_movable(*n) {
                    return false;
                }
                match x.parent(*n) {
                    Some(p) if kind(p) == MKind::Doc => {
                        // only the document element may be wrapped under a document
                        kind(*n) == MKind::Elem
                            && snap::children_chain(x, p, 100_000)
                                .map(|k| k.iter().find(|c| kind(**c) == MKind::Elem) == Some(n))
                                .unwrap_or(false)
                    }
                    _ => true,
                }
            }
            Unwrap(e) => kind(*e) == MKind::Elem && x.parent(*e).is_some(),
            CloneNode(_) | CloneWithPrefixes(_) => true,
            // whether the wrapper may refuse "--" is left open (Comment::set does refuse it)
            AppendComment(p, s) => container(*p) && !s.contains("--") && !s.ends_with('-'),
            AppendText(p, _) | AppendElement(p, _) | AppendPi(p, _, _) => container(*p),
            AppendAttrNode(e, a) => kind(*e) == MKind::Elem && kind(*a) == MKind::Attr,
            AppendNsNode(e, a) => kind(*e) == MKind::Elem && kind(*a) == MKind::Ns,
            AnyAppend(e, a) => match kind(*a) {
                MKind::Attr | MKind::Ns => kind(*e) == MKind::Elem,
                _ => container(*e) && ordinary_movable(*a) && !anc_or_self(*a, *e),
            },
            AppendNamespace(e, _, _) => kind(*e) == MKind::Elem,
            SetAttr(e, ..) | RemoveAttr(e, ..) | SetNs(e, ..) | RemoveNs(e, ..) | SetElementName(e, _) | ClearMap(e, _) => {
                kind(*e) == MKind::Elem
            }
            SetText(n, _) => kind(*n) == MKind::Text,
            // (a comment may not contain "--"; whether one ending in "-", which cannot be written either, is refused is left open)
            SetComment(n, s) => kind(*n) == MKind::Comment && !s.contains("--") && !s.ends_with('-'),
            SetPiData(n, _) => kind(*n) == MKind::Pi,
            SetAttrValue(n, _) => kind(*n) == MKind::Attr,
            SetNsUri(n, _) => kind(*n) == MKind::Ns,
            TextContentMut(..) => true,
            NewDocWithElement(e) => kind(*e) == MKind::Elem,
            NewLeaf(_) | NewAttrNode(..) | NewNsNode(..) => true,
            // the documented precondition of parse: the text is a well-formed document (judged by the independent reader)
            Parse(s) => crate::xmlread::read(s, false).is_ok(),
            SetConsolidation(_) => true,
            RemoveWs(_) | DedupNs(_) | CreateMissingPrefixes(_) => false,
        }
    }

    // ------------------------------------------------------------------ model update

    /// Apply `op` to the shadow model (the call satisfied the preconditions and returned Ok).
    /// Returns Err(description) when the real result cannot even be bound to the model.
    pub fn apply_model(&mut self, op: &Op, outcome: &Outcome) -> Result<(), String> {
        let ret = match outcome {
            Outcome::Ok(n) => *n,
            _ => None,
        };
        let mid = |f: &Forest, h: Node| -> Result<Mid, String> {
            f.mid(h).ok_or_else(|| "argument handle unknown to the model".to_string())
        };
        self.model.merges.clear();
        use Op::*;
        match op {
            Append(p, c) => {
                let (p, c) = (mid(self, *p)?, mid(self, *c)?);
                if !(self.model.n(c).parent == Some(p) && self.model.n(p).children.last() == Some(&c)) {
                    self.model.move_to(c, p, Placement::Last);
                }
            }
            Prepend(p, c) => {
                let (p, c) = (mid(self, *p)?, mid(self, *c)?);
                if !(self.model.n(c).parent == Some(p) && self.model.n(p).children.first() == Some(&c)) {
                    self.model.move_to(c, p, Placement::First);
                }
            }
            InsertAfter(r, n) => {
                let (r, n) = (mid(self, *r)?, mid(self, *n)?);
                let p = self.model.n(r).parent.ok_or("reference without parent")?;
                let already = self.model.n(n).parent == Some(p)
                    && self.model.index_in_parent(n) == self.model.index_in_parent(r).map(|i| i + 1);
                if !already {
                    self.model.move_to(n, p, Placement::After(r));
                }
            }
            InsertBefore(r, n) => {
                let (r, n) = (mid(self, *r)?, mid(self, *n)?);
                let p = self.model.n(r).parent.ok_or("reference without parent")?;
                let already = self.model.n(n).parent == Some(p)
                    && self.model.index_in_parent(n).map(|i| i + 1) == self.model.index_in_parent(r);
                if !already {
                    self.model.move_to(n, p, Placement::Before(r));
                }
            }
            Detach(n) => {
                let n = mid(self, *n)?;
                let ord = self.model.kind(n).ordinary();
                if let Some(p) = self.model.unlink(n) {
                    if ord {
                        self.model.consolidate(p, None);
                    }
                }
            }
            Remove(n) => {
                let n = mid(self, *n)?;
                let ord = self.model.kind(n).ordinary();
                let p = self.model.unlink(n);
                self.model.kill_subtree(n);
                if let Some(p) = p {
                    if ord {
                        self.model.consolidate(p, None);
                    }
                }
            }
            Replace(x, y) => {
                let (x, y) = (mid(self, *x)?, mid(self, *y)?);
                let p = self.model.n(x).parent.ok_or("replaced node without parent")?;
                let old = self.model.unlink(y);
                let idx = self.model.index_in_parent(x).ok_or("replaced node not among children")?;
                self.model.nm(p).children[idx] = y;
                self.model.nm(y).parent = Some(p);
                self.model.nm(x).parent = None;
                self.model.kill_subtree(x);
                if let Some(o) = old {
                    if o != p {
                        self.model.consolidate(o, None);
                    }
                }
                self.model.consolidate(p, Some(y));
            }
            Wrap(n, q) => {
                let n = mid(self, *n)?;
                let w = self.model.add(MKind::Elem);
                self.model.nm(w).name = q.clone();
                self.model.nm(w).handle = ret;
                if let Some(p) = self.model.n(n).parent {
                    let idx = self.model.index_in_parent(n).ok_or("wrapped node not among children")?;
                    self.model.nm(p).children[idx] = w;
                    self.model.nm(w).parent = Some(p);
                }
                self.model.nm(n).parent = Some(w);
                self.model.nm(w).children.push(n);
            }
            Unwrap(e) => {
                let e = mid(self, *e)?;
                let p = self.model.n(e).parent.ok_or("unwrap of a parentless element")?;
                let idx = self.model.index_in_parent(e).ok_or("unwrapped element not among children")?;
                let kids = self.model.n(e).children.clone();
                self.model.nm(e).children.clear();
                self.model.nm(p).children.remove(idx);
                for (i, k) in kids.iter().enumerate() {
                    self.model.nm(p).children.insert(idx + i, *k);
                    self.model.nm(*k).parent = Some(p);
                }
                self.model.nm(e).parent = None;
                self.model.kill_subtree(e);
                self.model.consolidate(p, None);
            }
            CloneNode(n) | CloneWithPrefixes(n) => {
                let n = mid(self, *n)?;
                let c = self.model.copy_subtree(n);
                if self.model.consolidation {
                    self.model.consolidate_deep(c);
                }
                let h = ret.ok_or("clone returned no node")?;
                if matches!(op, CloneWithPrefixes(_)) && self.model.kind(c) == MKind::Elem {
                    // the extra declarations are checked by the caller (C12); adopt them
                    let real_ns: Vec<Node> = snap::bounded(self.xot.namespaces(h).nodes(), 10_000).unwrap_or_default();
                    let have = self.model.n(c).nss.len();
                    for extra in real_ns.iter().skip(have) {
                        if let Value::Namespace(v) = self.xot.value(*extra) {
                            let m = self.model.add(MKind::Ns);
                            self.model.nm(m).prefix = self.xot.prefix_str(v.prefix()).to_string();
                            self.model.nm(m).text = self.xot.namespace_str(v.namespace()).to_string();
                            self.model.nm(m).parent = Some(c);
                            self.model.nm(c).nss.push(m);
                        }
                    }
                }
                self.bind_fresh(c, h)?;
            }
            AppendText(p, s) => {
                let p = mid(self, *p)?;
                let t = self.model.add(MKind::Text);
                self.model.nm(t).text = s.clone();
                self.model.move_to(t, p, Placement::Last);
            }
            AppendElement(p, q) => {
                let p = mid(self, *p)?;
                let t = self.model.add(MKind::Elem);
                self.model.nm(t).name = q.clone();
                self.model.move_to(t, p, Placement::Last);
            }
            AppendComment(p, s) => {
                let p = mid(self, *p)?;
                let t = self.model.add(MKind::Comment);
                self.model.nm(t).text = s.clone();
                self.model.move_to(t, p, Placement::Last);
            }
            AppendPi(p, tg, d) => {
                let p = mid(self, *p)?;
                let t = self.model.add(MKind::Pi);
                self.model.nm(t).name = QName::plain(tg);
                self.model.nm(t).data = d.clone();
                self.model.move_to(t, p, Placement::Last);
            }
            AppendAttrNode(e, a) | AppendNsNode(e, a) | AnyAppend(e, a) => {
                let (e, a) = (mid(self, *e)?, mid(self, *a)?);
                match self.model.kind(a) {
                    MKind::Attr => {
                        let name = self.model.n(a).name.clone();
                        if let Some(existing) = self.model.find_attr(e, &name) {
                            let v = self.model.n(a).text.clone();
                            self.model.nm(existing).text = v;
                            self.expect_return(ret, existing)?;
                        } else {
                            self.model.unlink(a);
                            self.model.nm(a).parent = Some(e);
                            self.model.nm(e).attrs.push(a);
                            self.expect_return(ret, a)?;
                        }
                    }
                    MKind::Ns => {
                        let prefix = self.model.n(a).prefix.clone();
                        if let Some(existing) = self.model.find_ns(e, &prefix) {
                            let v = self.model.n(a).text.clone();
                            self.model.nm(existing).text = v;
                            self.expect_return(ret, existing)?;
                        } else {
                            self.model.unlink(a);
                            self.model.nm(a).parent = Some(e);
                            self.model.nm(e).nss.push(a);
                            self.expect_return(ret, a)?;
                        }
                    }
                    _ => {
                        // any_append of an ordinary node = append
                        if !(self.model.n(a).parent == Some(e) && self.model.n(e).children.last() == Some(&a)) {
                            self.model.move_to(a, e, Placement::Last);
                        }
                    }
                }
            }
            AppendNamespace(e, p, u) => {
                let e = mid(self, *e)?;
                if let Some(existing) = self.model.find_ns(e, p) {
                    self.model.nm(existing).text = u.clone();
                    self.expect_return(ret, existing)?;
                    self.leaks += 1; // the freshly created node stays unreachable
                } else {
                    let m = self.model.add(MKind::Ns);
                    self.model.nm(m).prefix = p.clone();
                    self.model.nm(m).text = u.clone();
                    self.model.nm(m).parent = Some(e);
                    self.model.nm(m).handle = ret;
                    self.model.nm(e).nss.push(m);
                }
            }
            SetAttr(e, q, v, _) => {
                let e = mid(self, *e)?;
                if let Some(existing) = self.model.find_attr(e, q) {
                    self.model.nm(existing).text = v.clone();
                } else {
                    let m = self.model.add(MKind::Attr);
                    self.model.nm(m).name = q.clone();
                    self.model.nm(m).text = v.clone();
                    self.model.nm(m).parent = Some(e);
                    self.model.nm(e).attrs.push(m);
                }
            }
            RemoveAttr(e, q, _) => {
                let e = mid(self, *e)?;
                if let Some(existing) = self.model.find_attr(e, q) {
                    self.model.unlink(existing);
                    self.model.kill_subtree(existing);
                }
            }
            ClearMap(e, attrs) => {
                // exactly the entries of that one map go; the other map and the children stay
                let e = mid(self, *e)?;
                let victims: Vec<Mid> = if *attrs { self.model.n(e).attrs.clone() } else { self.model.n(e).nss.clone() };
                for v in victims {
                    self.model.unlink(v);
                    self.model.kill_subtree(v);
                }
            }
            SetNs(e, p, u, _) => {
                let e = mid(self, *e)?;
                if let Some(existing) = self.model.find_ns(e, p) {
                    self.model.nm(existing).text = u.clone();
                } else {
                    let m = self.model.add(MKind::Ns);
                    self.model.nm(m).prefix = p.clone();
                    self.model.nm(m).text = u.clone();
                    self.model.nm(m).parent = Some(e);
                    self.model.nm(e).nss.push(m);
                }
            }
            RemoveNs(e, p, _) => {
                let e = mid(self, *e)?;
                if let Some(existing) = self.model.find_ns(e, p) {
                    self.model.unlink(existing);
                    self.model.kill_subtree(existing);
                }
            }
            SetElementName(e, q) => {
                let e = mid(self, *e)?;
                self.model.nm(e).name = q.clone();
            }
            SetText(n, s) | SetComment(n, s) | SetAttrValue(n, s) | SetNsUri(n, s) => {
                let n = mid(self, *n)?;
                self.model.nm(n).text = s.clone();
            }
            SetPiData(n, d) => {
                let n = mid(self, *n)?;
                self.model.nm(n).data = match d {
                    Some(s) if !s.is_empty() => Some(s.clone()),
                    _ => None,
                };
            }
            TextContentMut(n, s) => {
                let n = mid(self, *n)?;
                let kids = self.model.n(n).children.clone();
                let returned_some = matches!(outcome, Outcome::Ok(_));
                if kids.len() == 1 && self.model.kind(kids[0]) == MKind::Text {
                    if !returned_some {
                        return Err("text_content_mut returned None for an element with exactly one text child".into());
                    }
                    self.model.nm(kids[0]).text = s.clone();
                } else if kids.is_empty() && self.model.kind(n) == MKind::Elem {
                    if !returned_some {
                        return Err("text_content_mut returned None for an element without children".into());
                    }
                    let t = self.model.add(MKind::Text);
                    self.model.nm(t).text = s.clone();
                    self.model.nm(t).parent = Some(n);
                    self.model.nm(n).children.push(t);
                } else if returned_some {
                    return Err("text_content_mut returned a text node although the node has no single text child".into());
                }
            }
            NewDocWithElement(e) => {
                let e = mid(self, *e)?;
                let d = self.model.add(MKind::Doc);
                self.model.nm(d).handle = ret;
                self.model.move_to(e, d, Placement::Last);
            }
            NewLeaf(a) => {
                let m = self.model.from_anode(a);
                self.model.nm(m).handle = ret;
            }
            NewAttrNode(q, v) => {
                let m = self.model.add(MKind::Attr);
                self.model.nm(m).name = q.clone();
                self.model.nm(m).text = v.clone();
                self.model.nm(m).handle = ret;
            }
            NewNsNode(p, u) => {
                let m = self.model.add(MKind::Ns);
                self.model.nm(m).prefix = p.clone();
                self.model.nm(m).text = u.clone();
                self.model.nm(m).handle = ret;
            }
            Parse(s) => {
                let a = crate::xmlread::read(s, false).map_err(|e| format!("harness: generated document unreadable: {}", e))?;
                let m = self.model.from_anode(&a);
                let h = ret.ok_or("parse returned no node")?;
                self.bind_fresh(m, h)?;
            }
            SetConsolidation(b) => {
                self.model.consolidation = *b;
                if !*b {
                    self.consolidation_ever_off = true;
                }
            }
            RemoveWs(_) | CreateMissingPrefixes(_) | DedupNs(_) => {
                return Err("operation has no ordered-tree model here".into());
            }
        }
        self.resolve_survivors();
        self.bind_unbound()?;
        self.rebuild_map();
        Ok(())
    }

    fn expect_return(&self, ret: Option<Node>, m: Mid) -> Result<(), String> {
        match (ret, self.model.n(m).handle) {
            (Some(r), Some(h)) if r == h => Ok(()),
            (Some(_), Some(_)) => Err("call returned another node than the model expects (existing entry keeps its node; new entry is the passed node)".into()),
            _ => Ok(()),
        }
    }

    /// where the specification allows either of two survivors of a text merge, adopt the observed one
    fn resolve_survivors(&mut self) {
        for i in 0..self.model.merges.len() {
            let mg = self.model.merges[i].clone();
            if let Some(alt) = mg.alt_survivor {
                let hs = self.model.n(mg.survivor).handle;
                let ha = self.model.n(alt).handle;
                if let (Some(hs), Some(ha)) = (hs, ha) {
                    let s_removed = guard(|| self.xot.is_removed(hs)).unwrap_or(false);
                    let a_removed = guard(|| self.xot.is_removed(ha)).unwrap_or(true);
                    if s_removed && !a_removed {
                        self.model.adopt_alt_survivor(i);
                    }
                }
            }
        }
    }

    /// bind a freshly created model subtree to the real subtree rooted at `h` by parallel descent
    fn bind_fresh(&mut self, m: Mid, h: Node) -> Result<(), String> {
        let s = match guard(|| snap::snap(&self.xot, h)) {
            Ok(Ok(s)) => s,
            Ok(Err(e)) => return Err(format!("new subtree cannot be read back: {}", e)),
            Err(p) => return Err(format!("panic reading new subtree: {}", p.short())),
        };
        self.bind_tree(m, &s.handles)
    }

    fn bind_tree(&mut self, m: Mid, h: &HTree) -> Result<(), String> {
        self.model.nm(m).handle = Some(h.node);
        let nss = self.model.n(m).nss.clone();
        let attrs = self.model.n(m).attrs.clone();
        let kids = self.model.n(m).children.clone();
        if nss.len() != h.nss.len() {
            return Err(format!("new subtree: {} namespace nodes where the model has {}", h.nss.len(), nss.len()));
        }
        if attrs.len() != h.attrs.len() {
            return Err(format!("new subtree: {} attribute nodes where the model has {}", h.attrs.len(), attrs.len()));
        }
        if kids.len() != h.children.len() {
            return Err(format!("new subtree: {} children where the model has {}", h.children.len(), kids.len()));
        }
        for (i, n) in nss.into_iter().enumerate() {
            self.model.nm(n).handle = Some(h.nss[i]);
        }
        for (i, n) in attrs.into_iter().enumerate() {
            self.model.nm(n).handle = Some(h.attrs[i]);
        }
        for (i, k) in kids.into_iter().enumerate() {
            self.bind_tree(k, &h.children[i])?;
        }
        Ok(())
    }

    /// live model nodes without a handle (created by calls that do not return one) are bound by position
    fn bind_unbound(&mut self) -> Result<(), String> {
        for m in 0..self.model.nodes.len() {
            if !self.model.nodes[m].live || self.model.nodes[m].handle.is_some() {
                continue;
            }
            let p = match self.model.nodes[m].parent {
                Some(p) => p,
                None => return Err("model created a parentless node the call did not return".into()),
            };
            let ph = match self.model.nodes[p].handle {
                Some(h) => h,
                None => continue, // parent bound later in this loop? parents precede children in id order except moves
            };
            let x = &self.xot;
            let found: Option<Node> = match self.model.nodes[m].kind {
                MKind::Attr => {
                    let idx = self.model.nodes[p].attrs.iter().position(|a| *a == m).unwrap_or(usize::MAX);
                    guard(|| snap::bounded(x.attributes(ph).nodes(), 100_000).ok().and_then(|v| v.get(idx).copied())).unwrap_or(None)
                }
                MKind::Ns => {
                    let idx = self.model.nodes[p].nss.iter().position(|a| *a == m).unwrap_or(usize::MAX);
                    guard(|| snap::bounded(x.namespaces(ph).nodes(), 100_000).ok().and_then(|v| v.get(idx).copied())).unwrap_or(None)
                }
                _ => {
                    let idx = self.model.nodes[p].children.iter().position(|a| *a == m).unwrap_or(usize::MAX);
                    guard(|| snap::children_chain(x, ph, 100_000).ok().and_then(|v| v.get(idx).copied())).unwrap_or(None)
                }
            };
            match found {
                Some(h) => self.model.nodes[m].handle = Some(h),
                None => return Err(format!("node the call should have created ({}) is missing at its position", self.model.nodes[m].kind.short())),
            }
        }
        Ok(())
    }

    // ------------------------------------------------------------------ comparison model vs real

    /// first divergence between the shadow model and the real forest: (clause, description)
    pub fn compare(&self) -> Option<(&'static str, String)> {
        let x = &self.xot;
        let m = &self.model;
        let r = guard(|| -> Option<(&'static str, String)> {
            for (i, n) in m.nodes.iter().enumerate() {
                let h = match n.handle {
                    Some(h) => h,
                    None => continue,
                };
                if !n.live {
                    // a later model node may legitimately re-use the same handle value only if stamps saturate
                    if m.nodes.iter().enumerate().any(|(j, o)| j != i && o.live && o.handle == Some(h)) {
                        continue;
                    }
                    if !x.is_removed(h) {
                        return Some(("liveness", format!("node {} ({}) should be removed but is_removed is false", i, n.kind.short())));
                    }
                    continue;
                }
                if x.is_removed(h) {
                    return Some(("liveness", format!("node {} ({} {:?}) should be live but is_removed is true", i, n.kind.short(), n.text)));
                }
                let k = kind_of(x, h);
                if k != n.kind {
                    return Some(("value", format!("node {} kind {} but model says {}", i, k.short(), n.kind.short())));
                }
                // value
                match x.value(h) {
                    Value::Document => {}
                    Value::Element(e) => {
                        let q = snap::qname(x, e.name());
                        if q != n.name {
                            return Some(("value", format!("element {} name {} but model says {}", i, q.clark(), n.name.clark())));
                        }
                    }
                    Value::Text(t) => {
                        if t.get() != n.text {
                            return Some(("value", format!("text node {} content {:?} but model says {:?}", i, t.get(), n.text)));
                        }
                    }
                    Value::Comment(c) => {
                        if c.get() != n.text {
                            return Some(("value", format!("comment {} content {:?} but model says {:?}", i, c.get(), n.text)));
                        }
                    }
                    Value::ProcessingInstruction(pi) => {
                        let q = snap::qname(x, pi.target());
                        if q != n.name || pi.data() != n.data.as_deref() {
                            return Some(("value", format!("PI {} is ({},{:?}) but model says ({},{:?})", i, q.clark(), pi.data(), n.name.clark(), n.data)));
                        }
                    }
                    Value::Attribute(a) => {
                        let q = snap::qname(x, a.name());
                        if q != n.name || a.value() != n.text {
                            return Some(("value", format!("attribute node {} is {}={:?} but model says {}={:?}", i, q.clark(), a.value(), n.name.clark(), n.text)));
                        }
                    }
                    Value::Namespace(v) => {
                        let p = x.prefix_str(v.prefix());
                        let u = x.namespace_str(v.namespace());
                        if p != n.prefix || u != n.text {
                            return Some(("value", format!("namespace node {} is {}={:?} but model says {}={:?}", i, p, u, n.prefix, n.text)));
                        }
                    }
                }
                // parent
                let rp = x.parent(h);
                let mp = n.parent.and_then(|p| m.nodes[p].handle);
                if rp != mp {
                    return Some(("structure", format!("node {} ({}) has parent {:?} but model says {:?}", i, n.kind.short(), rp.map(|p| kind_of(x, p).short()), n.parent.map(|p| m.nodes[p].kind.short()))));
                }
                if matches!(n.kind, MKind::Elem | MKind::Doc) {
                    let kids = match snap::children_chain(x, h, 200_000) {
                        Ok(k) => k,
                        Err(e) => return Some(("structure", e)),
                    };
                    let want: Vec<Option<Node>> = n.children.iter().map(|c| m.nodes[*c].handle).collect();
                    let got: Vec<Option<Node>> = kids.iter().map(|c| Some(*c)).collect();
                    if want != got {
                        let show_real: Vec<String> = kids.iter().map(|c| describe(x, *c)).collect();
                        let show_model: Vec<String> = n.children.iter().map(|c| describe_m(m, *c)).collect();
                        return Some(("structure", format!("children of node {} ({}) are {:?} but model says {:?}", i, n.kind.short(), show_real, show_model)));
                    }
                }
                if n.kind == MKind::Elem {
                    let attrs = snap::bounded(x.attributes(h).nodes(), 100_000).unwrap_or_default();
                    let want: Vec<Option<Node>> = n.attrs.iter().map(|c| m.nodes[*c].handle).collect();
                    let got: Vec<Option<Node>> = attrs.iter().map(|c| Some(*c)).collect();
                    if want != got {
                        let show_real: Vec<String> = attrs.iter().map(|c| describe(x, *c)).collect();
                        let show_model: Vec<String> = n.attrs.iter().map(|c| describe_m(m, *c)).collect();
                        return Some(("structure", format!("attribute nodes of element {} are {:?} but model says {:?}", i, show_real, show_model)));
                    }
                    let nss = snap::bounded(x.namespaces(h).nodes(), 100_000).unwrap_or_default();
                    let want: Vec<Option<Node>> = n.nss.iter().map(|c| m.nodes[*c].handle).collect();
                    let got: Vec<Option<Node>> = nss.iter().map(|c| Some(*c)).collect();
                    if want != got {
                        let show_real: Vec<String> = nss.iter().map(|c| describe(x, *c)).collect();
                        let show_model: Vec<String> = n.nss.iter().map(|c| describe_m(m, *c)).collect();
                        return Some(("structure", format!("namespace nodes of element {} are {:?} but model says {:?}", i, show_real, show_model)));
                    }
                }
                if matches!(n.kind, MKind::Elem | MKind::Doc) {
                    let sv = x.string_value(h);
                    let mv = m.string_value(i);
                    if sv != mv {
                        return Some(("string-value", format!("string_value of node {} is {:?} but the model's concatenation is {:?}", i, sv, mv)));
                    }
                }
            }
            let (_total, live) = x.verif_arena_stats();
            let want = m.live_count() + self.leaks;
            if live != want {
                return Some(("conservation", format!("{} live nodes in the arena but the model has {} (+{} tolerated unreachable)", live, m.live_count(), self.leaks)));
            }
            None
        });
        match r {
            Ok(d) => d,
            Err(p) => Some(("panic-in-accessor", format!("accessor panicked while reading the forest: {}", p.short()))),
        }
    }

    /// all live roots of the model as abstract trees (for reports)
    pub fn show_model(&self) -> String {
        let mut s = String::new();
        for r in self.model.roots() {
            s.push_str(&self.model.to_anode(r).show());
            s.push_str(" ; ");
        }
        s
    }

    pub fn show_real(&self) -> String {
        let x = &self.xot;
        let r = guard(|| {
            let mut s = String::new();
            for n in x.verif_live_nodes() {
                if x.parent(n).is_none() {
                    match snap::snap_tree(x, n) {
                        Ok(t) => s.push_str(&t.show()),
                        Err(e) => s.push_str(&format!("<unreadable: {}>", e)),
                    }
                    s.push_str(" ; ");
                }
            }
            s
        });
        r.unwrap_or_else(|p| format!("<panic: {}>", p.short()))
    }
}

pub fn describe(x: &Xot, n: Node) -> String {
    match x.value(n) {
        Value::Document => "doc".into(),
        Value::Element(e) => format!("<{}>", snap::qname(x, e.name()).clark()),
        Value::Text(t) => format!("T{:?}", t.get()),
        Value::Comment(c) => format!("C{:?}", c.get()),
        Value::ProcessingInstruction(pi) => format!("PI({})", snap::qname(x, pi.target()).local),
        Value::Attribute(a) => format!("@{}={:?}", snap::qname(x, a.name()).clark(), a.value()),
        Value::Namespace(v) => format!("xmlns:{}={:?}", x.prefix_str(v.prefix()), x.namespace_str(v.namespace())),
    }
}

pub fn describe_m(m: &Model, i: Mid) -> String {
    let n = m.n(i);
    match n.kind {
        MKind::Doc => "doc".into(),
        MKind::Elem => format!("<{}>", n.name.clark()),
        MKind::Text => format!("T{:?}", n.text),
        MKind::Comment => format!("C{:?}", n.text),
        MKind::Pi => format!("PI({})", n.name.local),
        MKind::Attr => format!("@{}={:?}", n.name.clark(), n.text),
        MKind::Ns => format!("xmlns:{}={:?}", n.prefix, n.text),
    }
}

pub fn describe_op(x: &Xot, op: &Op) -> String {
    let d = |n: &Node| -> String { guard(|| describe(x, *n)).unwrap_or_else(|_| "?".into()) };
    use Op::*;
    match op {
        Append(a, b) | Prepend(a, b) | InsertAfter(a, b) | InsertBefore(a, b) | Replace(a, b)
        | AppendAttrNode(a, b) | AppendNsNode(a, b) | AnyAppend(a, b) => format!("{}({}, {})", op.name(), d(a), d(b)),
        Detach(a) | Remove(a) | Unwrap(a) | CloneNode(a) | CloneWithPrefixes(a) | NewDocWithElement(a)
        | RemoveWs(a) | CreateMissingPrefixes(a) | DedupNs(a) => format!("{}({})", op.name(), d(a)),
        Wrap(a, q) | AppendElement(a, q) | SetElementName(a, q) => format!("{}({}, {})", op.name(), d(a), q.clark()),
        AppendText(a, s) | AppendComment(a, s) | SetText(a, s) | SetComment(a, s) | SetAttrValue(a, s)
        | SetNsUri(a, s) | TextContentMut(a, s) => format!("{}({}, {:?})", op.name(), d(a), s),
        AppendPi(a, t, dd) => format!("{}({}, {}, {:?})", op.name(), d(a), t, dd),
        AppendNamespace(a, p, u) | SetNs(a, p, u, _) => format!("{}({}, {:?}, {:?})", op.name(), d(a), p, u),
        SetAttr(a, q, v, _) => format!("{}({}, {}, {:?})", op.name(), d(a), q.clark(), v),
        RemoveAttr(a, q, _) => format!("{}({}, {})", op.name(), d(a), q.clark()),
        ClearMap(a, _) => format!("{}({})", op.name(), d(a)),
        RemoveNs(a, p, _) => format!("{}({}, {:?})", op.name(), d(a), p),
        SetPiData(a, dd) => format!("{}({}, {:?})", op.name(), d(a), dd),
        NewLeaf(a) => format!("new_node({})", a.show()),
        NewAttrNode(q, v) => format!("new_attribute_node({}, {:?})", q.clark(), v),
        NewNsNode(p, u) => format!("new_namespace_node({:?}, {:?})", p, u),
        Parse(s) => format!("parse({:?})", s),
        SetConsolidation(b) => format!("set_text_consolidation({})", b),
    }
}

// ---------------------------------------------------------------------------------------------
// operation generator (works on the real forest through accessors)

pub struct OpGen {
    /// only calls satisfying the documented preconditions
    pub legal_only: bool,
    pub allow_consolidation_toggle: bool,
    pub allow_unmodelled: bool,
}

const NAME_POOL: &[(&str, &str)] = &[("", "a"), ("", "b"), ("", "w"), ("urn:A", "a"), ("urn:B", "x"), ("", "él")];
const ATTR_POOL: &[(&str, &str)] = &[("", "k"), ("", "l"), ("urn:A", "k"), (XML_NS, "space"), ("", "m")];
const PFX_POOL: &[&str] = &["", "p", "q", "n0"];
const URI_POOL: &[&str] = &["urn:A", "urn:B", ""];

pub fn pick_name(rng: &mut Rng) -> QName {
    let (ns, l) = *rng.pick(NAME_POOL);
    QName::new(ns, l)
}
pub fn pick_attr_name(rng: &mut Rng) -> QName {
    let (ns, l) = *rng.pick(ATTR_POOL);
    QName::new(ns, l)
}
fn pick_text(rng: &mut Rng) -> String {
    rng.pick(&["t", "u", " ", "", "xy", "\n ", "z"]).to_string()
}

impl OpGen {
    /// a node related to `a` in an interesting way (or any live node)
    fn related(&self, xot: &Xot, live: &[Node], a: Node, rng: &mut Rng) -> Node {
        let choice = rng.below(12);
        let pick = match choice {
            0 => Some(a),
            1 => xot.parent(a),
            2 => xot.first_child(a),
            3 => xot.last_child(a),
            4 => {
                let c = parent_chain(xot, a, 200);
                if c.is_empty() { None } else { Some(c[rng.below(c.len())]) }
            }
            5 => {
                let d = snap::bounded(xot.descendants(a), 300).unwrap_or_else(|v| v);
                if d.len() > 1 { Some(d[rng.range(1, d.len() - 1)]) } else { None }
            }
            6 => xot.next_sibling(a),
            7 => xot.previous_sibling(a),
            8 => snap::bounded(xot.attributes(a).nodes(), 50).ok().and_then(|v| if v.is_empty() { None } else { Some(v[rng.below(v.len())]) })
                .or_else(|| snap::bounded(xot.namespaces(a).nodes(), 50).ok().and_then(|v| if v.is_empty() { None } else { Some(v[rng.below(v.len())]) })),
            _ => None,
        };
        pick.unwrap_or_else(|| live[rng.below(live.len())])
    }

    pub fn gen(&self, f: &Forest, rng: &mut Rng) -> Option<Op> {
        let live = f.live_handles();
        if live.is_empty() {
            return Some(Op::NewLeaf(ANode::elem(QName::plain("a"))));
        }
        for _attempt in 0..60 {
            let op = self.gen_once(f, &live, rng);
            if let Some(op) = op {
                if !self.legal_only || f.precondition(&op) {
                    return Some(op);
                }
            }
        }
        None
    }

    fn gen_once(&self, f: &Forest, live: &[Node], rng: &mut Rng) -> Option<Op> {
        let xot = &f.xot;
        let a = live[rng.below(live.len())];
        // for legal calls bias the first argument toward the kinds the call needs
        let elems: Vec<Node> = if self.legal_only || rng.chance(1, 2) {
            live.iter().copied().filter(|n| matches!(kind_of(xot, *n), MKind::Elem | MKind::Doc)).collect()
        } else {
            Vec::new()
        };
        let container = if !elems.is_empty() && rng.chance(3, 4) { elems[rng.below(elems.len())] } else { a };
        let w = [
            10, 8, 10, 10, // append prepend insert_after insert_before
            5, 6, 8, 5, 6, // detach remove replace wrap unwrap
            3, 1, // clone, clone_with_prefixes
            4, 2, 1, 1, // append_text/element/comment/pi
            3, 3, 3, 1, // append_attr_node, append_ns_node, any_append, append_namespace
            4, 2, 3, 2, // set_attr remove_attr set_ns remove_ns
            1, 2, 1, 1, 1, 1, // setters
            2, 1, // text_content_mut, new_document_with_element
            3, 2, 2, // new leaf, new attr node, new ns node
            1, // parse
            1, 1, 1, // remove_ws, create_missing_prefixes, dedup
            1, // set consolidation
            2, // attributes_mut.clear / namespaces_mut.clear
        ];
        let k = rng.pick_weighted(&w);
        let b = self.related(xot, live, if k < 4 || k == 6 { container } else { a }, rng);
        let op = match k {
            0 => Op::Append(container, b),
            1 => Op::Prepend(container, b),
            2 => {
                // reference: some node, new sibling related to it
                let r = if rng.chance(1, 2) { b } else { a };
                let n = self.related(xot, live, r, rng);
                Op::InsertAfter(r, n)
            }
            3 => {
                let r = if rng.chance(1, 2) { b } else { a };
                let n = self.related(xot, live, r, rng);
                Op::InsertBefore(r, n)
            }
            4 => Op::Detach(a),
            5 => Op::Remove(a),
            6 => {
                let n = self.related(xot, live, a, rng);
                Op::Replace(a, n)
            }
            7 => Op::Wrap(a, pick_name(rng)),
            8 => Op::Unwrap(if rng.chance(2, 3) && !elems.is_empty() { elems[rng.below(elems.len())] } else { a }),
            9 => Op::CloneNode(a),
            10 => Op::CloneWithPrefixes(a),
            11 => Op::AppendText(container, pick_text(rng)),
            12 => Op::AppendElement(container, pick_name(rng)),
            13 => Op::AppendComment(container, rng.pick(&["c", "c", "cc", "a--b", "--"]).to_string()),
            14 => Op::AppendPi(container, "pi".to_string(), if rng.bool() { Some("d".into()) } else { None }),
            15 | 16 | 17 => {
                // attribute / namespace node arguments
                let want_attr = k == 15 || (k == 17 && rng.bool());
                let pool: Vec<Node> = live
                    .iter()
                    .copied()
                    .filter(|n| kind_of(xot, *n) == if want_attr { MKind::Attr } else { MKind::Ns })
                    .collect();
                let node = if !pool.is_empty() && rng.chance(4, 5) { pool[rng.below(pool.len())] } else { b };
                match k {
                    15 => Op::AppendAttrNode(container, node),
                    16 => Op::AppendNsNode(container, node),
                    _ => Op::AnyAppend(container, if rng.chance(1, 3) { b } else { node }),
                }
            }
            18 => Op::AppendNamespace(container, rng.pick(PFX_POOL).to_string(), rng.pick(&["urn:A", "urn:B"]).to_string()),
            19 => Op::SetAttr(container, pick_attr_name(rng), pick_text(rng), rng.below(3) as u8),
            20 => Op::RemoveAttr(container, pick_attr_name(rng), rng.below(2) as u8),
            21 => {
                let p = rng.pick(PFX_POOL).to_string();
                let u = if p.is_empty() { rng.pick(URI_POOL).to_string() } else { rng.pick(&["urn:A", "urn:B"]).to_string() };
                Op::SetNs(container, p, u, rng.below(3) as u8)
            }
            22 => Op::RemoveNs(container, rng.pick(PFX_POOL).to_string(), rng.below(2) as u8),
            23 => Op::SetElementName(container, pick_name(rng)),
            24 => Op::SetText(a, pick_text(rng)),
            25 => Op::SetComment(a, rng.pick(&["c2", "", "a--b", "x-"]).to_string()),
            26 => Op::SetPiData(a, match rng.below(3) { 0 => None, 1 => Some(String::new()), _ => Some("dd".into()) }),
            27 => Op::SetAttrValue(a, pick_text(rng)),
            28 => Op::SetNsUri(a, rng.pick(&["urn:A", "urn:B"]).to_string()),
            29 => Op::TextContentMut(if rng.bool() { container } else { a }, pick_text(rng)),
            30 => Op::NewDocWithElement(if rng.chance(2, 3) && !elems.is_empty() { elems[rng.below(elems.len())] } else { a }),
            31 => Op::NewLeaf(match rng.below(4) {
                0 => ANode::elem(pick_name(rng)),
                1 => ANode::text(&pick_text(rng)),
                2 => ANode::comment("n"),
                _ => ANode::doc(vec![]),
            }),
            32 => Op::NewAttrNode(pick_attr_name(rng), pick_text(rng)),
            33 => Op::NewNsNode(rng.pick(PFX_POOL).to_string(), rng.pick(&["urn:A", "urn:B"]).to_string()),
            34 => match rng.below(3) {
                0 => Op::Parse(rng.pick(&[
                    "<r><s>t</s> <s/></r>",
                    "<r xml:id=\"i1\" a=\"1\"><s xml:id=\"i2\"/>x</r>",
                    "<p:r xmlns:p=\"urn:A\" p:k=\"v\"><c/>t<!--c--></p:r>",
                ]).to_string()),
                1 => {
                    // a hostile but well-formed spelling of a small generated document (CDATA next to text, CR / CRLF,
                    // references, declarations after attributes, ...): what parsing builds must be a sound tree too
                    let mut text = None;
                    for _ in 0..6 {
                        let mut cfg = crate::gen::GenCfg::default();
                        cfg.max_nodes = 7;
                        cfg.max_depth = 3;
                        cfg.top_misc = rng.bool();
                        cfg.str_len = 4;
                        cfg.xml_id = false;
                        cfg.long_strings = false;
                        let d = crate::gen::gen_document(rng, &cfg);
                        if crate::render::renderable(&d) && crate::gen::is_wf_document(&d) {
                            let opts = crate::render::RenderOpts { fragment: false, allow_decl: true, allow_bom: false, ..Default::default() };
                            text = Some(crate::render::render(&d, &mut crate::render::RandomChoices(rng), &opts).text);
                            break;
                        }
                    }
                    Op::Parse(text.unwrap_or_else(|| "<r>a<![CDATA[b\r\nc]]>d</r>".to_string()))
                }
                _ => Op::Parse(rng.pick(&[
                    // ill-formed: to be refused; were one accepted, the tree it builds would break an invariant
                    "<r xmlns:p=\"urn:u\" xmlns:q=\"urn:u\"><a p:x=\"1\" q:x=\"2\"/></r>",
                    "<r xmlns:p=\"urn:u\"><a xmlns:q=\"urn:u\" p:x=\"1\" q:x=\"2\"/></r>",
                    "<a xmlns:p=\"urn:1\" xmlns:p=\"urn:2\"/>",
                    "<a xmlns=\"urn:1\" xmlns=\"urn:2\"/>",
                    "<a k=\"1\" k=\"2\"/>",
                    "<a><b></a>",
                    "<a/><b/>",
                    "t<a/>",
                    "<a>&#0;</a>",
                    "<a><b>",
                ]).to_string()),
            },
            35 => {
                if !self.allow_unmodelled { return None; }
                Op::RemoveWs(a)
            }
            36 => {
                if !self.allow_unmodelled { return None; }
                Op::CreateMissingPrefixes(a)
            }
            37 => {
                if !self.allow_unmodelled { return None; }
                Op::DedupNs(a)
            }
            38 => {
                if !self.allow_consolidation_toggle { return None; }
                Op::SetConsolidation(rng.bool())
            }
            _ => Op::ClearMap(container, rng.bool()),
        };
        Some(op)
    }
}
