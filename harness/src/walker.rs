//! Structural invariant walker (C04): run at the quiescent point after every call over every live
//! arena slot (hook) — link consistency, acyclicity, category order, uniqueness, placement, text
//! adjacency — plus the shadow handle table (liveness monotone, kind constant).

use crate::driver::{describe, kind_of};
use crate::engine::guard;
use crate::model::MKind;
use crate::snap;
use std::collections::{HashMap, HashSet};
use xot::{Node, Value, Xot};

#[derive(Clone, Debug)]
pub struct Broken {
    /// invariant id, e.g. "I3-category-order"
    pub invariant: &'static str,
    pub what: String,
}

fn broken(invariant: &'static str, what: String) -> Option<Broken> {
    Some(Broken { invariant, what })
}

#[derive(Default)]
pub struct HandleTable {
    /// handle -> (kind when first seen, seen removed)
    pub seen: HashMap<Node, (MKind, bool)>,
    pub order: Vec<Node>,
}

impl HandleTable {
    pub fn new() -> HandleTable {
        HandleTable::default()
    }
    pub fn len(&self) -> usize {
        self.order.len()
    }
    /// record currently live handles (from the hook) and re-check every handle ever seen
    pub fn observe(&mut self, xot: &Xot, live: &[Node]) -> Option<Broken> {
        for n in live {
            if !self.seen.contains_key(n) {
                self.seen.insert(*n, (kind_of(xot, *n), false));
                self.order.push(*n);
            }
        }
        let live_set: HashSet<Node> = live.iter().copied().collect();
        for n in &self.order {
            let (kind, was_removed) = self.seen[n];
            let removed_now = xot.is_removed(*n);
            if was_removed && !removed_now {
                return broken(
                    "I7-removed-stays-removed",
                    format!("is_removed went from true back to false for a handle of a former {} node", kind.short()),
                );
            }
            if removed_now {
                if live_set.contains(n) {
                    return broken("I7-liveness-consistent", "is_removed is true for a handle the arena lists as live".to_string());
                }
                self.seen.insert(*n, (kind, true));
            } else {
                if !live_set.contains(n) {
                    return broken(
                        "I7-removed-stays-removed",
                        format!("is_removed is false for a handle (former {}) whose slot holds no live node with that stamp", kind.short()),
                    );
                }
                let k = kind_of(xot, *n);
                if k != kind {
                    return broken(
                        "I7-handle-keeps-kind",
                        format!("a live handle changed its node kind from {} to {}", kind.short(), k.short()),
                    );
                }
            }
        }
        None
    }
}

fn category(k: MKind) -> u8 {
    match k {
        MKind::Ns => 0,
        MKind::Attr => 1,
        _ => 2,
    }
}

/// Check every structural invariant over all live nodes. `check_text_adjacency`: consolidation
/// has never been switched off in this history.
pub fn walk(xot: &Xot, live: &[Node], check_text_adjacency: bool) -> Option<Broken> {
    match guard(|| walk_inner(xot, live, check_text_adjacency)) {
        Ok(b) => b,
        Err(p) => broken("I0-accessor-panicked", format!("an accessor panicked during the walk: {}", p.short())),
    }
}

fn walk_inner(xot: &Xot, live: &[Node], check_text_adjacency: bool) -> Option<Broken> {
    let n_live = live.len();
    let bound = 2 * n_live + 8;
    let live_set: HashSet<Node> = live.iter().copied().collect();

    // I2 acyclicity: bounded parent walk from every node; collect roots
    let mut roots: Vec<Node> = Vec::new();
    for n in live {
        if xot.is_removed(*n) {
            return broken("I8-live-node-reported-removed", format!("is_removed is true for live node {}", describe(xot, *n)));
        }
        let mut cur = *n;
        let mut steps = 0;
        loop {
            match xot.parent(cur) {
                None => break,
                Some(p) => {
                    if !live_set.contains(&p) {
                        return broken("I8-accessor-yields-removed-node", format!("parent() of {} is not a live node", describe(xot, cur)));
                    }
                    cur = p;
                    steps += 1;
                    if steps > bound {
                        return broken("I2-acyclic", format!("the ancestor chain of {} does not end (cycle)", describe(xot, *n)));
                    }
                }
            }
        }
        if xot.parent(*n).is_none() {
            roots.push(*n);
        }
        if let Some(what) = value_accessors_disagree(xot, *n) {
            return broken("I9-value-accessors-agree", what);
        }
    }

    // raw child lists per parent from all_descendants of every root
    let mut raw: HashMap<Node, Vec<Node>> = HashMap::new();
    let mut reached: HashSet<Node> = HashSet::new();
    for r in &roots {
        let all = match snap::bounded(xot.all_descendants(*r), bound) {
            Ok(v) => v,
            Err(_) => return broken("I2-acyclic", format!("all_descendants of root {} yields more nodes than are live", describe(xot, *r))),
        };
        for (i, d) in all.iter().enumerate() {
            if !live_set.contains(d) {
                return broken("I8-accessor-yields-removed-node", "all_descendants yielded a node that is not live".to_string());
            }
            if !reached.insert(*d) {
                return broken("I1-links-consistent", format!("{} is reached twice by the descendant walks", describe(xot, *d)));
            }
            if i == 0 {
                if d != r {
                    return broken("I1-links-consistent", "all_descendants does not start with the node itself".to_string());
                }
                continue;
            }
            match xot.parent(*d) {
                Some(p) => raw.entry(p).or_default().push(*d),
                None => return broken("I1-links-consistent", format!("{} is a descendant of a root but has no parent", describe(xot, *d))),
            }
        }
    }
    if reached.len() != n_live {
        return broken(
            "I2-acyclic",
            format!("{} live nodes are not reachable from any parentless node (detached cycle)", n_live - reached.len()),
        );
    }

    for n in live {
        let k = kind_of(xot, *n);
        let p = xot.parent(*n);
        // I5 placement
        match k {
            MKind::Doc => {
                if p.is_some() {
                    return broken("I5-placement", "a document node has a parent".to_string());
                }
            }
            MKind::Attr | MKind::Ns => {
                if let Some(p) = p {
                    if kind_of(xot, p) != MKind::Elem {
                        return broken("I5-placement", format!("{} sits under a {} node", describe(xot, *n), kind_of(xot, p).short()));
                    }
                }
            }
            _ => {
                if let Some(p) = p {
                    if !matches!(kind_of(xot, p), MKind::Elem | MKind::Doc) {
                        return broken("I5-placement", format!("{} sits under a {} node", describe(xot, *n), kind_of(xot, p).short()));
                    }
                }
            }
        }
        // parentless nodes have no siblings
        if p.is_none() {
            if xot.next_sibling(*n).is_some() || xot.previous_sibling(*n).is_some() {
                return broken("I1-parentless-without-siblings", format!("parentless node {} has a sibling", describe(xot, *n)));
            }
            let fs = snap::bounded(xot.following_siblings(*n), bound).unwrap_or_else(|v| v);
            let ps = snap::bounded(xot.preceding_siblings(*n), bound).unwrap_or_else(|v| v);
            if fs.len() > 1 || ps.len() > 1 {
                return broken("I1-parentless-without-siblings", format!("parentless node {} has siblings (following/preceding_siblings)", describe(xot, *n)));
            }
        }
        let kids = raw.get(n).cloned().unwrap_or_default();
        if !matches!(k, MKind::Elem | MKind::Doc) {
            if !kids.is_empty() {
                return broken("I5-placement", format!("{} has children", describe(xot, *n)));
            }
            if xot.first_child(*n).is_some() || xot.last_child(*n).is_some() {
                return broken("I5-placement", format!("{} reports a first/last child", describe(xot, *n)));
            }
            continue;
        }
        // I3 category order in the raw list
        let cats: Vec<u8> = kids.iter().map(|c| category(kind_of(xot, *c))).collect();
        if cats.windows(2).any(|w| w[0] > w[1]) {
            let show: Vec<String> = kids.iter().map(|c| describe(xot, *c)).collect();
            return broken("I3-category-order", format!("children of {} are not namespaces, attributes, ordinary: {:?}", describe(xot, *n), show));
        }
        if k == MKind::Doc && cats.iter().any(|c| *c != 2) {
            return broken("I5-placement", "attribute or namespace node under a document".to_string());
        }
        let nss: Vec<Node> = kids.iter().copied().filter(|c| kind_of(xot, *c) == MKind::Ns).collect();
        let attrs: Vec<Node> = kids.iter().copied().filter(|c| kind_of(xot, *c) == MKind::Attr).collect();
        let ord: Vec<Node> = kids.iter().copied().filter(|c| kind_of(xot, *c).ordinary()).collect();
        // views agree with the raw list
        let v_children = match snap::bounded(xot.children(*n), bound) {
            Ok(v) => v,
            Err(_) => return broken("I1-links-consistent", "children() does not end".to_string()),
        };
        if v_children != ord {
            let a: Vec<String> = v_children.iter().map(|c| describe(xot, *c)).collect();
            let b: Vec<String> = ord.iter().map(|c| describe(xot, *c)).collect();
            return broken("I1-links-consistent", format!("children() of {} = {:?} but the ordinary nodes among its children are {:?}", describe(xot, *n), a, b));
        }
        let chain = match snap::children_chain(xot, *n, bound) {
            Ok(v) => v,
            Err(e) => return broken("I1-links-consistent", e),
        };
        if chain != ord {
            return broken("I1-links-consistent", format!("first_child/next_sibling chain of {} differs from its ordinary children", describe(xot, *n)));
        }
        if k == MKind::Elem {
            let v_ns = snap::bounded(xot.namespaces(*n).nodes(), bound).unwrap_or_else(|v| v);
            if v_ns != nss {
                return broken("I1-links-consistent", format!("namespaces().nodes() of {} differs from the namespace nodes among its children", describe(xot, *n)));
            }
            let v_at = snap::bounded(xot.attributes(*n).nodes(), bound).unwrap_or_else(|v| v);
            if v_at != attrs {
                return broken("I1-links-consistent", format!("attributes().nodes() of {} differs from the attribute nodes among its children", describe(xot, *n)));
            }
            let v_at2 = snap::bounded(xot.attribute_nodes(*n), bound).unwrap_or_else(|v| v);
            if v_at2 != attrs {
                return broken("I1-links-consistent", format!("attribute_nodes() of {} differs from the attribute nodes among its children", describe(xot, *n)));
            }
            // I4 uniqueness
            let mut names = HashSet::new();
            for a in &attrs {
                if let Value::Attribute(v) = xot.value(*a) {
                    if !names.insert(v.name()) {
                        return broken("I4-unique-attribute-names", format!("{} has two attribute nodes named {}", describe(xot, *n), snap::qname(xot, v.name()).clark()));
                    }
                }
            }
            let mut prefixes = HashSet::new();
            for a in &nss {
                if let Value::Namespace(v) = xot.value(*a) {
                    if !prefixes.insert(v.prefix()) {
                        return broken("I4-unique-prefixes", format!("{} declares prefix {:?} twice", describe(xot, *n), xot.prefix_str(v.prefix())));
                    }
                }
            }
        }
        // the child list read backwards is the same list
        {
            let mut back = snap::bounded(xot.reverse_children(*n), bound).unwrap_or_else(|v| v);
            back.reverse();
            if back != ord {
                let a: Vec<String> = back.iter().map(|c| describe(xot, *c)).collect();
                return broken("I1-links-consistent", format!("reverse_children() of {}, reversed, = {:?}: not its ordinary children", describe(xot, *n), a));
            }
        }
        // first / last child
        if xot.first_child(*n) != ord.first().copied() {
            return broken("I1-links-consistent", format!("first_child of {} is not the first ordinary child", describe(xot, *n)));
        }
        if xot.last_child(*n) != ord.last().copied() {
            return broken("I1-links-consistent", format!("last_child of {} is not the last ordinary child", describe(xot, *n)));
        }
        // sibling links per category
        for group in [&nss, &attrs, &ord] {
            for (i, c) in group.iter().enumerate() {
                if xot.parent(*c) != Some(*n) {
                    return broken("I1-links-consistent", format!("child {} does not name {} as its parent", describe(xot, *c), describe(xot, *n)));
                }
                let want_prev = if i == 0 { None } else { Some(group[i - 1]) };
                let want_next = group.get(i + 1).copied();
                if xot.previous_sibling(*c) != want_prev {
                    return broken("I1-links-consistent", format!("previous_sibling of {} is inconsistent with the child list of {}", describe(xot, *c), describe(xot, *n)));
                }
                if xot.next_sibling(*c) != want_next {
                    return broken("I1-links-consistent", format!("next_sibling of {} is inconsistent with the child list of {}", describe(xot, *c), describe(xot, *n)));
                }
            }
        }
        // I6 text adjacency
        if check_text_adjacency {
            for w in ord.windows(2) {
                if kind_of(xot, w[0]) == MKind::Text && kind_of(xot, w[1]) == MKind::Text {
                    return broken(
                        "I6-no-adjacent-text",
                        format!("two adjacent text nodes {} {} under {} although consolidation was never switched off", describe(xot, w[0]), describe(xot, w[1]), describe(xot, *n)),
                    );
                }
            }
        }
    }
    None
}

/// "A node handle denotes the same node with the same value": every read accessor of a node's value - the kind
/// predicates, the typed views, the string shorthands, the convenience accessors built on first_child - says the same as
/// `value()` and the child list. Returns what disagrees.
pub fn value_accessors_disagree(xot: &Xot, n: Node) -> Option<String> {
    use xot::ValueType as VT;
    let v = xot.value(n);
    let vt = xot.value_type(n);
    let flags = [
        (xot.is_document(n), VT::Document, "is_document"),
        (xot.is_element(n), VT::Element, "is_element"),
        (xot.is_text(n), VT::Text, "is_text"),
        (xot.is_comment(n), VT::Comment, "is_comment"),
        (xot.is_processing_instruction(n), VT::ProcessingInstruction, "is_processing_instruction"),
        (xot.is_attribute_node(n), VT::Attribute, "is_attribute_node"),
        (xot.is_namespace_node(n), VT::Namespace, "is_namespace_node"),
    ];
    if v.value_type() != vt {
        return Some(format!("value_type() = {:?} but value().value_type() = {:?}", vt, v.value_type()));
    }
    for (got, t, name) in flags {
        if got != (vt == t) {
            return Some(format!("{}() = {} on a node whose value_type is {:?}", name, got, vt));
        }
    }
    let d = describe(xot, n);
    match v {
        Value::Text(t) => {
            if xot.text_str(n) != Some(t.get()) || xot.text(n).map(|x| x.get()) != Some(t.get()) {
                return Some(format!("text_str / text of {} differ from value()", d));
            }
        }
        Value::Comment(c) => {
            if xot.comment_str(n) != Some(c.get()) || xot.comment(n).map(|x| x.get()) != Some(c.get()) {
                return Some(format!("comment_str / comment of {} differ from value()", d));
            }
        }
        Value::Element(e) => {
            if xot.get_element_name(n) != e.name() || xot.element(n).map(|x| x.name()) != Some(e.name()) || xot.node_name(n) != Some(e.name()) {
                return Some(format!("get_element_name / element / node_name of {} differ from value()", d));
            }
            let decls = xot.namespace_declarations(n);
            let via_view: Vec<(xot::PrefixId, xot::NamespaceId)> = xot.namespaces(n).iter().map(|(p, u)| (p, *u)).collect();
            if decls != via_view {
                return Some(format!("namespace_declarations of {} differs from namespaces().iter()", d));
            }
            let pf = xot.prefixes(n);
            if pf.len() != via_view.len() || via_view.iter().any(|(p, u)| pf.get(p) != Some(u)) {
                return Some(format!("prefixes of {} differs from namespaces().iter()", d));
            }
        }
        Value::ProcessingInstruction(pi) => {
            match xot.processing_instruction(n) {
                Some(x) if x.target() == pi.target() && x.data() == pi.data() => {}
                _ => return Some(format!("processing_instruction of {} differs from value()", d)),
            }
            if xot.node_name(n) != Some(pi.target()) {
                return Some(format!("node_name of {} is not its target", d));
            }
        }
        Value::Attribute(a) => {
            match xot.attribute_node(n) {
                Some(x) if x.name() == a.name() && x.value() == a.value() => {}
                _ => return Some(format!("attribute_node of {} differs from value()", d)),
            }
        }
        Value::Namespace(ns) => {
            match xot.namespace_node(n) {
                Some(x) if x.prefix() == ns.prefix() && x.namespace() == ns.namespace() => {}
                _ => return Some(format!("namespace_node of {} differs from value()", d)),
            }
        }
        Value::Document => {}
    }
    // names: elements, attributes and processing instructions have one, nothing else has
    let named = matches!(vt, VT::Element | VT::Attribute | VT::ProcessingInstruction);
    if xot.node_name(n).is_some() != named {
        return Some(format!("node_name({}) is {}", d, if named { "None" } else { "Some" }));
    }
    if !named {
        match xot.node_name_ref(n) {
            Ok(None) => {}
            _ => return Some(format!("node_name_ref({}) is not Ok(None)", d)),
        }
    }
    // the typed views are None for every other kind
    let typed = [
        (xot.text(n).is_some(), VT::Text, "text"),
        (xot.text_str(n).is_some(), VT::Text, "text_str"),
        (xot.comment(n).is_some(), VT::Comment, "comment"),
        (xot.comment_str(n).is_some(), VT::Comment, "comment_str"),
        (xot.element(n).is_some(), VT::Element, "element"),
        (xot.processing_instruction(n).is_some(), VT::ProcessingInstruction, "processing_instruction"),
        (xot.attribute_node(n).is_some(), VT::Attribute, "attribute_node"),
        (xot.namespace_node(n).is_some(), VT::Namespace, "namespace_node"),
    ];
    for (some, t, name) in typed {
        if some != (vt == t) {
            return Some(format!("{}() is {} on {}", name, if some { "Some" } else { "None" }, d));
        }
    }
    // documents: document_element is the first element child, and validate_well_formed_document accepts exactly one
    // element among comments and processing instructions; on any other node both refuse
    {
        let is_doc = vt == VT::Document;
        let kids: Vec<Node> = snap::bounded(xot.children(n), 100_000).unwrap_or_else(|v| v);
        let elems: Vec<Node> = kids.iter().copied().filter(|c| xot.value_type(*c) == VT::Element).collect();
        let only_misc = kids.iter().all(|c| matches!(xot.value_type(*c), VT::Element | VT::Comment | VT::ProcessingInstruction));
        let want_valid = is_doc && elems.len() == 1 && only_misc;
        if xot.validate_well_formed_document(n).is_ok() != want_valid {
            return Some(format!("validate_well_formed_document({}) is {}, the node has {} element children{}", d, if want_valid { "Err" } else { "Ok" }, elems.len(), if only_misc { "" } else { " and text at top level" }));
        }
        let want_de = if is_doc { elems.first().copied() } else { None };
        if xot.document_element(n).ok() != want_de {
            return Some(format!("document_element({}) is not the first element child / an error", d));
        }
    }
    // position shorthands
    let parent_is_doc = xot.parent(n).map_or(false, |p| xot.value_type(p) == VT::Document);
    if xot.has_document_parent(n) != parent_is_doc {
        return Some(format!("has_document_parent({}) = {}", d, xot.has_document_parent(n)));
    }
    if xot.is_document_element(n) != (parent_is_doc && vt == VT::Element) {
        return Some(format!("is_document_element({}) = {}", d, xot.is_document_element(n)));
    }
    // text_content / text_content_str: defined through the ordinary children - of an element (the documentation speaks of
    // elements only; what they answer for other kinds of node is not judged)
    if vt != VT::Element {
        return None;
    }
    let first = xot.first_child(n);
    let only_text: Option<&str> = match first {
        Some(c) if xot.next_sibling(c).is_none() => xot.text_str(c),
        _ => None,
    };
    if xot.text_content(n).map(|t| t.get()) != only_text {
        return Some(format!("text_content({}) = {:?}, the only child as text is {:?}", d, xot.text_content(n).map(|t| t.get()), only_text));
    }
    let want_str = if first.is_none() { Some("") } else { only_text };
    if xot.text_content_str(n) != want_str {
        return Some(format!("text_content_str({}) = {:?}, expected {:?}", d, xot.text_content_str(n), want_str));
    }
    None
}
