//! Small independent HTML tokenizer for reading xot's HTML5 output: start / end tags with raw
//! attribute values, raw-text elements (script, style), comments, `<?...>`, CDATA sections, text.

#[derive(Clone, Debug, PartialEq)]
pub enum HTok {
    Start { name: String, attrs: Vec<(String, Option<String>)>, self_closing: bool },
    End { name: String },
    Text(String),
    /// text inside script / style (verbatim)
    RawText(String),
    Cdata(String),
    Comment(String),
    Pi(String),
    Doctype(String),
}

pub fn tokenize(s: &str) -> Result<Vec<HTok>, String> {
    let c: Vec<char> = s.chars().collect();
    let mut i = 0;
    let mut out: Vec<HTok> = Vec::new();
    let starts = |i: usize, pat: &str| -> bool {
        let p: Vec<char> = pat.chars().collect();
        i + p.len() <= c.len() && c[i..i + p.len()] == p[..]
    };
    let starts_ci = |i: usize, pat: &str| -> bool {
        let p: Vec<char> = pat.chars().collect();
        i + p.len() <= c.len() && c[i..i + p.len()].iter().zip(p.iter()).all(|(a, b)| a.eq_ignore_ascii_case(b))
    };
    let find = |from: usize, pat: &str| -> Option<usize> {
        let p: Vec<char> = pat.chars().collect();
        if p.is_empty() {
            return Some(from);
        }
        let mut j = from;
        while j + p.len() <= c.len() {
            if c[j..j + p.len()] == p[..] {
                return Some(j);
            }
            j += 1;
        }
        None
    };
    while i < c.len() {
        if c[i] == '<' {
            if starts(i, "<!--") {
                let e = find(i + 4, "-->").ok_or("unterminated comment")?;
                out.push(HTok::Comment(c[i + 4..e].iter().collect()));
                i = e + 3;
            } else if starts(i, "<![CDATA[") {
                let e = find(i + 9, "]]>").ok_or("unterminated CDATA")?;
                out.push(HTok::Cdata(c[i + 9..e].iter().collect()));
                i = e + 3;
            } else if starts_ci(i, "<!doctype") {
                let e = find(i, ">").ok_or("unterminated doctype")?;
                out.push(HTok::Doctype(c[i + 2..e].iter().collect()));
                i = e + 1;
            } else if starts(i, "<?") {
                let e = find(i + 2, ">").ok_or("unterminated processing instruction")?;
                out.push(HTok::Pi(c[i + 2..e].iter().collect()));
                i = e + 1;
            } else if starts(i, "</") {
                let e = find(i + 2, ">").ok_or("unterminated end tag")?;
                let name: String = c[i + 2..e].iter().collect();
                let name = name.trim().to_string();
                if name.is_empty() || name.contains(|ch: char| ch.is_whitespace() || ch == '<') {
                    return Err(format!("malformed end tag {:?}", name));
                }
                out.push(HTok::End { name });
                i = e + 1;
            } else {
                // start tag
                let mut j = i + 1;
                let ns = j;
                while j < c.len() && !c[j].is_whitespace() && c[j] != '>' && c[j] != '/' {
                    j += 1;
                }
                let name: String = c[ns..j].iter().collect();
                if name.is_empty() || !(name.chars().next().unwrap().is_alphabetic() || name.starts_with('_')) {
                    return Err(format!("'<' that does not start a tag at offset {} (name {:?})", i, name));
                }
                let mut attrs: Vec<(String, Option<String>)> = Vec::new();
                let mut self_closing = false;
                loop {
                    while j < c.len() && c[j].is_whitespace() {
                        j += 1;
                    }
                    if j >= c.len() {
                        return Err("unterminated start tag".into());
                    }
                    if c[j] == '>' {
                        j += 1;
                        break;
                    }
                    if c[j] == '/' && j + 1 < c.len() && c[j + 1] == '>' {
                        self_closing = true;
                        j += 2;
                        break;
                    }
                    // attribute name
                    let an = j;
                    while j < c.len() && !c[j].is_whitespace() && c[j] != '=' && c[j] != '>' && !(c[j] == '/' && j + 1 < c.len() && c[j + 1] == '>') {
                        j += 1;
                    }
                    let aname: String = c[an..j].iter().collect();
                    if aname.is_empty() {
                        return Err(format!("malformed attribute in <{}> at offset {}", name, j));
                    }
                    if aname.contains('"') || aname.contains('\'') || aname.contains('<') {
                        return Err(format!("attribute name {:?} in <{}> contains a quote or '<' (a value ended early?)", aname, name));
                    }
                    while j < c.len() && c[j].is_whitespace() {
                        j += 1;
                    }
                    if j < c.len() && c[j] == '=' {
                        j += 1;
                        while j < c.len() && c[j].is_whitespace() {
                            j += 1;
                        }
                        if j >= c.len() {
                            return Err("unterminated attribute".into());
                        }
                        if c[j] == '"' || c[j] == '\'' {
                            let q = c[j];
                            let vs = j + 1;
                            let mut k = vs;
                            while k < c.len() && c[k] != q {
                                k += 1;
                            }
                            if k >= c.len() {
                                return Err("unterminated attribute value".into());
                            }
                            attrs.push((aname, Some(c[vs..k].iter().collect())));
                            j = k + 1;
                            // after a quoted value: white space, '>' or '/>'
                            if j < c.len() && !c[j].is_whitespace() && c[j] != '>' && c[j] != '/' {
                                return Err(format!("garbage after the value of attribute {:?} in <{}> (a raw quote inside the value?)", attrs.last().unwrap().0, name));
                            }
                        } else {
                            let vs = j;
                            while j < c.len() && !c[j].is_whitespace() && c[j] != '>' {
                                j += 1;
                            }
                            attrs.push((aname, Some(c[vs..j].iter().collect())));
                        }
                    } else {
                        attrs.push((aname, None));
                    }
                }
                let lname = name.to_ascii_lowercase();
                out.push(HTok::Start { name: name.clone(), attrs, self_closing });
                i = j;
                if !self_closing && (lname == "script" || lname == "style") {
                    // raw text until the matching end tag
                    let close = format!("</{}", lname);
                    let mut k = i;
                    let mut found = None;
                    while k < c.len() {
                        if c[k] == '<' && starts_ci(k, &close) {
                            found = Some(k);
                            break;
                        }
                        k += 1;
                    }
                    let e = found.ok_or("unterminated raw text element")?;
                    if e > i {
                        out.push(HTok::RawText(c[i..e].iter().collect()));
                    }
                    i = e;
                }
            }
        } else {
            let st = i;
            while i < c.len() && c[i] != '<' {
                i += 1;
            }
            out.push(HTok::Text(c[st..i].iter().collect()));
        }
    }
    Ok(out)
}

/// decode character references of HTML / XML text; Err when a '&' does not start a reference
pub fn decode_refs(s: &str) -> Result<String, String> {
    let mut out = String::new();
    let mut rest = s;
    while let Some(p) = rest.find('&') {
        out.push_str(&rest[..p]);
        let tail = &rest[p..];
        let semi = match tail.find(';') {
            Some(x) if x <= 12 => x,
            _ => return Err(format!("raw '&' at {:?}", &tail[..tail.len().min(12)])),
        };
        let name = &tail[1..semi];
        let ch = match name {
            "amp" => '&',
            "lt" => '<',
            "gt" => '>',
            "quot" => '"',
            "apos" => '\'',
            "nbsp" => '\u{a0}',
            _ => {
                let v = if let Some(h) = name.strip_prefix("#x").or_else(|| name.strip_prefix("#X")) {
                    u32::from_str_radix(h, 16).map_err(|_| format!("raw '&' at {:?}", &tail[..tail.len().min(12)]))?
                } else if let Some(d) = name.strip_prefix('#') {
                    d.parse::<u32>().map_err(|_| format!("raw '&' at {:?}", &tail[..tail.len().min(12)]))?
                } else {
                    return Err(format!("raw '&' at {:?}", &tail[..tail.len().min(12)]));
                };
                char::from_u32(v).ok_or("bad code point")?
            }
        };
        out.push(ch);
        rest = &tail[semi + 1..];
    }
    out.push_str(rest);
    Ok(out)
}
