//! Read-back of a live Xot tree through the public API into an owned `ANode` (+ parallel handles).
//! Uses only: value, first_child / next_sibling, namespaces(n).nodes(), attributes(n).nodes(),
//! name_ns_str, prefix_str, namespace_str. Every walk is bounded.

use crate::adoc::{AKind, ANode, QName};
use xot::{Node, Value, Xot};

#[derive(Clone, Debug)]
pub struct HTree {
    pub node: Node,
    pub nss: Vec<Node>,
    pub attrs: Vec<Node>,
    pub children: Vec<HTree>,
}

impl HTree {
    /// ordinary nodes in document order
    pub fn flat(&self) -> Vec<Node> {
        let mut v = Vec::new();
        self.flat_into(&mut v);
        v
    }
    fn flat_into(&self, v: &mut Vec<Node>) {
        v.push(self.node);
        for c in &self.children {
            c.flat_into(v);
        }
    }
    /// every node: element, its namespace nodes, its attribute nodes, its children
    pub fn flat_all(&self) -> Vec<Node> {
        let mut v = Vec::new();
        self.flat_all_into(&mut v);
        v
    }
    fn flat_all_into(&self, v: &mut Vec<Node>) {
        v.push(self.node);
        v.extend(self.nss.iter().copied());
        v.extend(self.attrs.iter().copied());
        for c in &self.children {
            c.flat_all_into(v);
        }
    }
}

#[derive(Clone, Debug)]
pub struct Snapped {
    pub tree: ANode,
    pub handles: HTree,
}

pub const SNAP_NODE_LIMIT: usize = 400_000;
pub const SNAP_DEPTH_LIMIT: usize = 20_000;

pub fn qname(xot: &Xot, name: xot::NameId) -> QName {
    let (local, ns) = xot.name_ns_str(name);
    QName::new(ns, local)
}

/// bounded collection of an iterator handed out by xot
pub fn bounded<T>(it: impl Iterator<Item = T>, limit: usize) -> Result<Vec<T>, Vec<T>> {
    let mut v = Vec::new();
    for x in it {
        if v.len() >= limit {
            return Err(v);
        }
        v.push(x);
    }
    Ok(v)
}

pub fn snap(xot: &Xot, root: Node) -> Result<Snapped, String> {
    let mut budget = SNAP_NODE_LIMIT;
    snap_rec(xot, root, &mut budget, 0)
}

pub fn snap_tree(xot: &Xot, root: Node) -> Result<ANode, String> {
    snap(xot, root).map(|s| s.tree)
}

/// ordinary children via first_child / next_sibling, bounded
pub fn children_chain(xot: &Xot, n: Node, limit: usize) -> Result<Vec<Node>, String> {
    let mut v = Vec::new();
    let mut cur = xot.first_child(n);
    while let Some(c) = cur {
        if v.len() >= limit {
            return Err("sibling chain does not end (bounded walk exceeded)".to_string());
        }
        v.push(c);
        cur = xot.next_sibling(c);
    }
    Ok(v)
}

fn snap_rec(xot: &Xot, n: Node, budget: &mut usize, depth: usize) -> Result<Snapped, String> {
    if *budget == 0 {
        return Err("tree walk exceeded the node bound (cycle?)".to_string());
    }
    if depth > SNAP_DEPTH_LIMIT {
        return Err("tree walk exceeded the depth bound (cycle?)".to_string());
    }
    *budget -= 1;
    let mut h = HTree {
        node: n,
        nss: Vec::new(),
        attrs: Vec::new(),
        children: Vec::new(),
    };
    let mut a = match xot.value(n) {
        Value::Document => ANode::doc(vec![]),
        Value::Element(e) => {
            let mut a = ANode::elem(qname(xot, e.name()));
            let nss = bounded(xot.namespaces(n).nodes(), *budget)
                .map_err(|_| "namespace node list does not end".to_string())?;
            for ns in &nss {
                match xot.value(*ns) {
                    Value::Namespace(v) => a.decls.push((
                        xot.prefix_str(v.prefix()).to_string(),
                        xot.namespace_str(v.namespace()).to_string(),
                    )),
                    other => {
                        return Err(format!(
                            "namespaces().nodes() yielded a {:?} node",
                            other.value_type()
                        ))
                    }
                }
            }
            let attrs = bounded(xot.attributes(n).nodes(), *budget)
                .map_err(|_| "attribute node list does not end".to_string())?;
            for at in &attrs {
                match xot.value(*at) {
                    Value::Attribute(v) => {
                        a.attrs.push((qname(xot, v.name()), v.value().to_string()))
                    }
                    other => {
                        return Err(format!(
                            "attributes().nodes() yielded a {:?} node",
                            other.value_type()
                        ))
                    }
                }
            }
            h.nss = nss;
            h.attrs = attrs;
            a
        }
        Value::Text(t) => ANode::text(t.get()),
        Value::Comment(c) => ANode::comment(c.get()),
        Value::ProcessingInstruction(pi) => {
            let mut a = ANode::pi("", pi.data());
            a.name = qname(xot, pi.target());
            a
        }
        Value::Attribute(v) => {
            // a detached attribute node read as a pseudo element "@attr" (used by clone monitors)
            let mut a = ANode::elem(QName::new("@attribute", "@"));
            a.attrs.push((qname(xot, v.name()), v.value().to_string()));
            a
        }
        Value::Namespace(v) => {
            let mut a = ANode::elem(QName::new("@namespace", "@"));
            a.decls.push((
                xot.prefix_str(v.prefix()).to_string(),
                xot.namespace_str(v.namespace()).to_string(),
            ));
            a
        }
    };
    if matches!(a.kind, AKind::Doc | AKind::Elem) && a.name.ns != "@attribute" && a.name.ns != "@namespace" {
        let kids = children_chain(xot, n, *budget)?;
        for k in kids {
            let s = snap_rec(xot, k, budget, depth + 1)?;
            a.children.push(s.tree);
            h.children.push(s.handles);
        }
    }
    Ok(Snapped { tree: a, handles: h })
}
