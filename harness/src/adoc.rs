//! Abstract documents: an owned tree independent of xot. The universal currency of the harness:
//! generators produce it, builders realise it in a Xot, `snap` reads a live Xot tree back into it,
//! the independent XML reader parses text into it, the renderer spells it out.

use crate::json::J;
use std::collections::hash_map::DefaultHasher;
use std::hash::{Hash, Hasher};

pub const XML_NS: &str = "http://www.w3.org/XML/1998/namespace";
pub const XHTML_NS: &str = "http://www.w3.org/1999/xhtml";
pub const MATHML_NS: &str = "http://www.w3.org/1998/Math/MathML";
pub const SVG_NS: &str = "http://www.w3.org/2000/svg";

#[derive(Clone, Debug, PartialEq, Eq, Hash, PartialOrd, Ord)]
pub struct QName {
    pub ns: String,
    pub local: String,
}

impl QName {
    pub fn new(ns: &str, local: &str) -> QName {
        QName {
            ns: ns.to_string(),
            local: local.to_string(),
        }
    }
    pub fn plain(local: &str) -> QName {
        QName::new("", local)
    }
    pub fn clark(&self) -> String {
        if self.ns.is_empty() {
            self.local.clone()
        } else {
            format!("{{{}}}{}", self.ns, self.local)
        }
    }
}

#[derive(Clone, Copy, Debug, PartialEq, Eq, Hash, PartialOrd, Ord)]
pub enum AKind {
    Doc,
    Elem,
    Text,
    Comment,
    Pi,
}

#[derive(Clone, Debug, PartialEq, Eq, Hash)]
pub struct ANode {
    pub kind: AKind,
    /// element name; for a PI the target (namespace normally empty)
    pub name: QName,
    /// element: declarations (prefix, uri) in order; ("", "") is xmlns=""
    pub decls: Vec<(String, String)>,
    /// element: attributes in order
    pub attrs: Vec<(QName, String)>,
    /// text / comment content
    pub text: String,
    /// PI data
    pub data: Option<String>,
    pub children: Vec<ANode>,
}

impl ANode {
    fn blank(kind: AKind) -> ANode {
        ANode {
            kind,
            name: QName::plain(""),
            decls: Vec::new(),
            attrs: Vec::new(),
            text: String::new(),
            data: None,
            children: Vec::new(),
        }
    }
    pub fn doc(children: Vec<ANode>) -> ANode {
        let mut n = ANode::blank(AKind::Doc);
        n.children = children;
        n
    }
    pub fn elem(name: QName) -> ANode {
        let mut n = ANode::blank(AKind::Elem);
        n.name = name;
        n
    }
    pub fn text(s: &str) -> ANode {
        let mut n = ANode::blank(AKind::Text);
        n.text = s.to_string();
        n
    }
    pub fn comment(s: &str) -> ANode {
        let mut n = ANode::blank(AKind::Comment);
        n.text = s.to_string();
        n
    }
    pub fn pi(target: &str, data: Option<&str>) -> ANode {
        let mut n = ANode::blank(AKind::Pi);
        n.name = QName::plain(target);
        n.data = data.map(|s| s.to_string());
        n
    }
    pub fn with_children(mut self, c: Vec<ANode>) -> ANode {
        self.children = c;
        self
    }
    pub fn with_attr(mut self, n: QName, v: &str) -> ANode {
        self.attrs.push((n, v.to_string()));
        self
    }
    pub fn with_decl(mut self, p: &str, u: &str) -> ANode {
        self.decls.push((p.to_string(), u.to_string()));
        self
    }

    pub fn is_elem(&self) -> bool {
        self.kind == AKind::Elem
    }
    pub fn is_text(&self) -> bool {
        self.kind == AKind::Text
    }

    /// number of ordinary nodes in the subtree
    pub fn count(&self) -> usize {
        1 + self.children.iter().map(|c| c.count()).sum::<usize>()
    }
    /// number of nodes incl. attribute and namespace entries
    pub fn count_all(&self) -> usize {
        1 + self.decls.len()
            + self.attrs.len()
            + self.children.iter().map(|c| c.count_all()).sum::<usize>()
    }
    pub fn depth(&self) -> usize {
        1 + self.children.iter().map(|c| c.depth()).max().unwrap_or(0)
    }

    pub fn structural_hash(&self) -> u64 {
        let mut h = DefaultHasher::new();
        self.hash(&mut h);
        h.finish()
    }

    /// visit every node in document order
    pub fn walk<'a>(&'a self, f: &mut dyn FnMut(&'a ANode)) {
        f(self);
        for c in &self.children {
            c.walk(f);
        }
    }
    pub fn walk_mut(&mut self, f: &mut dyn FnMut(&mut ANode)) {
        f(self);
        for c in &mut self.children {
            c.walk_mut(f);
        }
    }

    /// concatenated descendant text
    pub fn string_value(&self) -> String {
        match self.kind {
            AKind::Text | AKind::Comment => self.text.clone(),
            AKind::Pi => self.data.clone().unwrap_or_default(),
            _ => {
                let mut s = String::new();
                self.walk(&mut |n| {
                    if n.kind == AKind::Text {
                        s.push_str(&n.text)
                    }
                });
                s
            }
        }
    }

    /// attribute set sorted, declarations as a sorted map (last one of a prefix wins); recursive
    pub fn norm_sets(&self) -> ANode {
        let mut n = self.clone();
        n.walk_mut(&mut |x| {
            x.attrs.sort();
            let mut d: Vec<(String, String)> = Vec::new();
            for (p, u) in x.decls.iter() {
                if let Some(e) = d.iter_mut().find(|(pp, _)| pp == p) {
                    e.1 = u.clone();
                } else {
                    d.push((p.clone(), u.clone()));
                }
            }
            d.sort();
            x.decls = d;
        });
        n
    }

    /// canonical form for deep equality: declarations erased, attributes sorted
    pub fn canon(&self) -> ANode {
        let mut n = self.clone();
        n.walk_mut(&mut |x| {
            x.attrs.sort();
            x.decls.clear();
        });
        n
    }

    /// merge adjacent text children, recursively (and drop nothing else)
    pub fn merge_adjacent_text(&self) -> ANode {
        let mut n = self.clone();
        n.walk_mut(&mut |x| {
            let mut out: Vec<ANode> = Vec::new();
            for c in x.children.drain(..) {
                if c.kind == AKind::Text {
                    if let Some(last) = out.last_mut() {
                        if last.kind == AKind::Text {
                            last.text.push_str(&c.text);
                            continue;
                        }
                    }
                }
                out.push(c);
            }
            x.children = out;
        });
        n
    }

    /// compact, unambiguous rendering for reports (Clark names, Rust-escaped strings)
    pub fn show(&self) -> String {
        let mut s = String::new();
        self.show_into(&mut s);
        s
    }
    fn show_into(&self, s: &mut String) {
        match self.kind {
            AKind::Doc => {
                s.push_str("DOC[");
                for c in &self.children {
                    c.show_into(s);
                }
                s.push(']');
            }
            AKind::Elem => {
                s.push('<');
                s.push_str(&self.name.clark());
                for (p, u) in &self.decls {
                    s.push_str(&format!(" xmlns:{}={:?}", p, u));
                }
                for (n, v) in &self.attrs {
                    s.push_str(&format!(" @{}={:?}", n.clark(), v));
                }
                s.push('>');
                for c in &self.children {
                    c.show_into(s);
                }
                s.push_str("</>");
            }
            AKind::Text => s.push_str(&format!("T{:?}", self.text)),
            AKind::Comment => s.push_str(&format!("C{:?}", self.text)),
            AKind::Pi => s.push_str(&format!("PI({},{:?})", self.name.clark(), self.data)),
        }
    }
    pub fn to_json(&self) -> J {
        let s = self.show();
        if s.chars().count() > 2000 {
            let t: String = s.chars().take(2000).collect();
            J::s(format!("{}…(truncated, {} nodes)", t, self.count()))
        } else {
            J::s(s)
        }
    }
}

/// first difference between two trees as a human-readable path, or None when equal
pub fn first_diff(a: &ANode, b: &ANode) -> Option<String> {
    diff_at(a, b, "/")
}

fn diff_at(a: &ANode, b: &ANode, path: &str) -> Option<String> {
    if a.kind != b.kind {
        return Some(format!("{}: kind {:?} vs {:?}", path, a.kind, b.kind));
    }
    if a.name != b.name {
        return Some(format!("{}: name {} vs {}", path, a.name.clark(), b.name.clark()));
    }
    if a.decls != b.decls {
        return Some(format!("{}: declarations {:?} vs {:?}", path, a.decls, b.decls));
    }
    if a.attrs != b.attrs {
        let fa: Vec<String> = a.attrs.iter().map(|(n, v)| format!("{}={:?}", n.clark(), v)).collect();
        let fb: Vec<String> = b.attrs.iter().map(|(n, v)| format!("{}={:?}", n.clark(), v)).collect();
        return Some(format!("{}: attributes {:?} vs {:?}", path, fa, fb));
    }
    if a.text != b.text {
        return Some(format!("{}: content {:?} vs {:?}", path, a.text, b.text));
    }
    if a.data != b.data {
        return Some(format!("{}: PI data {:?} vs {:?}", path, a.data, b.data));
    }
    if a.children.len() != b.children.len() {
        let ka: Vec<String> = a.children.iter().map(|c| short(c)).collect();
        let kb: Vec<String> = b.children.iter().map(|c| short(c)).collect();
        return Some(format!(
            "{}: {} children {:?} vs {} children {:?}",
            path,
            a.children.len(),
            ka,
            b.children.len(),
            kb
        ));
    }
    for (i, (ca, cb)) in a.children.iter().zip(b.children.iter()).enumerate() {
        let p = format!("{}{}[{}]/", path, short(ca), i);
        if let Some(d) = diff_at(ca, cb, &p) {
            return Some(d);
        }
    }
    None
}

fn short(n: &ANode) -> String {
    match n.kind {
        AKind::Doc => "doc".into(),
        AKind::Elem => n.name.clark(),
        AKind::Text => format!("T{:?}", n.text.chars().take(12).collect::<String>()),
        AKind::Comment => "comment".into(),
        AKind::Pi => format!("pi:{}", n.name.local),
    }
}

// ---------------------------------------------------------------------------------------------
// XML character classes (independent of xot / xmlparser)

pub fn is_xml_char(c: char) -> bool {
    matches!(c as u32,
        0x9 | 0xA | 0xD | 0x20..=0xD7FF | 0xE000..=0xFFFD | 0x10000..=0x10FFFF)
}

pub fn is_name_start(c: char) -> bool {
    matches!(c as u32,
        0x3A | 0x41..=0x5A | 0x5F | 0x61..=0x7A | 0xC0..=0xD6 | 0xD8..=0xF6 | 0xF8..=0x2FF
        | 0x370..=0x37D | 0x37F..=0x1FFF | 0x200C..=0x200D | 0x2070..=0x218F | 0x2C00..=0x2FEF
        | 0x3001..=0xD7FF | 0xF900..=0xFDCF | 0xFDF0..=0xFFFD | 0x10000..=0xEFFFF)
}

pub fn is_name_char(c: char) -> bool {
    is_name_start(c)
        || matches!(c as u32, 0x2D | 0x2E | 0x30..=0x39 | 0xB7 | 0x300..=0x36F | 0x203F..=0x2040)
}

pub fn is_ncname(s: &str) -> bool {
    let mut it = s.chars();
    match it.next() {
        Some(c) if is_name_start(c) && c != ':' => {}
        _ => return false,
    }
    it.all(|c| is_name_char(c) && c != ':')
}

pub fn is_xml_space(c: char) -> bool {
    matches!(c, ' ' | '\t' | '\r' | '\n')
}
