#!/bin/bash
exec "$(dirname "${BASH_SOURCE[0]}")/run_legs.sh" C16 8 8 0
