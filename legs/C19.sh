#!/bin/bash
exec "$(dirname "${BASH_SOURCE[0]}")/run_legs.sh" C19 12 16 1
