#!/bin/bash
exec "$(dirname "${BASH_SOURCE[0]}")/run_legs.sh" C19 40 16 1
