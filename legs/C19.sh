#!/bin/bash
exec "$(dirname "${BASH_SOURCE[0]}")/run_legs.sh" C19 8 16 1
