#!/bin/bash
exec "$(dirname "${BASH_SOURCE[0]}")/run_legs.sh" C07 12 8 0
