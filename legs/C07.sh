#!/bin/bash
exec "$(dirname "${BASH_SOURCE[0]}")/run_legs.sh" C07 6 8 0
