#!/bin/bash
exec "$(dirname "${BASH_SOURCE[0]}")/run_legs.sh" C03 6 16 1
