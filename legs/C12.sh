#!/bin/bash
exec "$(dirname "${BASH_SOURCE[0]}")/run_legs.sh" C12 6 8 0
