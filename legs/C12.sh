#!/bin/bash
exec "$(dirname "${BASH_SOURCE[0]}")/run_legs.sh" C12 4 8 0
