#!/bin/bash
# legs/run_legs.sh <ID> <miri_stream_cap> <miri_shards> <asan:0|1>
# Sanitizer legs of a thorough check: re-runs sub-samples of the property's own workload under Miri
# (sharded processes, different seeds) and, optionally, the quick-size workload under AddressSanitizer.
# A sanitizer report is a VIOLATION for the totality properties (C03, C19) and INCONCLUSIVE elsewhere.
set -u
ID="$1"; CAP="$2"; SHARDS="$3"; ASAN="$4"
ROOT="$(cd "$(dirname "${BASH_SOURCE[0]}")/.." && pwd)"
H="$ROOT/harness"
export CARGO_NET_OFFLINE=true CARGO_TERM_COLOR=never
SEED="${VERIF_SEED:-0}"
SCR="$H/target/legs/$ID"
rm -rf "$SCR"; mkdir -p "$SCR"
totality=0; case "$ID" in C03|C19) totality=1;; esac
status=0
miri_cases=0; miri_reports=0; asan_cases=0; asan_reports=0; miri_ok=0; asan_ok=0

# ---------------- Miri
( cd "$H" && MIRIFLAGS="-Zmiri-disable-isolation" cargo +nightly miri setup >/dev/null 2>&1 )
( cd "$H" && MIRIFLAGS="-Zmiri-disable-isolation" cargo +nightly miri run --offline -- --list > "$SCR/miri-build.log" 2>&1 )
if [ $? -ne 0 ]; then
  echo "INCONCLUSIVE property=$ID Miri build failed (see $SCR/miri-build.log)"; status=3
else
  pids=()
  for s in $(seq 1 "$SHARDS"); do
    mkdir -p "$SCR/miri-$s"; cp "$ROOT/known_findings.json" "$SCR/miri-$s/" 2>/dev/null
    ( cd "$H" && XVM_STREAM_CAP="$CAP" XVM_SKIP_SOLO=1 XVM_NO_FLOORS=1 XVM_HANG_S=1500 VERIF_THREADS=1 VERIF_WALL_S=3000 MIRIFLAGS="-Zmiri-disable-isolation" \
        cargo +nightly miri run --offline -- --root "$SCR/miri-$s" --property "$ID" --tier quick --seed $((SEED * 1000 + s)) > "$SCR/miri-$s/log" 2>&1; echo $? > "$SCR/miri-$s/rc" ) &
    pids+=($!)
  done
  for p in "${pids[@]}"; do wait "$p"; done
  for s in $(seq 1 "$SHARDS"); do
    rc=$(cat "$SCR/miri-$s/rc" 2>/dev/null || echo 99)
    n=$(grep -oE "quick: [0-9]+ cases" "$SCR/miri-$s/log" | grep -oE "[0-9]+" | head -1); miri_cases=$((miri_cases + ${n:-0}))
    if grep -q "Undefined Behavior\|error: unsupported operation\|memory leaked\|data race" "$SCR/miri-$s/log"; then
      miri_reports=$((miri_reports + 1))
      cp "$SCR/miri-$s/log" "$ROOT/replays/$ID-miri-shard$s.log" 2>/dev/null || { mkdir -p "$ROOT/replays"; cp "$SCR/miri-$s/log" "$ROOT/replays/$ID-miri-shard$s.log"; }
      if [ $totality -eq 1 ]; then echo "VIOLATION property=$ID replay=$ROOT/replays/$ID-miri-shard$s.log"; echo "  clause: Miri reported undefined behaviour while the workload ran (seed $((SEED * 1000 + s)))"; status=1
      else echo "INCONCLUSIVE property=$ID Miri report in shard $s (see $ROOT/replays/$ID-miri-shard$s.log)"; [ $status -eq 0 ] && status=3; fi
    elif [ "$rc" = "1" ]; then
      grep -A3 "^VIOLATION" "$SCR/miri-$s/log" | head -8; status=1
    elif [ "$rc" != "0" ]; then
      echo "INCONCLUSIVE property=$ID Miri shard $s ended with exit code $rc (see $SCR/miri-$s/log)"; [ $status -eq 0 ] && status=3
    else miri_ok=$((miri_ok + 1)); fi
  done
fi

# ---------------- ASan
if [ "$ASAN" = "1" ]; then
  ( cd "$H" && RUSTFLAGS="-Zsanitizer=address -Cforce-frame-pointers=yes --cfg xot_verif" cargo +nightly build --release --offline --target x86_64-unknown-linux-gnu --target-dir target-asan > "$SCR/asan-build.log" 2>&1 )
  if [ $? -ne 0 ]; then
    echo "INCONCLUSIVE property=$ID ASan build failed (see $SCR/asan-build.log)"; [ $status -eq 0 ] && status=3
  else
    mkdir -p "$SCR/asan"; cp "$ROOT/known_findings.json" "$SCR/asan/" 2>/dev/null
    ASAN_OPTIONS=halt_on_error=1:abort_on_error=0:detect_leaks=0 XVM_NO_FLOORS=1 XVM_SKIP_SOLO=1 XVM_HANG_S=120 VERIF_BUDGET="${VERIF_ASAN_BUDGET:-4}" \
      "$H/target-asan/x86_64-unknown-linux-gnu/release/xvm" --root "$SCR/asan" --property "$ID" --tier quick --seed "$SEED" > "$SCR/asan/log" 2>&1
    rc=$?
    n=$(grep -oE "quick: [0-9]+ cases" "$SCR/asan/log" | grep -oE "[0-9]+" | head -1); asan_cases=${n:-0}
    if grep -q "ERROR: AddressSanitizer" "$SCR/asan/log"; then
      asan_reports=1; mkdir -p "$ROOT/replays"; cp "$SCR/asan/log" "$ROOT/replays/$ID-asan.log"
      if [ $totality -eq 1 ]; then echo "VIOLATION property=$ID replay=$ROOT/replays/$ID-asan.log"; echo "  clause: AddressSanitizer report while the workload ran"; status=1
      else echo "INCONCLUSIVE property=$ID AddressSanitizer report (see $ROOT/replays/$ID-asan.log)"; [ $status -eq 0 ] && status=3; fi
    elif [ $rc -eq 1 ]; then grep -A3 "^VIOLATION" "$SCR/asan/log" | head -8; status=1
    elif [ $rc -ne 0 ]; then echo "INCONCLUSIVE property=$ID ASan run ended with exit code $rc (see $SCR/asan/log)"; [ $status -eq 0 ] && status=3
    else asan_ok=1; fi
  fi
fi

# ---------------- merge into the evidence file written by the native run
python3 - "$ROOT/evidence/$ID.json" "$miri_cases" "$miri_reports" "$miri_ok" "$SHARDS" "$CAP" "$ASAN" "$asan_cases" "$asan_reports" <<'PY'
import json, sys
p, mc, mr, mok, shards, cap, asan, ac, ar = sys.argv[1:]
try:
    e = json.load(open(p))
except Exception:
    sys.exit(0)
e["coverage"]["sanitizer_legs"] = {
    "miri": {"shards": int(shards), "stream_cap_per_shard": int(cap), "cases_executed": int(mc), "shards_clean": int(mok), "reports": int(mr)},
    "asan": ({"cases_executed": int(ac), "reports": int(ar)} if asan == "1" else "not run for this property"),
}
json.dump(e, open(p, "w"), indent=1, ensure_ascii=False)
PY
echo "$ID sanitizer legs: Miri $miri_cases cases in $SHARDS shards ($miri_reports reports), ASan $asan_cases cases ($asan_reports reports)"
exit $status
