#!/bin/bash
exec "$(dirname "${BASH_SOURCE[0]}")/run_legs.sh" C09 20 8 0
