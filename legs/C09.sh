#!/bin/bash
exec "$(dirname "${BASH_SOURCE[0]}")/run_legs.sh" C09 6 8 0
