#!/bin/bash
# tools/coverage.sh [budget]   line coverage of /repo/src under all twenty quick checks (development aid, not a check):
# builds a scratch copy of the harness with -Cinstrument-coverage on the nightly toolchain under /tmp/cov, runs every
# check at VERIF_BUDGET=<budget> (default 0.15), prints per-file coverage and the never-executed lines, removes /tmp/cov.
B=${1:-0.15}
export CARGO_NET_OFFLINE=true
BIN=$(rustc +nightly --print sysroot)/lib/rustlib/x86_64-unknown-linux-gnu/bin
rm -rf /tmp/cov; mkdir -p /tmp/cov/prof /tmp/cov/evidence /tmp/cov/replays
rsync -a --exclude target --exclude 'target-*' /verif/harness/ /tmp/cov/h/
cp /verif/known_findings.json /tmp/cov/
# (the build is run from the scratch copy so that stray default_*.profraw files of build scripts do not land in /repo)
( cd /tmp/cov/h && LLVM_PROFILE_FILE=/tmp/cov/prof/build-%p.profraw RUSTFLAGS="--cfg xot_verif -Cinstrument-coverage" CARGO_TARGET_DIR=/tmp/cov/target cargo +nightly build --release --offline 2>&1 | tail -1 )
for p in $(python3 -c "import json;print(' '.join(c['property_id'] for c in json.load(open('/verif/MANIFEST.json'))['checks']))"); do
  ( cd /tmp/cov && LLVM_PROFILE_FILE=/tmp/cov/prof/$p-%p.profraw VERIF_BUDGET=$B timeout 900 ./target/release/xvm --root /tmp/cov --property $p --tier quick > /tmp/cov/run-$p.log 2>&1 )
done
rm -f /tmp/cov/prof/build-*.profraw /repo/default_*.profraw
$BIN/llvm-profdata merge -sparse /tmp/cov/prof/*.profraw -o /tmp/cov/all.profdata
IGN='(/verif/|/tmp/cov/h/|registry|rustc|library)'
$BIN/llvm-cov report /tmp/cov/target/release/xvm -instr-profile=/tmp/cov/all.profdata --ignore-filename-regex="$IGN" 2>/dev/null | awk '{printf "%-32s lines %6s missed %5s %s\n", $1, $8, $9, $10}'
$BIN/llvm-cov show /tmp/cov/target/release/xvm -instr-profile=/tmp/cov/all.profdata --ignore-filename-regex="$IGN" --show-line-counts-or-regions 2>/dev/null > /tmp/cov/show.txt
python3 - <<'PY'
import re
cur=None
for l in open('/tmp/cov/show.txt'):
    m=re.match(r'^(/\S+):$', l.strip())
    if m: cur=m.group(1); print("==",cur); continue
    m=re.match(r'^\s*(\d+)\|\s*0\|(.*)$', l)
    if m and cur: print("  %s: %s"%(m.group(1), m.group(2)[:110]))
PY
rm -rf /tmp/cov
