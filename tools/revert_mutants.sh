#!/bin/bash
# For every fixed entry of known_findings.json: revert that fix: commit on a scratch worktree and
# check that the property's quick check reports the defect again (DESIGN §8, kind 1).
# usage: tools/revert_mutants.sh [ledger ...]   (default: all)
cd /verif
python3 - "$@" <<'PY' > /tmp/revert_list.txt
import json,sys
k=json.load(open('/verif/known_findings.json'))
want=set(sys.argv[1:])
seen=set()
for e in k['entries']:
    if e['status']!='fixed': continue
    if want and e['ledger'] not in want: continue
    key=(e['ledger'])
    if key in seen: continue
    seen.add(key)
    print(e['ledger'], e['property'], e['commit'])
PY
mkdir -p seeded
while read L P C; do
  D=/verif/seeded/revert-$L
  mkdir -p $D
  git -C /repo show -R $C -- src > $D/patch.diff
  if ! git -C /repo apply --check $D/patch.diff 2>/dev/null; then
    echo "$L: revert of $C does not apply to HEAD any more (later fixes touch the same lines)" | tee $D/detect.txt
    continue
  fi
  cat > $D/meta.json <<M
{"property": "$P", "summary": "revert of fix: commit $C (ledger $L)", "needs": "see known_findings.json entry $L", "files": ["(reverse of the fix commit)"], "source": "revert-mutant"}
M
  checks="$P"
  [ "$P" = "C04" ] && checks="C04 C05 C06"
  [ "$P" = "C05" ] && checks="C05 C04 C06"
  [ "$P" = "C06" ] && checks="C06 C04 C05"
  echo "== $L ($P, $C)"
  tools/seed_detect.sh revert-$L $checks 2>&1 | grep "exit=" | cut -c1-220
done < /tmp/revert_list.txt
