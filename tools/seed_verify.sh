#!/bin/bash
# tools/seed_verify.sh <seed-id>   confirm in a scratch worktree: suite green with the change, demo fails with it, passes without
# writes /verif/seeded/<id>/verify.txt ; scratch worktree and its build output are removed afterwards
ID="$1"; S=/verif/seeded/$ID; W=/tmp/sv-$ID
export CARGO_NET_OFFLINE=true
git -C /repo worktree remove --force "$W" 2>/dev/null; rm -rf "$W"
git -C /repo worktree add -q --detach "$W" HEAD || exit 2
cd "$W"
{
echo "seed $ID verified against /repo HEAD $(git -C /repo rev-parse --short HEAD) on $(date -u +%FT%TZ)"
if ! git apply --check "$S/patch.diff" 2>&1; then echo "RESULT patch-does-not-apply"; cd /; git -C /repo worktree remove --force "$W"; exit 1; fi
cp "$S/demo.rs" tests/seed_demo.rs
echo "--- demo WITHOUT the change"
cargo test --test seed_demo --offline 2>&1 | grep -E "^test result|^test .*(FAILED|ok)$" | tail -8
R0=${PIPESTATUS[0]}
git apply "$S/patch.diff"
echo "--- existing suite WITH the change"
rm tests/seed_demo.rs
cargo nextest run --workspace --no-fail-fast --offline 2>&1 | grep -E "Summary|FAIL " | head -5
RS=${PIPESTATUS[0]}
cargo test --doc --offline 2>&1 | grep "test result" | tail -1
RD=${PIPESTATUS[0]}
cp "$S/demo.rs" tests/seed_demo.rs
echo "--- demo WITH the change"
cargo test --test seed_demo --offline 2>&1 | grep -E "^test result|^test .*(FAILED|ok)$" | tail -8
R1=${PIPESTATUS[0]}
echo "exit codes: demo-without=$R0 suite-with=$RS doctests-with=$RD demo-with=$R1"
if [ $R0 -eq 0 ] && [ $RS -eq 0 ] && [ $RD -eq 0 ] && [ $R1 -ne 0 ]; then echo "RESULT confirmed"; else echo "RESULT rejected"; fi
} > "$S/verify.txt" 2>&1
cd /
git -C /repo worktree remove --force "$W"
rm -rf "$W"
tail -1 "$S/verify.txt"
