#!/usr/bin/env python3
"""Regenerates /verif/known_findings.json: 'fixed' entries are looked up in /repo's git log by the
subject of their fix: commit; 'open' entries are written out here by hand (exact signatures)."""
import json, subprocess, os
ROOT = os.path.dirname(os.path.dirname(os.path.abspath(__file__)))
log = subprocess.run(["git", "-C", "/repo", "log", "--format=%h %s"], capture_output=True, text=True).stdout.splitlines()
def commit(subject_start):
    for l in log:
        h, s = l.split(" ", 1)
        if s.startswith(subject_start):
            return h
    raise SystemExit("no commit with subject starting: " + subject_start)

FIXED = [
 ("F01", "C01", "fix: escape carriage return in serialized text", "text containing CR was serialised with a raw CR and reparsed as LF"),
 ("F02", "C01", "fix: escape TAB, LF and CR in serialized attribute values", "attribute values containing TAB/LF/CR were serialised raw and reparsed as spaces"),
 ("F03", "C01", "fix: escape the namespace URI in serialized xmlns", "namespace URI containing & < \" was written unescaped into xmlns declarations (output not well-formed)"),
 ("F04", "C02", "fix: decode references in namespace declaration values", "xmlns:p=\"x&amp;y\" registered the namespace 'x&amp;y' (no reference decoding in declaration values)"),
 ("F14", "C04", "fix: is_removed compares the handle's stamp", "after remove(b) and one allocation is_removed(b) was false again and value(b) was the new node's"),
 ("F15", "C04", "fix: xml_id_node no longer returns an element that has been removed", "xml_id_node kept returning an element after it was removed"),
 ("F19", "C04", "fix: refuse to move a node into itself or its own descendants", "insert_after/insert_before(grandchild, grandparent) and prepend(child_with_attrs, ancestor) returned Ok and created a cycle; insert_after(child, parent) panicked"),
 ("F21", "C06", "fix: refuse to move a node into itself or its own descendants", "append(c, b) with b an ancestor of c returned Err after having merged the text nodes around b"),
 ("F16", "C04", "fix: insert_after/insert_before reject attribute or namespace reference nodes", "insert_after(attribute_node, element) put an ordinary node between attribute nodes"),
 ("F20", "C05", "fix: moving a node to the position it already occupies is a no-op", "append(parent, its_last_text_child) destroyed the text; insert_after(x, b) with b already after x reordered text; prepend(parent, first_child) panicked"),
 ("F22", "C06", "fix: insert_after survives the reference node being merged away", "insert_after(y, b) in x<b/>y panicked (reference consumed by consolidation)"),
 ("F18", "C05", "fix: consolidate on both sides when a text node lands between two text nodes", "replace(<b/>, text) in x<b/>y left two adjacent text nodes"),
 ("F23", "C06", "fix: replace validates its arguments before destroying the replaced node", "replace destroyed the target before validating (Err + destroyed subtree; panics for parentless / self / descendant)"),
 ("F24", "C06", "fix: element_wrap refuses attribute and namespace nodes", "element_wrap(attribute_node) returned Err after detaching the attribute"),
 ("F17", "C04", "fix: element_unwrap of a parentless element", "element_unwrap of a parentless element left parentless nodes that were siblings"),
 ("F32", "C11", "fix: MutableNodeMap::is_empty was inverted", "attributes_mut(e).is_empty() / namespaces_mut(e).is_empty() was inverted"),
 ("F46", "C07", "fix: reverse_children terminates", "reverse_children(n) never terminated for a node with >= 2 children (or one child plus attribute nodes)"),
 ("F33", "C13", "fix: shallow_equal_ignore_attributes with a repeated name", "shallow_equal_ignore_attributes(a,b,&[p,p]) underflowed (panic with overflow checks, wrong false without)"),
 ("F34", "C13", "fix: deep_equal of attribute or namespace nodes compares their values", "deep_equal of two attribute (or namespace) nodes was always true"),
 ("F38", "C18", "fix: remove_insignificant_whitespace only treats XML white space", "a text node consisting of U+00A0 (or other non-XML Unicode space) was removed / did not protect sibling whitespace"),
 ("F05", "C02", "fix: xml:id normalization strips all leading and trailing spaces", "xml:id=\"  a   b  \" was normalised to \" a b \" (one space stripped per side)"),
 ("F06", "C02", "fix: normalize line ends inside CDATA sections", "CR / CRLF inside a CDATA section was kept (no line-end normalisation)"),
 ("F07", "C03", "fix: reject attributes duplicated by expanded name", "<a xmlns:p=\"u\" xmlns:q=\"u\" p:x=\"1\" q:x=\"2\"/> was accepted (two attribute nodes with one name)"),
 ("F08", "C03", "fix: reject a prefix (or the default namespace) declared twice", "<a xmlns:p=\"u\" xmlns:p=\"v\"/> and <a xmlns=\"u\" xmlns=\"v\"/> were accepted"),
 ("F09", "C03", "fix: reject character references to non-XML characters", "&#0; &#x1; &#xFFFE; were accepted; &#+65; was accepted"),
 ("F11", "C03", "fix: the end tag must repeat the qualified name", "<p:a xmlns:p=\"u\" xmlns:q=\"u\"></q:a> was accepted (end tag matched by expanded name)"),
 ("F12", "C03", "fix: parse_fragment returns an error for a close tag without an open element", "parse_fragment(\"</a>\") panicked: Cannot close document node"),
 ("F13", "C03", "fix: parse_bytes falls back to UTF-8 instead of panicking", "parse_bytes panicked on encoding=\"foo\" and on empty input"),
 ("F47", "C03", "fix: an empty CDATA section does not create an empty text node", "<a><![CDATA[]]></a> was parsed into an element with an empty text node (lost on serialise + reparse)"),
 ("F48", "C03", "fix: parse_fragment rejects input that ends inside a start tag", "parse_fragment(\"<x\") was accepted (pending start tag silently dropped)"),
 ("F49", "C03", "fix: reject processing instructions with the reserved target", "<?XML a?> and <?xml/x?> were accepted as processing instructions; the latter could not be reparsed after serialisation"),
 ("F26", "C09", "fix: prefix_for_namespace keeps looking after a shadowed prefix", "prefix_for_namespace returned None as soon as it met a shadowed prefix although another prefix was bound"),
 ("F27", "C09", "fix: qualified name of an attribute node never uses the default namespace", "node_name_ref/full_name of an attribute in namespace A with xmlns=\"A\" in scope reported the unprefixed name"),
 ("F30", "C10", "fix: create_missing_prefixes does not reuse a prefix that is already in use", "a second create_missing_prefixes reused n0 and overrode the first binding (MissingPrefix afterwards)"),
 ("F31b", "C10", "fix: create_missing_prefixes repairs every top-level element of a fragment", "create_missing_prefixes repaired only the first top-level element of a fragment"),
 ("F50", "C10", "fix: create_missing_prefixes does not invent a prefix for the xml namespace", "with an xml:lang attribute create_missing_prefixes declared n0 for the XML namespace; serialisation then wrote an undeclared n0:lang"),
 ("F37", "C15", "fix: deduplicate_namespaces keeps a declaration whose alternative is shadowed below", "<r xmlns:q=\"A\"><e xmlns:p=\"A\" xmlns:q=\"B\"><p:x/></e></r> lost p and failed with MissingPrefix(A) after deduplication"),
 ("F51", "C15", "fix: deduplicate_namespaces runs to a fixed point", "a second deduplicate_namespaces call removed further declarations"),
 ("F35", "C14", "fix: no indentation inside xml:space", "indentation was written inside xml:space=\"preserve\" when the element is not at depth 0"),
 ("F36", "C14", "fix: carriage return in a CDATA-section element", "a CR inside a CDATA-section element came back as LF"),
 ("F25", "C08", "fix: name, namespace and prefix ids no longer wrap around", "the 65 537th distinct name (namespace, prefix) received the id of the first one (16-bit ids, unchecked cast)"),
 ("F42", "C20", "fix: fixed::Document::xotify puts trailing comments and PIs after the document element", "fixed::Document::xotify appended trailing comments/PIs inside the document element"),
 ("F28", "C12", "fix: unresolved_namespaces reports an attribute namespace that is only bound as default", "clone_with_prefixes of <e xmlns=\"A\" p:at=\"\"/> (p inherited) could not be serialised although the source could"),
 ("F52", "C15", "fix: deduplicate_namespaces keeps the prefix an attribute needs under nested default declarations", "<doc xmlns=\"X\"><a xmlns:p=\"X\"><b xmlns=\"X\" p:attr=\"\"/></a></doc> lost p after deduplication (MissingPrefix); found by a seeding sub-agent on the unchanged tree, then reproduced by the C15 forced layouts"),
 ("F53", "C06", "fix: text consolidation does not touch the added node after it was merged away", "insert_after(t2, t1) on adjacent text nodes t0 t1 t2 (left over from a consolidation-off phase) with consolidation on panicked: Try to access a freed node (regression of the F18 repair, found by C12's side mutations and then by the mixed-consolidation states of the C06 catalogue)"),
 ("F40", "C19", "fix: serializing text that is not the child of an element no longer panics", "HTML serialisation of a fragment with top-level text or of a detached text node panicked (also to_string of a detached text node)"),
 ("F41", "C19", "fix: every svg / math element gets its xmlns declaration in HTML5 output", "of two sibling svg elements only the first was written with xmlns= (forced default binding leaked into the parent's frame)"),
 ("F54", "C19", "fix: a forced default namespace in HTML5 output replaces the previous one", "an svg element nested in math content nested in svg content was written without xmlns= (stale default-namespace entry)"),
 ("F55", "C19", "fix: HTML5 serialization of a subtree does not rely on a default namespace it does not write", "HTML5 serialisation of an inner element assumed an inherited default namespace that it does not write on the top element: an svg/math descendant came out without xmlns= (found by `vp check` at VERIF_SEED=1)"),
 ("F56", "C06", "fix: a text node is never consolidated with itself", "insert_before(pi, b) on adjacent text nodes a b c <?pi?> (left over from a consolidation-off phase) with consolidation on merged b into itself and panicked (found by the thorough tier of C06; the mixed-consolidation catalogue was extended to four children so that quick reaches it)"),
 ("F57", "C02", "fix: only an unprefixed xmlns attribute declares the default namespace", "<a xmlns:p=\"v\" p:xmlns=\"u\"><b/></a>: the attribute p:xmlns was taken for a default namespace declaration (attribute lost, a and b moved into namespace u); reported by a seeding sub-agent as a limitation of the unchanged tree, then generated (local name xmlns in the name pool)"),
 ("F58", "C03", "fix: reject a prefixed namespace declaration with an empty value", "<a xmlns:p=\"\" p:x=\"1\"/> was accepted, p:x silently became the no-namespace attribute x (undeclared prefix; Namespaces in XML 1.0 'No Prefix Undeclaring')"),
 ("F59", "C02", "fix: parse_bytes reads the encoding from the XML declaration itself", "parse_bytes of an ISO-8859-1 document whose declaration has white space around '=' (encoding = \"ISO-8859-1\") decoded the bytes as UTF-8 (U+FFFD in the tree); a UTF-8 document without declaration whose content mentions encoding=\"ISO-8859-1\" was decoded as Latin-1; reported by a seeding sub-agent, then generated by the renderer"),
 ("F60", "C02", "fix: accept any white space after <?xml in the XML declaration", "<?xml followed by TAB / LF / CR instead of a space (<?xml\\nversion=\"1.0\"?><a/>) was rejected; reported by a seeding sub-agent, then generated by the renderer"),
 ("F61", "C19", "fix: HTML5 output declares SVG, MathML or XHTML below an element that only carried the default declaration", "<x:foo xmlns:x=\"a\" xmlns=\"http://www.w3.org/2000/svg\"><circle/></x:foo> was written as <x:foo xmlns:x=\"a\"><circle></circle></x:foo>: the default declaration is dropped on x:foo but was still counted as in force, so the SVG element had no xmlns at all; reported by a seeding sub-agent, then generated"),
 ("F62", "C19", "fix: escape the namespace URI in the xmlns attributes of HTML5 output", "a namespace URI containing & or \" was written raw into xmlns:p=\"...\" by the HTML5 serialiser (raw ampersand / attribute value ended early); reported by a seeding sub-agent, then generated"),
 ("F63", "C03", "fix: write a declaration that binds another prefix to the XML namespace", "<a xmlns:x=\"http://www.w3.org/XML/1998/namespace\" x:lang=\"en\"/> was accepted and serialised as <a x:lang=\"en\"/>, which the parser rejects (UnknownPrefix); <a xmlns=\"http://www.w3.org/XML/1998/namespace\"/> lost its namespace; reported by a seeding sub-agent, then reached through the arbitrary-input alphabet"),
 ("F64", "C19", "fix: return the writer's error from the Write-based serialisers instead of panicking", "html5().write / serialize_write / serialize_write_with_normalizer into a writer that fails after some bytes (no space left, closed pipe) panicked (`Result::unwrap()` on the io::Error, in serialize_node and for the doctype line) instead of returning Error::Io; found by line coverage pointing at the never-executed error conversions, then by a failing writer behind the HTML5 entry points"),
 ("F64", "C10", "fix: return the writer's error from the Write-based serialisers instead of panicking", "Xot::write / serialize_xml_write into a writer that fails after some bytes panicked in XmlSerializer::serialize_node instead of failing with Error::Io (same cause and same commit as the HTML5 case)"),
 ("F52b", "C15", "fix: deduplicate_namespaces still drops a repeated default declaration above an attribute of that namespace", "follow-up to the F52 repair, which had become over-cautious: <doc xmlns=\"X\"><a xmlns=\"X\"><b xmlns:p=\"X\" p:attr=\"\"/></a></doc> kept the redundant xmlns=\"X\" on a, which the pinned tree removed (no clause of C15 was violated; noticed because the demonstration of seeded change C15-2 asserts the exact output)"),
 ("F31a", "C06", "fix: create_missing_prefixes returns an error for a document without an element", "create_missing_prefixes panicked on a document without element"),
]
OPEN = [
 {"property": "C19", "ledger": "F39",
  "signature": "C19/html-element-written-with-prefix/Xhtml",
  "what": "an element in the real XHTML namespace http://www.w3.org/1999/xhtml bound to a prefix is written with that prefix (the crate's XHTML_NS constant is https://www.w3.org/1999/xhtml; existing tests pin that value)",
  "witness": "<h:html xmlns:h=\"http://www.w3.org/1999/xhtml\"><h:body/></h:html> -> <!DOCTYPE html><h:html xmlns:h=...>"},
 {"property": "C19", "ledger": "F39",
  "signature": "C19/void-element-with-end-tag/Xhtml",
  "what": "a void element (br, img, ...) in the real XHTML namespace http://www.w3.org/1999/xhtml is written with an end tag (same cause: XHTML_NS constant is the https URI)",
  "witness": "<html xmlns=\"http://www.w3.org/1999/xhtml\"><br/></html> -> ...<br></br>"},
 {"property": "C10", "ledger": "F29",
  "signature": "C10/serialise/emitted-names-differ/unns-element-under-default-binding-written-unprefixed",
  "what": "a no-namespace element with a default-namespace binding in scope is serialised unprefixed without xmlns=\"\", so the emitted name means the default namespace (also after create_missing_prefixes, which cannot repair it)",
  "witness": "<{urn:A}a xmlns=\"urn:A\"><b/></a> built through the creation API; to_string gives <a xmlns=\"urn:A\"><b/></a>"},
 {"property": "C09", "ledger": "F29",
  "signature": "C09/node_name_ref/prefix-resolves-to-another-namespace/element-in-no-namespace-under-default-binding",
  "what": "node_name_ref (also name_ref / full_name) of a no-namespace element with a default-namespace binding in scope reports the unprefixed name, which in that scope denotes the default namespace",
  "witness": "<{urn:A}r xmlns=\"urn:A\"><x/></r> built through the creation API; node_name_ref(x) has prefix \"\""},
 {"property": "C01", "ledger": "F29",
  "signature": "C01/reparse-differs/name/unns-element-under-default-binding-reparsed-in-default-ns",
  "what": "a no-namespace element with a default-namespace binding in scope (no xmlns=\"\" on it) is written unprefixed and reparses in the default namespace",
  "witness": "DOC[<{urn:A}a xmlns=\"urn:A\"><b/></a>] built through the creation API; to_string gives <a xmlns=\"urn:A\"><b/></a>"},
 {"property": "C04", "ledger": "F43",
  "signature": "C04/slot-churn/handle-equality/new-handle-equals-removed-handle/reuses>=32767",
  "what": "after 32767 reuses of one arena slot a new handle compares equal to a removed one (indextree's 16-bit stamp saturates; dependency limitation)",
  "witness": "new_element + remove repeated 32768 times on one slot, all handles kept in a set"},
]
EXTRA_FIXED = []
try:
    exec(open(os.path.join(ROOT, "tools", "known_extra.py")).read())
except FileNotFoundError:
    pass
entries = []
for ledger, prop, subj, what in FIXED + EXTRA_FIXED:
    c = commit(subj)
    entries.append({"status": "fixed", "property": prop, "ledger": ledger, "commit": c,
                    "what": f"fixed: property={prop} {c} {what}"})
for o in OPEN:
    e = {"status": "open"}; e.update(o); entries.append(e)
json.dump({"version": 1,
           "comment": "open = genuine defect recorded rather than repaired (suppressed only by exact signature equality); fixed = repaired by a fix: commit in /repo (suppresses nothing). Never written at run time.",
           "entries": entries}, open(os.path.join(ROOT, "known_findings.json"), "w"), indent=1, ensure_ascii=False)
print(len(entries), "entries")
