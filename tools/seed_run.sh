#!/bin/bash
# tools/seed_run.sh <seed-id> <check-id>...   apply the seeded change to /repo, run the quick checks, undo it
ID="$1"; shift; S=/verif/seeded/$ID
if ! git -C /repo diff --quiet; then echo "/repo has uncommitted changes"; exit 2; fi
git -C /repo apply "$S/patch.diff" || { echo "patch does not apply"; exit 2; }
OUT="$S/detect.txt"; : > "$OUT"
for c in "$@"; do
  /verif/check $c quick > /tmp/seedrun.$$.log 2>&1; rc=$?
  sig=$(grep -m3 "signature:" /tmp/seedrun.$$.log | sed 's/^ *signature: //' | tr '\n' ' ')
  echo "$c exit=$rc $sig" | tee -a "$OUT"
done
rm -f /tmp/seedrun.$$.log
git -C /repo checkout -- .
