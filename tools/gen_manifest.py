#!/usr/bin/env python3
"""Regenerates /verif/MANIFEST.json from the table below (run after adding a monitor)."""
import json, os, subprocess
ROOT = os.path.dirname(os.path.dirname(os.path.abspath(__file__)))

HOOK_COMMITS = []   # filled in when the hook commit exists
try:
    out = subprocess.run(["git", "-C", "/repo", "log", "--format=%H %s"], capture_output=True, text=True).stdout
    for line in out.splitlines():
        h, s = line.split(" ", 1)
        if s.startswith("verif-hook:"):
            HOOK_COMMITS.append(h)
except Exception:
    pass

TECH = ("runtime monitoring: generated hostile workload against the real library, "
        "reference-model / differential oracle at the public-API boundary")

# id -> (design section, level text, level note, technique suffix)
CHECKS = {
 "C02": ("DESIGN.md §5 C02",
         "Held on every explored rendering: abstract documents are spelled out by a renderer that draws every lexical choice (references, CDATA splitting, line ends, quotes, in-tag white space, prefix choice, xmlns interleaving, XML declaration, BOM, xml:id padding, byte encodings) and is its own oracle; the parsed tree must equal the abstract document (declarations and attributes in written order), xml_id_node must find each id, parse_fragment must equal the wrapped parse; all spellings of a reduced choice set are enumerated for small documents; exploration, not proof.",
         "Trusts the renderer's construction; comment/PI bodies use LF only; no BOM-less UTF-16.",
         "generator with built-in expected answer (renderer) vs parse result"),
 "C03": ("DESIGN.md §5 C03",
         "Held on every explored input: arbitrary bytes/strings, 32 kinds of by-construction ill-formed damage to valid renderings, byte/char mutations and four stress sizes through all five parse entry points under catch_unwind and a 20 s watchdog; ill-formed inputs must be rejected, accepted inputs must pass the structural walker, validate_well_formed_document, serialise and reparse equal; thorough adds Miri and ASan legs; exploration, not proof.",
         "Only the ill-formedness classes listed in the statement are required to be rejected; 'hang' is bounded progress (20 s).",
         "totality monitor (catch_unwind + watchdog) + by-construction negative oracle + loop closure"),
 "C17": ("DESIGN.md §5 C17",
         "Held on every explored rendering: every span recorded by the renderer while writing (names, attribute names/values, text runs across CDATA parts, comments, PI targets/contents, end tags) must be reported with exactly those byte offsets on character boundaries and every node must have its spans; every ParseError from >=10^5 rejected inputs must report a span inside the source; exploration, not proof.",
         "Trusts the renderer's offset bookkeeping.",
         "offset-tracking generator vs SpanInfo / ParseError::span"),
 "C04": ("DESIGN.md §5 C04, Appendix A",
         "Held on every explored history: invariant walker (link consistency, acyclicity, category order, uniqueness, placement, text adjacency) over all live arena slots and a shadow handle table after every call of >=6*10^4 (quick) random histories with arbitrary live arguments, plus every (operation, node, node) triple on ~2500 small start states, plus a 40 000-cycle slot-churn history; exploration, not proof.",
         "Live-slot enumeration through the read-only hook; forests <= ~60 nodes, histories <= 40 calls; one open finding (indextree stamp saturation) suppressed by exact signature.",
         "invariant hook at quiescent points + shadow handle table"),
 "C05": ("DESIGN.md §5 C05, Appendix A",
         "Held on every explored call: the real forest is compared node by node (structure, values, liveness, live-slot count, string values) with an independent ordered-forest model after every precondition-satisfying call, exhaustively over all (operation, node, node) triples of ~2500 small start states in both consolidation modes and over >=6*10^4 random histories; exploration, not proof.",
         "The model transcribes documentation + property statement (Appendix A); survivor choice of an inserted-first text merge is left open as in the documentation. On forests that still hold adjacent text nodes from a consolidation-off phase only the two seams a call creates are judged (take-out and destination-seam probes, ~8 300 calls per run), not the whole forest.",
         "reference-model monitor (ordered forest) after every call; seam assertions on mixed-consolidation states"),
 "C06": ("DESIGN.md §5 C06, Appendix A",
         "Held on every explored call: every call with arbitrary live arguments runs under catch_unwind; around every refused call a snapshot of every live node's value and relations and every root's serialisation is compared; exhaustive over the small-state catalogue (all node pairs incl. illegal ones) plus >=6*10^4 random histories; exploration, not proof.",
         "Handle-less unreachable nodes left by a refused create-and-append call are not observable and not judged; documented panics of the element-only accessors are allowed.",
         "before/after snapshot oracle + panic attribution"),
 "C07": ("DESIGN.md §5 C07",
         "Held on every explored tree and start node: every traversal entry point and all 12 axes are compared, for every node incl. attribute and namespace nodes, with lists computed from handles recorded at creation; exhaustive over all 65 ordered shapes with <= 6 nodes x kinds x decorations, plus random trees, deep chains, wide fans and re-parsed trees; exploration, not proof.",
         "Iterators are consumed with a bound (2n+8); for attribute/namespace start nodes only the entry points whose meaning the statement fixes are judged.",
         "ground-truth comparison of every iterator (bounded consumption)"),
 "C08": ("DESIGN.md §5 C08",
         "Held on every explored history: an interner model records every registration (direct, through parse, html5) and after every step every id <-> string pair, the read-only lookups and the built-in ids are re-checked in the store and in a clone; four long histories cross the former 16-bit width three times over (2*10^5 names, also through parse; 7*10^4 namespaces and prefixes) with all earlier ids re-resolved at 65 535 / 65 536 / 65 537 / 131 072 and at the end; exploration, not proof.",
         "Not exercised beyond 2*10^5 registrations per kind.",
         "reference-model monitor (interner) with long histories"),
 "C19": ("DESIGN.md §5 C19, Appendix C",
         "Held on every explored tree: HTML5 serialisation of documents, fragments with top-level text, inner elements and every kind of single detached node runs under catch_unwind + watchdog; Ok output must start with the doctype and is read by an independent HTML tokenizer aligned with the tree (unprefixed / not self-closed / end tag unless void for HTML elements, unprefixed under an xmlns declaration for MathML / SVG, text and attribute values decode back so that raw '<' '&' '\"' are caught, PI with '>' refused); exploration, not proof.",
         "Void check on the intersection of the living-standard list and xot's; with indentation text is compared modulo white space; one open finding (real XHTML namespace not recognised, 2 signatures).",
         "totality monitor + independent HTML tokenizer aligned with the tree"),
 "C20": ("DESIGN.md §5 C20",
         "Held on every explored document: parse of a rendering, fixed::Document / fixed::Element + xotify, and stepwise creation in four orders x three attribute styles must read back equal to the abstract document (incl. declarations, attribute order, leading / trailing top-level comments and PIs) and serialise to identical strings; exploration, not proof.",
         "XML-representable well-formed documents without the open F29 trigger.",
         "differential oracle across three construction routes"),
 "C09": ("DESIGN.md §5 C09",
         "Held on every explored node: at every node (elements, attribute nodes, namespace nodes, leaves) of trees with arbitrary declaration layouts the in-scope set, namespace_for_prefix / is_prefix_defined for 8 prefixes, prefix_for_namespace for 7 namespaces, unresolved_namespaces, inherited_prefixes and the qualified names from node_name_ref / name_ref / full_name are compared with a nearest-declaration-wins walk over the abstract tree; exploration, not proof.",
         "unresolved_namespaces / inherited_prefixes only as pinned down in DESIGN §5 C09; one open finding (no-namespace element under a default binding) suppressed by exact signature.",
         "reference-model monitor (namespace scope) at every node"),
 "C10": ("DESIGN.md §5 C10",
         "Held on every explored tree / history: every Ok serialisation (documents, fragments, inner elements, parentless clones of trees with arbitrary declared / undeclared namespaces) is read by an independent XML reader and every element and attribute name must resolve to the node's expanded name; histories of edits alternating with create_missing_prefixes must leave content, handles and existing declarations untouched and make the target serialise, mean the same and reparse deep-equal, round after round; exploration, not proof.",
         "Plain text content so that only namespace aspects vary; one open finding (no-namespace element under a default binding) suppressed by exact signature.",
         "independent reader of the emitted text + before/after read-back"),
 "C14": ("DESIGN.md §5 C14, Appendix C",
         "Held on every explored (tree, parameters) pair: serialisation with random subsets of element names as CDATA-section elements / suppress list, unescaped_gt, declaration variants and indentation on/off is reparsed; without indentation the tree must be deep-equal, with indentation a whitespace diff must find only added whitespace-only text nodes, none inside mixed content, xml:space=preserve scope or suppressed elements; text concentrates on ']' '>' runs, CR/LF/TAB; exploration, not proof.",
         "Trees restricted to the XML-representable domain without the open F29 trigger; the indentation clause is judged on well-formed documents and element subtrees only.",
         "reparse + whitespace-diff oracle"),
 "C16": ("DESIGN.md §5 C16, Appendix C",
         "Held on every explored (tree, parameters) pair: concatenated tokens, pretty tokens with their layout fields applied, serialize_xml_write into two kinds of writers and write() are compared byte for byte with the string API, and outputs() with the event sequence derived from the abstract tree and a scope model; exploration, not proof.",
         "Serialisable trees only (tokens() unwraps).",
         "byte-equality and event-grammar oracle"),
 "C15": ("DESIGN.md §5 C15",
         "Held on every explored tree: after deduplicate_namespaces on trees with redundant / shadowing declaration layouts names, attributes, content and handles are unchanged, each declaration list is a subsequence of the old one, a tree that serialised before still serialises to text meaning the same (independent reader), and a second call changes nothing; exploration, not proof.",
         "The serialisation clause is not judged on trees that already contain the open finding's trigger (no-namespace element under a default binding).",
         "before/after read-back + independent reader"),
 "C11": ("DESIGN.md §5 C11",
         "Held on every explored update history: after every one of 1-40 map-style / node-style updates every accessor of the read-only and the mutable view of the attribute and namespace maps of two sibling elements is compared with an ordered-map model, return values included, and the serialised start tags are read back by an independent XML reader; exploration, not proof.",
         "Key pools of 4 names / 4 prefixes; histories <= 40 steps.",
         "reference-model monitor (ordered map) after every step"),
 "C12": ("DESIGN.md §5 C12",
         "Held on every explored clone: sources of every node kind in random forests (incl. adjacent-text sources across a consolidation toggle) are cloned with clone_node / clone_with_prefixes; the clone must be parentless, made of new nodes, equal to the source, leave the forest unchanged, serialise on its own when the source serialised in place; 5-30 manipulation calls confined to one side must leave the other side's read-back (values and handles) unchanged; the same for Xot::clone with arbitrary calls on one store; exploration, not proof.",
         "Mutations on one side are precondition-satisfying calls with all node arguments in that side's tree.",
         "before/after read-back oracle + independent reader for the serialisation clause"),
 "C13": ("DESIGN.md §5 C13",
         "Held on every explored pair: deep_equal (both directions), deep_equal_xpath (4 comparators), advanced_deep_equal (4 filters), deep_equal_children, shallow_equal, shallow_equal_ignore_attributes (6 ignore-list shapes incl. repeated names) and string_value are compared with definitions computed from abstract trees, over base trees, 16 kinds of single-feature mutants, copies and independent trees, inner nodes, attribute-node and namespace-node pairs, and triples for transitivity; exploration, not proof.",
         "For two namespace nodes only 'same prefix and URI' and 'different URI' are judged; trees <= 20 nodes.",
         "differential oracle against canonical forms of abstract trees"),
 "C18": ("DESIGN.md §5 C18",
         "Held on every explored tree: the rule of the statement is evaluated on the abstract tree, and the tree and handle list after remove_insignificant_whitespace must equal the tree before minus exactly the predicted text nodes; a second call must change nothing; trees with every sibling arrangement of whitespace-only / Unicode-space / mixed / empty / adjacent text and nested xml:space values; exploration, not proof.",
         "An inner text node is not used as the call's argument (merging by remove under consolidation is documented behaviour).",
         "before/after read-back against the stated rule"),
 "C01": ("DESIGN.md §5 C01",
         "Held on every explored tree: >=10^5 (quick) / >=3*10^6 (thorough) abstract documents and fragments from a hostile generator are realised through the creation API, parsing and manipulation histories, serialised, reparsed and compared by an independent read-back; exploration, not proof.",
         "Trusts the harness's own read-back and tree equality; trees <= 40 nodes, depth <= 8, hostile but finite alphabet.",
         "serialise -> parse -> independent read-back comparison"),
}

NOT_YET = {
}

def main():
    props = [json.loads(l) for l in open(os.path.join(ROOT, "properties.jsonl"))]
    checks = []
    na = []
    for p in props:
        pid = p["id"]
        if pid in CHECKS:
            ref, text, note, tech = CHECKS[pid]
            checks.append({
                "property_id": pid,
                "quick_cmd": f"./check {pid} quick",
                "thorough_cmd": f"./check {pid} thorough",
                "evidence_file": f"/verif/evidence/{pid}.json",
                "replay_cmd_template": f"./check {pid} --replay {{path}}",
                "engine": "xvm",
                "level_claimed": {"category": "exploration", "text": text, "design_ref": ref},
                "level_note": note,
                "technique": TECH + "; " + tech,
            })
        else:
            na.append({"property_id": pid,
                       "reason": NOT_YET.get(pid, "monitor designed in DESIGN.md §5 but not built yet; not claimed until it runs")})
    m = {
        "version": 1,
        "setup_cmd": "./check --build",
        "hooks": {
            "guard": "xot_verif",
            "enable": "RUSTFLAGS=\"--cfg xot_verif\" (set in /verif/harness/.cargo/config.toml; the harness depends on xot by path = /repo)",
            "baseline_off_cmd": "cd /repo && cargo nextest run --workspace --no-fail-fast --offline || cargo test --workspace --no-fail-fast --offline",
            "source_commits": HOOK_COMMITS,
            "add_only": True,
        },
        "engines": [{"name": "xvm", "path": "/verif/harness", "serves_properties": sorted(CHECKS.keys()),
                     "kind_free_text": "Rust harness (no third-party crates) linking the real xot from /repo: workload generators, reference models, independent XML/HTML readers, invariant walker, evidence/replay writers"}],
        "checks": checks,
        "not_applicable": na,
        "notes": "Every check rebuilds xot from /repo's working tree (cargo path dependency). Exit 0 = held on everything explored (KNOWN-FINDING lines allowed), 1 = VIOLATION, 3 = inconclusive (harness fault / coverage floor / watchdog on a non-totality property). known_findings.json lists open findings (exact signatures) and fixed ones.",
    }
    json.dump(m, open(os.path.join(ROOT, "MANIFEST.json"), "w"), indent=1)
    print("MANIFEST.json:", len(checks), "checks,", len(na), "not claimed")

main()
