#!/usr/bin/env python3
"""Regenerates /verif/MANIFEST.json from the table below (run after adding a monitor)."""
import json, os, subprocess
ROOT = os.path.dirname(os.path.dirname(os.path.abspath(__file__)))

HOOK_COMMITS = []   # filled in when the hook commit exists
try:
    out = subprocess.run(["git", "-C", "/repo", "log", "--format=%H %s"], capture_output=True, text=True).stdout
    for line in out.splitlines():
        h, s = line.split(" ", 1)
        if s.startswith("verif-hook:"):
            HOOK_COMMITS.append(h)
except Exception:
    pass

TECH = ("runtime monitoring: generated hostile workload against the real library, "
        "reference-model / differential oracle at the public-API boundary")

# id -> (design section, level text, level note, technique suffix)
CHECKS = {
 "C01": ("DESIGN.md §5 C01",
         "Held on every explored tree: >=10^5 (quick) / >=3*10^6 (thorough) abstract documents and fragments from a hostile generator are realised through the creation API, parsing and manipulation histories, serialised, reparsed and compared by an independent read-back; exploration, not proof.",
         "Trusts the harness's own read-back and tree equality; trees <= 40 nodes, depth <= 8, hostile but finite alphabet.",
         "serialise -> parse -> independent read-back comparison"),
}

NOT_YET = {
}

def main():
    props = [json.loads(l) for l in open(os.path.join(ROOT, "properties.jsonl"))]
    checks = []
    na = []
    for p in props:
        pid = p["id"]
        if pid in CHECKS:
            ref, text, note, tech = CHECKS[pid]
            checks.append({
                "property_id": pid,
                "quick_cmd": f"./check {pid} quick",
                "thorough_cmd": f"./check {pid} thorough",
                "evidence_file": f"/verif/evidence/{pid}.json",
                "replay_cmd_template": f"./check {pid} --replay {{path}}",
                "engine": "xvm",
                "level_claimed": {"category": "exploration", "text": text, "design_ref": ref},
                "level_note": note,
                "technique": TECH + "; " + tech,
            })
        else:
            na.append({"property_id": pid,
                       "reason": NOT_YET.get(pid, "monitor designed in DESIGN.md §5 but not built yet; not claimed until it runs")})
    m = {
        "version": 1,
        "setup_cmd": "./check --build",
        "hooks": {
            "guard": "xot_verif",
            "enable": "RUSTFLAGS=\"--cfg xot_verif\" (set in /verif/harness/.cargo/config.toml; the harness depends on xot by path = /repo)",
            "baseline_off_cmd": "cd /repo && cargo nextest run --workspace --no-fail-fast --offline || cargo test --workspace --no-fail-fast --offline",
            "source_commits": HOOK_COMMITS,
            "add_only": True,
        },
        "engines": [{"name": "xvm", "path": "/verif/harness", "serves_properties": sorted(CHECKS.keys()),
                     "kind_free_text": "Rust harness (no third-party crates) linking the real xot from /repo: workload generators, reference models, independent XML/HTML readers, invariant walker, evidence/replay writers"}],
        "checks": checks,
        "not_applicable": na,
        "notes": "Every check rebuilds xot from /repo's working tree (cargo path dependency). Exit 0 = held on everything explored (KNOWN-FINDING lines allowed), 1 = VIOLATION, 3 = inconclusive (harness fault / coverage floor / watchdog on a non-totality property). known_findings.json lists open findings (exact signatures) and fixed ones.",
    }
    json.dump(m, open(os.path.join(ROOT, "MANIFEST.json"), "w"), indent=1)
    print("MANIFEST.json:", len(checks), "checks,", len(na), "not claimed")

main()
