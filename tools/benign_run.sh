#!/bin/bash
# tools/benign_run.sh <benign-id> <check-id>...
# Runs the quick checks against a scratch worktree of /repo with the seeded change applied, using a scratch
# copy of the harness (so /repo itself is never touched and other work can go on). Equivalent to
# `git -C /repo apply` + ./check + `git -C /repo checkout -- .` (tools/seed_run.sh does exactly that).
ID="$1"; shift; S=/verif/benign/$ID; W=/tmp/sd-$ID; H=/tmp/sdh-$ID
export CARGO_NET_OFFLINE=true
git -C /repo worktree remove --force "$W" 2>/dev/null; rm -rf "$W" "$H"
git -C /repo worktree add -q --detach "$W" HEAD || exit 2
( cd "$W" && git apply "$S/patch.diff" ) || { echo "patch does not apply" | tee "$S/detect.txt"; git -C /repo worktree remove --force "$W"; exit 2; }
mkdir -p "$H"
rsync -a --exclude target --exclude 'target-*' /verif/harness "$H/"
cp /verif/known_findings.json "$H/"
sed -i "s#path = \"/repo\"#path = \"$W\"#" "$H/harness/Cargo.toml"
( cd "$H/harness" && cargo build --release --offline >"$H/build.log" 2>&1 ) || { echo "harness build failed against the seeded tree" | tee "$S/detect.txt"; tail -5 "$H/build.log"; }
: > "$S/detect.txt"
echo "# quick checks against /repo $(git -C /repo rev-parse --short HEAD) + patch, harness $(git -C /verif rev-parse --short HEAD)" >> "$S/detect.txt"
for c in "$@"; do
  "$H/harness/target/release/xvm" --root "$H" --property $c --tier quick > "$H/run.log" 2>&1; rc=$?
  sig=$(grep "signature:" "$H/run.log" | sed 's/^ *signature: //' | sort -u | head -4 | tr '\n' ' ')
  echo "$c exit=$rc $sig" | tee -a "$S/detect.txt"
done
git -C /repo worktree remove --force "$W"; rm -rf "$W" "$H"
