#!/usr/bin/env python3
"""Rewrites the generated regions of DESIGN.md (final ledger, seed summary) from known_findings.json and seeded/."""
import json, os, re, glob
ROOT = os.path.dirname(os.path.dirname(os.path.abspath(__file__)))
k = json.load(open(os.path.join(ROOT, "known_findings.json")))
rows = []
seen = set()
for e in k["entries"]:
    key = (e["ledger"], e["property"], e["status"], e.get("signature", ""))
    if key in seen: continue
    seen.add(key)
    if e["status"] == "fixed":
        what = re.sub(r"^fixed: property=\S+ \S+ ", "", e["what"])
        rows.append((e["ledger"], e["property"], "fixed `" + e["commit"] + "`", what))
    else:
        rows.append((e["ledger"], e["property"], "**open** (signature `" + e["signature"] + "`)", e["what"]))
def keyf(r):
    m = re.match(r"F(\d+)(\w*)", r[0]); return (int(m.group(1)), m.group(2), r[1])
rows.sort(key=keyf)
led = ["| ledger | property | disposition | what failed on the pinned commit |", "|---|---|---|---|"]
for r in rows:
    led.append("| " + " | ".join(x.replace("|", "/") for x in r) + " |")
nfix = len({r[0] for r in rows if r[2].startswith("fixed")}); nopen = len({(r[0]) for r in rows if r[2].startswith("**open")})
led.append("")
led.append(f"{nfix} ledger rows repaired by `fix:` commits in /repo, {nopen} recorded as open findings ({sum(1 for r in rows if r[2].startswith('**open'))} signatures).")
# seeds
seeds = []
for d in sorted(glob.glob(os.path.join(ROOT, "seeded", "*"))):
    sid = os.path.basename(d)
    if sid.startswith("revert-"): continue
    try: meta = json.load(open(os.path.join(d, "meta.json")))
    except Exception: meta = {}
    det = open(os.path.join(d, "detect.txt")).read() if os.path.exists(os.path.join(d, "detect.txt")) else ""
    fired = [m.group(1) for m in re.finditer(r"^(C\d+) exit=1", det, flags=re.M)]
    seeds.append("| " + " | ".join([sid, (meta.get("summary", "") or "").replace("|", "/").replace("\n", " ")[:160], ", ".join(fired) or "-"]) + " |")
seedtab = ["| seed | change (one line) | quick checks that fire |", "|---|---|---|"] + seeds
p = os.path.join(ROOT, "DESIGN.md")
s = open(p).read()
def region(s, name, body):
    a, b = f"<!-- BEGIN:{name} -->", f"<!-- END:{name} -->"
    i, j = s.index(a), s.index(b)
    return s[:i + len(a)] + "\n" + "\n".join(body) + "\n" + s[j:]
s = region(s, "LEDGER", led)
s = region(s, "SEEDS", seedtab)
open(p, "w").write(s)
print("DESIGN.md regions rewritten:", len(rows), "ledger rows,", len(seeds), "seeds")
