#!/bin/bash
# tools/sweep.sh <tier> <seed>...   run every claimed check at the given seeds; print every run that is not exit 0
TIER="$1"; shift
cd /verif
for s in "$@"; do
  for p in $(python3 -c "import json;print(' '.join(c['property_id'] for c in json.load(open('MANIFEST.json'))['checks']))"); do
    VERIF_SEED=$s ./check $p $TIER > /tmp/sweep.$$.log 2>&1; rc=$?
    if [ $rc -ne 0 ] || grep -q "^VIOLATION" /tmp/sweep.$$.log; then
      echo "seed=$s $p exit=$rc"; grep -E "signature:|INCONCLUSIVE" /tmp/sweep.$$.log | sort | uniq -c | head -6
      cp /tmp/sweep.$$.log /tmp/sweep-fail-$p-$s.log
    fi
  done
  echo "seed $s done"
done
rm -f /tmp/sweep.$$.log
