#!/usr/bin/env python3
"""tools/gen_seed_prompts.py <round> [PROP ...]
Writes /tmp/prompt<round>-<PROP>.txt for the seeding sub-agents of a later round: the round-1 template
(tools/seed_agent_prompt.txt) with the worktree /tmp/wt<round>-<PROP>, seed numbers 3*(round-1)+1..+3, and
one-line summaries of the changes that already exist for the property (taken from the agents' own meta.json,
nothing about the checks). The property text comes from /verif/properties.jsonl."""
import json, sys, os, glob
ROOT = os.path.dirname(os.path.dirname(os.path.abspath(__file__)))
rnd = int(sys.argv[1])
props = {}
for l in open(os.path.join(ROOT, "properties.jsonl")):
    l = l.strip()
    if l:
        d = json.loads(l)
        props[d["id"]] = d
want = sys.argv[2:] or sorted(props)
tmpl = open(os.path.join(ROOT, "tools", "seed_agent_prompt.txt")).read()
head, _, _ = tmpl.partition("PROPERTY:")
ks = [3 * (rnd - 1) + i for i in (1, 2, 3)]
FOCUS = {
    3: "ROUND 3. Aim at places that small random trees and short random call sequences rarely reach: sizes and counts "
       "beyond a threshold (more than 16 / 32 / 64 / 255 / 65 535 of something), rarely used entry points or parameters, "
       "the interaction of two features (a configuration switch plus an operation, an option plus a node kind), state left "
       "over from earlier calls (caches, indexes, free lists), a particular ORDER of otherwise ordinary operations, and "
       "unusual-but-legal arguments (the document node, detached nodes, attribute / namespace nodes, the same node twice, "
       "ancestor / descendant pairs).",
    4: "ROUND 4. Aim at effects that one call alone does not show: a change that is only visible through a SECOND, "
       "different API looking at the same state (two accessors that should agree, a lookup after a mutation, a serialisation "
       "after a repair call); trees that are the RESULT of earlier manipulation (moved, unwrapped, cloned, deduplicated, "
       "re-parsed into a Xot that already holds other documents) rather than freshly built ones; what is left behind after a "
       "call returned an error; non-default configuration of the Xot or of the serialiser combined with an ordinary call; "
       "boundary positions (first / last child, first / last attribute, root, document node, empty containers, single-character "
       "and empty strings); and off-by-one or wrong-branch slips in code paths that only one kind of node reaches (comments, "
       "processing instructions, namespace nodes, attribute nodes, detached nodes).",
    5: "ROUND 5. Go through the property's statement clause by clause and through its code anchors one by one. For each of "
       "your three changes pick a clause (or an anchor) that NONE of the existing changes listed below targets, and break "
       "exactly that clause while every other clause keeps holding. Also consider shared helper code that this property "
       "depends on without naming it (the fullname / prefix machinery in src/output/fullname.rs, the node maps in src/nodemap, "
       "the iterators in src/access.rs, src/entity.rs, src/id/*, src/xmlvalue.rs, src/xotdata.rs): a slip there that the "
       "existing tests miss but that makes THIS property fail for particular inputs. Prefer conditions that depend on the "
       "data (particular characters, particular name / prefix / namespace relationships, particular positions in the tree) "
       "over conditions that depend on sizes.",
    6: "ROUND 6. Think like a maintainer doing performance work and API clean-up: introduce a cache, memo, fast path, early "
       "exit, batch operation, changed iteration strategy, reused buffer, or an index replacing a scan - each CORRECT for the "
       "common case but wrong in one corner that depends on the data or on the call history (stale after one particular kind "
       "of mutation, wrong when two keys collide, wrong for the first / last / only item, wrong for non-ASCII data, wrong "
       "after an earlier call failed, wrong on the second call). Also consider pairs of equivalent entry points that must "
       "agree (String vs io::Write, *_with_span_info vs plain, document vs fragment, bytes vs str, tokens vs string, map-style "
       "vs node-style, the node itself vs its document as argument) and make exactly ONE of a pair go wrong.",
    7: "ROUND 7. Two directions. (1) Public API surface that none of the existing changes touches: list the public functions, "
       "trait impls and parameters in the property's area (including rarely used ones: *_mut accessors of single nodes, "
       "iterator adaptors, Default / Clone / PartialEq impls, conversion helpers, with_* builders, error conversions) and "
       "pick ones that no listed change has modified. (2) Interplay: a defect that needs THREE OR MORE calls, or calls from two "
       "different areas of the library, to show - for example serialise after deduplicate after clone, parse into a Xot on "
       "which html5() was called, remove_insignificant_whitespace followed by a move, a repair call followed by a second "
       "repair call, an accessor used while a mutable view of another element is alive earlier in the history. The change "
       "itself must still be a small, plausible slip in ONE place.",
    8: "ROUND 8. Three directions. (1) Unusual but legal ARGUMENTS to the property's entry points: the node passed is an "
       "attribute / namespace / text / comment / PI / document node or the root of an unattached tree where an attached "
       "element is typical; an io::Write that accepts only part of a buffer or fails; closures (filters, comparisons, "
       "prefix / namespace lookups, normalizers) that are not symmetric, not idempotent or return None; empty collections, "
       "empty strings, the same node passed twice. (2) Library state the caller set up earlier: text consolidation switched "
       "off (or toggled on, off, on), a Xot obtained from Default / clone / clone_from, a Xot that holds other documents and "
       "removed nodes, names registered in another order, html5() already called, a previous call on the same value that "
       "returned an error. (3) Slips in ERROR paths and early returns: the function reports the right error but leaves "
       "something changed, returns Ok where one particular kind of argument needs Err (or the reverse), or skips the cleanup "
       "after an early `?`. The change itself must still be a small, plausible slip in ONE place.",
    9: "ROUND 9. The earlier rounds went for unusual calls and call histories; this round goes for unusual VALUES and for PAIRS "
       "of options. List the branches (match arms, if / else, early returns, loop exits) of the functions in the property's "
       "area and pick branches that only a particular value reaches: boundary characters (U+0009 / U+000A / U+000D, U+0020, "
       "U+007F, U+0085, U+00A0, U+2028, U+D7FF / U+E000, U+FFFD, U+10000 and above, combining marks, characters whose "
       "UTF-8 length differs from their char count), strings that look like markup or like names the library generates or "
       "reserves (n0, n1, xml, xmlns, xml:space, xml:id), inputs that are equal but not identical (the same expanded name "
       "through different prefixes, URIs that differ only in case or by a trailing slash, names that differ only in letter "
       "case), empty versus absent (Some(\"\") versus None, an empty text node versus no node, xmlns=\"\" versus no "
       "declaration), a collection exactly at a threshold the code treats specially, and two options or parameters combined "
       "(indentation with CDATA-section elements, unescaped_gt with a normalizer, a declaration with a doctype, a suppress "
       "list with xml:space, consolidation off with a repair call). The change must be ONE small, plausible edit.",
}
for pid in want:
    wt = "/tmp/wt%d-%s" % (rnd, pid)
    t = head.replace("WT", wt).replace("k = 1,2,3", "k = %d,%d,%d" % tuple(ks))
    existing = []
    for m in sorted(glob.glob(os.path.join(ROOT, "seeded", pid + "-*", "meta.json"))):
        try:
            s = json.load(open(m)).get("summary", "")
        except Exception:
            continue
        existing.append("  - " + s[:330])
    t += "\n" + FOCUS.get(rnd, "ROUND %d." % rnd) + "\n"
    t += ("%d changes for this property already exist (listed below). Yours must differ from them in MECHANISM and, if possible, in the "
          "source file or function they touch. Write your seeds to %s/_seed/%d, /%d and /%d.\nAlready existing changes:\n" % (len(existing), wt, ks[0], ks[1], ks[2]))
    t += "\n".join(existing) + "\n\nPROPERTY:\n" + json.dumps(props[pid], indent=1) + "\n"
    open("/tmp/prompt%d-%s.txt" % (rnd, pid), "w").write(t)
    print("/tmp/prompt%d-%s.txt" % (rnd, pid), len(t))
