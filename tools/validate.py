#!/opt/veriftools/pyvenv/bin/python3
import json, sys, glob, jsonschema
m = json.load(open('/verif/MANIFEST.json'))
jsonschema.validate(m, json.load(open('/root/.vp/MANIFEST.schema.json')))
es = json.load(open('/root/.vp/EVIDENCE.schema.json'))
bad = 0
for c in m['checks']:
    f = c['evidence_file']
    try:
        jsonschema.validate(json.load(open(f)), es)
    except Exception as e:
        bad += 1
        print('BAD', f, str(e)[:200])
print('manifest ok;', len(m['checks']), 'checks;', bad, 'bad evidence files')
sys.exit(1 if bad else 0)
