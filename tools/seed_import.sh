#!/bin/bash
# tools/seed_import.sh <PROP>   copy the seeds a sub-agent left in /tmp/wt-<PROP>/_seed/* to /verif/seeded/<PROP>-<k>/
set -e
P="$1"
for d in /tmp/wt-$P/_seed/*/; do
  k=$(basename "$d")
  t=/verif/seeded/$P-$k
  mkdir -p "$t"
  cp "$d/patch.diff" "$d/demo.rs" "$d/meta.json" "$t/" 2>/dev/null || true
  echo "imported $t"
done
