#!/bin/bash
# tools/seed_import.sh <PROP> [worktree]   copy the seeds a sub-agent left in <worktree>/_seed/* (default /tmp/wt-<PROP>) to /verif/seeded/<PROP>-<k>/
set -e
P="$1"; W="${2:-/tmp/wt-$P}"
for d in $W/_seed/*/; do
  k=$(basename "$d")
  t=/verif/seeded/$P-$k
  mkdir -p "$t"
  cp "$d/patch.diff" "$d/demo.rs" "$d/meta.json" "$t/" 2>/dev/null || true
  echo "imported $t"
done
